"""C13 — arithmetic follows Python numerics on the declared value types.

Model   lean/FaxVerif/C13/Model.lean: translate (visit_BinOp/Pow/UnaryOp/Compare/Constant), most_accurate_type, the
        set_var cast rule, visit_IfExp, the Aggregate typing path; evalC (C++ meaning), evalPy (Python meaning), both
        over an abstract double.
Tie T   the three operator tables and `_type_priority` are regenerated from the source into
        lean/FaxVerif/Generated/C13Tables.lean on every run; the theorems are re-checked over them.
Tie K   every cell of operator x operand-kind (and conditionals, aggregates, random deeper trees) is pushed through the
        real translator as a full query on a data model declared by metadata; emitted text and declared column type are
        compared with the model's.  evalPy is compared with CPython on every sample.
Oracle  the decidable Spec (ColOk) evaluated by the Lean driver on what the IMPLEMENTATION emitted: its text parsed
        and run under evalC (quick), and the values printed by the g++-compiled job (thorough).  An operand's C++ type
        is the type of the expression the implementation reads it from: a count read off `c->size()` is a std::size_t
        (Spec.lean `evalX`, = evalC when there is no such operand: theorem evalX_conservative).
Text    lean/FaxVerif/C13/Text.lean: how a C++ compiler READS an emitted text - `lex` (maximal-munch tokens), `pExpr` (C++
        operator precedence), `PT.toCE` (operands through the operand table) = `readCpp`.  It is the reader of the
        oracle (the implementation's texts: `ill` = a token accident / syntax error, judged as code without a value;
        `unk` = outside the subset, never a verdict), and the subject of the theorems text_lex / text_parse /
        text_read / text_denotes: the rendering of every expression the translator builds reads back as that tree.
        The correspondence compares TREES when texts differ (redundant parentheses, spaces are not the property's subject).
Stmt    conditionals whose arms need statements (First(), Sum()) inside arithmetic are judged on the values of the
        g++-compiled execute() body in BOTH tiers (one small translation unit).
"""
from __future__ import annotations

import copy
import json
from typing import Any, Dict, List, Optional, Tuple

from c13_lib import exprs as X
from c13_lib import pyref, real, tables

ID = "C13"
LEAN_MODULES = ["FaxVerif.C13.Theorems", "FaxVerif.C13.TextTheorems"]
LEAN_SOURCES = ["FaxVerif/C13", "FaxVerif/Generated/C13Tables.lean"]
DRIVER = "FaxVerif/C13/Driver.lean"
THEOREMS = [
    "FaxVerif.C13." + t
    for t in [
        "operator_tables", "priority_table", "widest", "widest_refuses",
        "expr_correct_partial", "int_stays_int", "result_wide_enough", "column_correct_partial", "accepts_in_scope",
        "binop_table", "intdiv_real", "intdiv_without_cast_truncates", "pow_real", "pow_int_exact_partial",
        "unary", "unary_type", "compare", "bool_refused", "other_operators_refused",
        "const_typing", "guess_type_legacy", "set_var_cast", "acc_wide_enough", "agg_refusals",
        "count_correct", "sum_correct", "maxmin_correct_partial", "clamp_sum_correct", "cond_arm", "cond_shape", "boolop_truth",
        "mod_float_counterexample", "neg_bool_counterexample", "not_real_is_bool",
        "not_real_then_div_refused", "cond_int_counterexample", "max_int_counterexample", "mod_negative_differs",
        "evalX_conservative", "storeX_conservative", "evalCondX_conservative", "size_cast_int", "unsigned_count_differs",
        # the text side (Text.lean / TextLex.lean / TextParse.lean / TextTheorems.lean)
        "text_tables_known", "translate_opsOk", "text_lex", "text_parse", "text_read", "text_norm_meaning", "text_denotes",
        "text_setVar_wf", "lex_render", "lex_render_no_incdec", "scan_append", "parse_toks", "toCE_toPT", "toCE_toPT_gen", "read_toks",
        "text_minus_minus_counterexample", "text_unary_unbracketed_counterexample", "text_precedence_counterexample",
    ]
]
RULE = (
    "every cell of {+,-,*,/,%,**} x 5x5 operand kinds, {+,-,not,~} x 5 kinds, 6 comparisons x 5x5 kinds, conditionals over "
    "5x5 arm kinds, Count/Sum/Max/Min over 4 value kinds, Aggregate with int/float seeds, the non-property operators, at "
    "jet level (accessors declared by metadata) and event level (Count() of two banks, EventInfo accessors), each with "
    "several operand spellings (accessor / literal / Count), plus seeded random trees of depth <=3; the SIGN family (every "
    "spelling of an integer operand - Count() of a bank, Sum() of ints, integer accessors - x 5 ways of going below zero x 12 "
    "consumers that tell a signed integer from anything else: /, a real partner, **, comparisons also with negative literals, "
    "conditional test and arm, int and double columns) and the LITERAL-WIDTH family (integer literals 2^31-1 .. 2^40+1 and "
    "negations next to every integer operand spelling under /, comparisons, reals, conditionals, folds, %), both also as a "
    "third of the terms of further random trees; the TEXT family (unary - / + / not over every shape of operand text - "
    "positive and negative integer constants, float constants also in exponent notation, accessors, counts, bracketed "
    "compounds, cast quotients, powers, other unaries - as right and left operand of binary - + * /, of comparisons, of **, "
    "under another unary, in conditionals and folds: every place where a sign is written next to a sign); conditionals used "
    "inside arithmetic; conditionals whose arms need statements (First(), Sum()) inside arithmetic, run as compiled code; "
    "each case is one full "
    "query through the real translator, evaluated on 5-6 sample rows (negatives, zeros, dyadic reals; non-negative rows "
    "for %). A case is non-trivial when it has an operator and is accepted; distinct = distinct query text."
)
TRUSTED_BASE = [
    "hand model (Model.lean) of visit_BinOp/visit_special_BinOp/visit_UnaryOp/visit_Compare/visit_Constant/visit_IfExp/"
    "visit_call_Aggregate_initial/most_accurate_type/set_var, tied to the code by text equality on every case of this run",
    "C++ semantics of the emitted expression subset (evalC: usual arithmetic conversions, bool promotion, int/int and % "
    "truncation, std::pow overloads), validated against g++ on every sample in the thorough tier; evalX: the same plus "
    "std::size_t operands (arithmetic modulo 2^64, modular conversion to int) - only reached when an implementation reads "
    "a count off a collection's size()",
    "Python semantics (evalPy), validated against CPython on every sample of every run",
    "the translator tools/c13_lib/tables.py (Python ast -> Lean tables), the readers of query.cxx/query.h in "
    "tools/c13_lib/real.py",
    "the C++ lexical and expression grammar as written in Text.lean (lex: identifiers, pp-numbers with the e+/e- rule, the "
    "punctuators with longest match; pExpr: postfix > unary > * / % > + - > shifts > relational > equality > & ^ | && ||, "
    "left-associative; ++/-- are ill-formed on anything an emitted expression contains): used to read the implementation's "
    "texts and as the statement of the text theorems; cross-checked against g++ on every accepted case in the thorough tier "
    "and on the statement-arm family in both tiers",
    "func_adl's rewriting of Count/Sum/Max/Min into Aggregate(0, ...) (observed through the real pipeline, not modelled)",
]
ASSUMPTIONS = [
    "double arithmetic is abstract (structure Num, no law assumed); the driver instantiates it with IEEE binary64 and libm pow",
    "32-bit float operands are carried in the same abstract reals: precision of float arithmetic is not modelled "
    "('on the declared value types'); samples are chosen so that float results are exact",
    "int results stay inside 32 bits (signed overflow is undefined in C++) and |int| < 2^53 (int -> double exact): integer "
    "literals beyond 32 bits are generated only where the stored value is real, a truth value or a remainder, never with "
    "binary32 operands; intermediate integer results with such a literal are `long` in C++ and stay below 2^63",
    "the metadata-declared return type of an accessor is the C++ method's actual return type",
    "'**' is judged as the property words it: a real power (double), also between ints; CPython's int result for "
    "int ** non-negative int is related to it by pow_int_exact_partial",
]

QUICK_RANDOM = 120
THOROUGH_RANDOM = 3500
QUICK_FAMILY_RANDOM = 40
THOROUGH_FAMILY_RANDOM = 600


# ------------------------------------------------------------------------------------------------------------ translator
def translate(ctx):
    import vlib

    t = tables.read_tables(vlib.REPO)
    vlib.write_if_changed(vlib.LEAN / "FaxVerif/Generated/C13Tables.lean", tables.render(t, vlib.lean_str))
    ctx.extra_cov["generated_tables"] = {k: len(v) for k, v in t.items()}


# ------------------------------------------------------------------------------------------------------------ cases
def table_cases(thorough: bool = True) -> List[Tuple[str, str, Dict[str, Any]]]:
    out = []
    for level in ("jet", "evt"):
        variants = (0, 2) if level == "jet" else (0,)
        for v in variants:
            for k1 in X.KINDS:
                for k2 in X.KINDS:
                    if level == "evt" and "intCount" not in (k1, k2):
                        continue  # the event level is there for Count()
                    a, b = X.operand(k1, level, False, variant=v), X.operand(k2, level, True, variant=v)
                    for op in X.BIN_OPS:
                        out.append(("binop", level, X.form_plain(X.binop(op, a, b))))
                    for op in X.CMP_OPS:
                        if v == 0 or thorough:  # the second operand spelling of the comparisons only in the thorough tier
                            out.append(("compare", level, X.form_plain(X.cmpop(op, a, b))))
                    if v == 0:
                        t = X.cmpop("Gt", X.leaf(level, "d"), X.int_lit(1))
                        out.append(("cond", level, X.form_cond(t, a, b)))
            for k in X.KINDS:
                a = X.operand(k, level, False, variant=v)
                if level == "evt" and k != "intCount":
                    continue
                for op in X.UN_OPS:
                    out.append(("unary", level, X.form_plain(X.unop(op, a))))
    a, b = X.leaf("jet", "i"), X.leaf("jet", "i2")
    for op in X.OTHER_BIN_OPS:
        out.append(("other-op", "jet", X.form_plain(X.binop(op, a, b))))
    for op in X.OTHER_CMP_OPS:
        out.append(("other-op", "jet", X.form_plain(X.cmpop(op, a, b))))
    # conditionals with other tests
    for t in (X.leaf("jet", "b"), X.cmpop("Lt", X.leaf("jet", "i"), X.leaf("jet", "f2")), X.unop("Not", X.leaf("jet", "b"))):
        out.append(("cond", "jet", X.form_cond(t, X.leaf("jet", "d"), X.leaf("jet", "f2"))))
        out.append(("cond", "jet", X.form_cond(t, X.binop("Div", X.leaf("jet", "i"), X.int_lit(2)), X.flt_lit(0.5))))
    # aggregates
    out.append(("aggregate", "jet", X.shortcut_form("Count", None)))
    for sc in ("Sum", "Max", "Min"):
        for k in ("i", "f", "d", "b"):
            out.append(("aggregate", "jet", X.shortcut_form(sc, k)))
    acc = X.acc_leaf()
    for seed in (X.int_lit(0), X.int_lit(1), X.flt_lit(0.5), X.bool_lit(True)):
        for k in ("i", "f", "d"):
            v = X.leaf("jet", k)
            out.append(("aggregate", "jet", X.form_agg(seed, {"plain": X.binop("Add", acc, v)})))
            out.append(("aggregate", "jet", X.form_agg(seed, {"plain": X.binop("Add", X.binop("Mult", acc, X.int_lit(2)), v)})))
            out.append(("aggregate", "jet", X.form_agg(seed, {"plain": v})))
        out.append(("aggregate", "jet", X.form_agg(seed, {"plain": X.binop("Add", acc, X.binop("Div", X.leaf("jet", "i"), X.int_lit(2)))})))
        out.append(("aggregate", "jet", X.form_agg(seed, {"plain": X.binop("Add", X.binop("Mod", acc, X.int_lit(3)), X.leaf("jet", "i"))})))
    # a conditional INSIDE the lambda of an Aggregate, the accumulator in its test and/or an arm, next to integer and real
    # terms: the conditional is typed while the accumulator still has the seed's type, the accumulator widens afterwards
    zero, one = X.int_lit(0), X.int_lit(1)
    for seed in (X.int_lit(0), X.int_lit(1), X.flt_lit(0.5)):
        for k in ("i", "f", "d"):
            v = X.leaf("jet", k)
            for t, a, b, body_of in (
                (X.cmpop("Gt", acc, zero), acc, zero, lambda R: X.binop("Add", R, v)),
                (X.cmpop("Lt", acc, v), acc, one, lambda R: X.binop("Add", v, R)),
                (X.cmpop("Gt", acc, one), v, X.int_lit(2), lambda R: X.binop("Add", X.binop("Mult", R, X.int_lit(2)), X.leaf("jet", "d2"))),
                (X.cmpop("Gt", v, one), acc, X.binop("Add", acc, one), lambda R: X.binop("Add", R, X.binop("Div", X.leaf("jet", "i"), X.int_lit(2)))),
                (X.cmpop("Gt", v, one), one, zero, lambda R: X.binop("Add", X.binop("Add", acc, R), v)),
                (X.cmpop("GtE", acc, X.int_lit(3)), zero, acc, lambda R: X.binop("Add", X.binop("Sub", acc, R), v)),
            ):
                out.append(("aggregate-conditional", "jet", X.form_agg_cond_in(seed, t, a, b, body_of)))
    # negative integer exponents (a constant, a negated integer value): the power is a fraction
    for exp_ in (X.unop("USub", X.int_lit(1)), X.unop("USub", X.int_lit(2)), X.unop("USub", X.leaf("jet", "i2"))):
        for base in (X.int_lit(4), X.leaf("jet", "i"), X.leaf("jet", "f"), X.leaf("jet", "d")):
            out.append(("neg-exponent", "jet", X.form_plain(X.binop("Pow", base, exp_))))
        out.append(("neg-exponent", "jet", X.form_agg(X.int_lit(0), {"plain": X.binop("Add", acc, X.binop("Pow", X.int_lit(2), exp_ if "leaf" in exp_["un"][1] else X.unop("USub", X.leaf("jet", "i"))))})))
    out.append(("neg-exponent", "jet", X.form_agg(X.int_lit(0), {"plain": X.binop("Add", acc, X.binop("Pow", X.leaf("jet", "i"), X.unop("USub", X.int_lit(1))))})))
    for base in (X.count_leaf("J1"), X.count_leaf("J"), X.sum_leaf("i"), X.leaf("evt", "i")):
        out.append(("neg-exponent", "evt", X.form_plain(X.binop("Pow", base, X.unop("USub", X.int_lit(2))))))
        out.append(("neg-exponent", "evt", X.form_plain(X.binop("Pow", X.int_lit(2), X.unop("USub", base)))))
    # several aggregates in one expression / one query: an int-typed result must not depend on what was computed before it
    cj, c1 = X.count_leaf("J"), X.count_leaf("J1")
    si, sf, sd = X.sum_leaf("i"), X.sum_leaf("f"), X.sum_leaf("d")
    three, two = X.int_lit(3), X.int_lit(2)
    for e in (
        X.binop("Add", sd, cj), X.binop("Add", cj, sd), X.binop("Add", sd, X.binop("Mod", cj, three)),
        X.binop("Add", X.binop("Mod", cj, three), sd), X.binop("Div", sd, cj), X.binop("Div", cj, two), X.binop("Mod", si, three),
        X.binop("Mult", sf, two), X.binop("Sub", sf, si), X.binop("Add", X.binop("Add", sd, sf), X.binop("Mod", c1, two)),
        X.cmpop("Gt", sd, cj), X.binop("Add", X.binop("Add", sd, X.int_lit(0)), X.binop("Mod", X.binop("Add", cj, X.int_lit(0)), three)),
    ):
        out.append(("several-aggregates", "evt", X.form_plain(e)))
    for cols in (
        [sd, cj], [cj, sd], [sd, X.binop("Mod", cj, three)], [X.binop("Mod", cj, three), sd], [sf, cj, si], [si, sd, cj],
        [sd, X.binop("Div", c1, two), X.binop("Mod", cj, two)], [X.binop("Add", X.flt_lit(2.5), X.leaf("evt", "d")), cj, X.binop("Mod", X.leaf("evt", "i"), three)],
        [sd, X.binop("Add", X.leaf("evt", "i"), X.int_lit(0)), cj], [sd, sf, X.binop("Add", cj, X.int_lit(1))],
        [X.binop("Add", sd, X.int_lit(1)), X.binop("Add", c1, X.int_lit(1)), X.binop("Mod", X.binop("Add", cj, X.int_lit(1)), three)],
    ):
        for f in X.row_forms(cols):
            out.append(("multi-column", "evt", f))
    out += sign_cases(thorough) + wide_cases(thorough) + not_cases() + text_cases(thorough) + condx_cases(thorough)
    return out


def text_cases(thorough: bool = True) -> List[Tuple[str, str, Dict[str, Any]]]:
    """TEXT: a sign directly next to a sign.  A unary `-` / `+` / `not` over every shape of operand text (a positive and
    a negative integer constant, float constants also in exponent notation, an accessor, a count, a bracketed compound,
    a cast quotient, a power, another unary) placed where the character before or after it is an operator character:
    as right and left operand of binary `-` `+` `*` `/`, of comparisons, as argument of `**`, under another unary.
    What is emitted has to be read by a C++ compiler (maximal-munch tokens: `--`, `++`, `->`, `<=`, `1e-05`; C++
    precedence) as the tree Python evaluates."""
    out = []
    for level in ("jet", "evt") if thorough else ("jet",):
        d, i, i2, d2 = X.leaf(level, "d"), X.leaf(level, "i"), X.leaf(level, "i2"), X.leaf(level, "d2")
        xs = [
            X.int_lit(5), X.flt_lit(2.5), X.flt_lit(1e-05), d, X.binop("Sub", d, i2), X.neg_lit(3),
            X.binop("Div", i, X.int_lit(2)), X.unop("USub", d2),
        ]
        if thorough:
            xs += [i, X.binop("Mult", d2, X.int_lit(3)), X.binop("Pow", d, X.int_lit(2)), X.unop("UAdd", X.flt_lit(0.5)), X.int_lit(2**31)]
        if level == "evt":
            xs += [X.count_leaf("J1"), X.binop("Sub", X.count_leaf("J1"), X.int_lit(5)), X.sum_leaf("d")]
        ls = [d, X.int_lit(3)] if thorough and level == "jet" else [d]
        for x in xs:
            for uop in ("USub", "UAdd"):
                u = X.unop(uop, x)
                for l in ls:
                    for bop in ("Sub", "Add", "Mult", "Div"):
                        out.append(("text", level, X.form_plain(X.binop(bop, l, u))))
                    for bop in ("Sub", "Add") + (("Mult", "Div") if thorough else ()):
                        out.append(("text", level, X.form_plain(X.binop(bop, u, l))))
                    for cop in ("Lt", "GtE", "Eq") if thorough else ("Lt",):
                        out.append(("text", level, X.form_plain(X.cmpop(cop, l, u))))
                        out.append(("text", level, X.form_plain(X.cmpop(cop, u, l))))
                out.append(("text", level, X.form_plain(X.unop("USub", u))))
                out.append(("text", level, X.form_plain(X.unop("UAdd", u))))
                out.append(("text", level, X.form_plain(X.binop("Sub", X.unop("USub", u), u))))
                if X.py_kind(x) == "float" or thorough:
                    out.append(("text", level, X.form_plain(X.binop("Pow", u, X.int_lit(2)))))
                out.append(("text", level, X.form_cond(X.cmpop("Gt", d, X.int_lit(1)), X.binop("Sub", d, u), X.flt_lit(0.5))))
            n = X.unop("Not", X.cmpop("Lt", x, X.int_lit(1)))
            out.append(("text", level, X.form_plain(X.unop("Not", n))))
            out.append(("text", level, X.form_plain(X.cmpop("Eq", n, X.cmpop("Gt", d, X.int_lit(1))))))
            out.append(("text", level, X.form_cond(n, X.binop("Sub", d, X.unop("USub", x)), X.flt_lit(2.5))))
    acc = X.acc_leaf()
    for x in (X.flt_lit(2.5), X.leaf("jet", "d"), X.binop("Sub", X.leaf("jet", "d"), X.leaf("jet", "i2"))):
        out.append(("text", "jet", X.form_agg(X.flt_lit(0.5), {"plain": X.binop("Sub", acc, X.unop("USub", x))})))
    return [c for c in out if pow_safe(c[2]) and f32_safe(c[2]) and X.wide_safe(c[2])]


def condx_cases(thorough: bool = True) -> List[Tuple[str, str, Dict[str, Any]]]:
    """a conditional used INSIDE arithmetic (`(a if t else b) * 2`): the conditional's statements come first, the
    arithmetic reads its result variable"""
    out = []
    for level in ("jet", "evt"):
        d, i, d2 = X.leaf(level, "d"), X.leaf(level, "i"), X.leaf(level, "d2")
        t = X.cmpop("Gt", d, X.int_lit(1))
        for a, b in ((d2, X.flt_lit(0.5)), (X.binop("Div", i, X.int_lit(2)), d2), (X.unop("USub", d2), X.unop("USub", X.flt_lit(1.0))), (i, d2)):
            for body_of in (
                lambda R: X.binop("Mult", R, X.int_lit(2)),
                lambda R: X.binop("Sub", d, X.unop("USub", R)),
                lambda R: X.binop("Div", X.binop("Add", R, i), X.int_lit(2)),
                lambda R: X.cmpop("Lt", R, d),
                lambda R: X.unop("USub", R),
            )[: 5 if thorough else 3]:
                out.append(("conditional-in-arithmetic", level, X.form_condx(t, a, b, body_of)))
    return out


def stmt_cases(thorough: bool = True) -> List[Tuple[str, str, Dict[str, Any]]]:
    """conditionals whose ARMS need statements of their own (First(): a loop, a flag, a throw; Sum(): a loop), used
    inside arithmetic, at event level.  Bank "J" is never empty on the samples, so Python is defined on every one.
    These are judged on the values of the g++-compiled job only (both tiers): what an arm's statements do to the
    if/else around them is not visible in any single emitted expression."""
    out = []
    cj, ed, ei = X.count_leaf("J"), X.leaf("evt", "d"), X.leaf("evt", "i")
    m1 = X.unop("USub", X.flt_lit(1.0))
    tests = [X.cmpop("Gt", cj, X.int_lit(0)), X.cmpop("Gt", ei, X.int_lit(1)), X.cmpop("Lt", cj, X.int_lit(2))]
    arms = [
        (X.first_leaf("d"), m1), (m1, X.first_leaf("d")), (X.first_leaf("d", True), X.flt_lit(0.5)), (X.first_leaf("d"), X.sum_leaf("d")),
        (X.sum_leaf("d"), X.first_leaf("f")), (X.binop("Mult", X.first_leaf("d"), X.int_lit(2)), ed), (X.sum_leaf("d"), m1),
    ]
    bodies = [lambda R: X.binop("Mult", R, X.int_lit(2)), lambda R: X.binop("Sub", ed, X.unop("USub", R)), lambda R: R]
    for k, (a, b) in enumerate(arms):
        for j, t in enumerate(tests):
            if not thorough and (k + j) % 2:
                continue
            out.append(("statement-arm", "evt", X.form_condx(t, a, b, bodies[(k + j) % 3])))
    return out


def not_cases() -> List[Tuple[str, str, Dict[str, Any]]]:
    """`not` on an operand of every kind (a truth value whatever the operand: a bool column), followed by each consumer:
    `/` and the other arithmetic operators (a boolean operand: refused or correct, never a bool/int integer division),
    `**`, comparisons, a real partner, a conditional's test and arms, a fold"""
    out = []
    for level in ("jet", "evt"):
        d, i = X.leaf(level, "d"), X.leaf(level, "i")
        kinds = X.KINDS if level == "jet" else ["intCount", "double"]
        for k in kinds:
            for v in ((0, 2) if level == "jet" and k in ("double", "bool") else (0,)):
                n = X.unop("Not", X.operand(k, level, False, variant=v))
                for op in ("Div", "Add", "Mult", "Mod", "Pow"):
                    out.append(("not-then", level, X.form_plain(X.binop(op, n, X.int_lit(2)))))
                    out.append(("not-then", level, X.form_plain(X.binop(op, d if op != "Mod" else i, n))))
                out.append(("not-then", level, X.form_plain(X.binop("Div", X.binop("Div", n, X.int_lit(2)), d))))
                out.append(("not-then", level, X.form_plain(X.unop("Not", n))))
                out.append(("not-then", level, X.form_plain(X.unop("USub", n))))
                out.append(("not-then", level, X.form_plain(X.cmpop("Lt", n, i))))
                out.append(("not-then", level, X.form_plain(X.cmpop("Eq", d, n))))
                out.append(("not-then", level, X.form_cond(n, d, X.flt_lit(2.5))))
                out.append(("not-then", level, X.form_cond(n, X.binop("Div", i, X.int_lit(2)), X.flt_lit(0.5))))
                out.append(("not-then", level, X.form_cond(X.cmpop("Gt", d, X.int_lit(1)), n, X.flt_lit(0.5))))
    acc = X.acc_leaf()
    for k in ("i", "f", "d"):
        n = X.unop("Not", X.leaf("jet", k))
        out.append(("not-then", "jet", X.form_agg(X.int_lit(0), {"plain": X.binop("Add", acc, n)})))
        out.append(("not-then", "jet", X.form_agg(X.flt_lit(0.5), {"plain": X.binop("Add", acc, X.binop("Div", n, X.int_lit(2)))})))
        out.append(("not-then", "jet", X.form_agg(X.int_lit(0), {"cond": [n, acc, X.binop("Add", acc, X.leaf("jet", "d"))]})))
    return out


def sign_cases(thorough: bool = True) -> List[Tuple[str, str, Dict[str, Any]]]:
    """SIGN: every spelling of an integer operand x every way of going below zero x every consumer that can tell a
    signed integer from something else (see c13_lib/exprs.py); the quick tier leaves out the second operand of a
    spelling that is already there (Count() of the second bank, the second integer accessor of a jet)"""
    out, seen = [], set()
    for level in ("evt", "jet"):
        xs = X.int_operands(level)
        for k, x in enumerate(xs):
            y = xs[(k + 1) % len(xs)]
            if not thorough and x in (X.count_leaf("J2"), X.leaf("jet", "i2")):
                continue
            for inner in X.negative_inners(x, y):
                for f in X.sign_consumers(inner, x, level):
                    q = X.form_src(f, level)
                    if q not in seen:
                        seen.add(q)
                        out.append(("signed-intermediate", level, f))
    return out


def wide_cases(thorough: bool = True) -> List[Tuple[str, str, Dict[str, Any]]]:
    """WIDTH OF A LITERAL: integer literals around and beyond 2^31 (and their negations) next to every spelling of an
    integer operand, in the positions where the stored value is real, a truth value or a remainder"""
    out = []
    pos = X.WIDE_LITS if thorough else [2**31 - 1, 2**31, 10**10]
    neg = [2**31 + 1, 2**32] if thorough else [2**31 + 1]
    evt_xs = [X.count_leaf("J1"), X.sum_leaf("i"), X.leaf("evt", "i")] if thorough else [X.count_leaf("J1"), X.leaf("evt", "i")]
    for level, xs in (("evt", evt_xs), ("jet", [X.leaf("jet", "i")])):
        for x in xs:
            for n in pos:
                # (a literal that is still an `int` in C++ stays out of integer sums: wide_safe)
                for f in [f for f in X.wide_forms(x, X.int_lit(n), level) if X.wide_safe(f)] + X.wide_mod_forms(x, n):
                    out.append(("wide-literal", level, f))
            for n in neg:
                for f in [f for f in X.wide_forms(x, X.neg_lit(n), level) if X.wide_safe(f)]:
                    out.append(("wide-literal", level, f))
    acc = X.acc_leaf()
    for n in pos:
        out.append(("wide-literal", "jet", X.form_agg(X.flt_lit(0.5), {"plain": X.binop("Add", acc, X.binop("Div", X.leaf("jet", "i"), X.int_lit(n)))})))
        out.append(("wide-literal", "jet", X.form_agg(X.int_lit(0), {"plain": X.binop("Add", acc, X.binop("Div", X.int_lit(n), X.leaf("jet", "i2")))})))
    return out


def family_random_cases(rng, n: int) -> List[Tuple[str, str, Dict[str, Any]]]:
    """random trees a third of whose terms come from the SIGN family (negative literals, integer expressions that go
    below zero) resp. the WIDTH family (literals beyond 32 bits), inside the sample-safe region"""
    out: List[Tuple[str, str, Dict[str, Any]]] = []
    tries = 0
    while len(out) < 2 * n and tries < 40 * n:
        tries += 1
        fam, atoms = (("random-signed", X.sign_atoms), ("random-wide", X.wide_atoms))[len(out) % 2]
        level = "evt" if rng.random() < 0.6 else "jet"
        d = rng.choice([1, 2, 2])
        if rng.random() < 0.75:
            f = X.form_plain(X.random_expr(rng, level, d, atoms=atoms))
        else:
            t = X.cmpop(rng.choice(list(X.CMP_OPS)), X.random_expr(rng, level, 1, atoms=atoms), X.random_expr(rng, level, 1, atoms=atoms))
            f = X.form_cond(t, X.random_expr(rng, level, d - 1, atoms=atoms), X.random_expr(rng, level, d - 1, atoms=atoms))
        if pow_safe(f) and f32_safe(f) and X.wide_safe(f) and (fam != "random-wide" or X.has_wide(f)):
            out.append((fam, level, f))
    return out


def random_cases(rng, n: int) -> List[Tuple[str, str, Dict[str, Any]]]:
    out = []
    for _ in range(n):
        level = "jet" if rng.random() < 0.75 else "evt"
        d = rng.choice([2, 2, 3])
        c = rng.random()
        if c < 0.08:
            for f in X.row_forms([X.random_expr(rng, "evt", 1) for _ in range(rng.choice([2, 3]))]):
                out.append(("random-row", "evt", f))
        elif c < 0.7:
            out.append(("random", level, X.form_plain(X.random_expr(rng, level, d))))
        elif c < 0.9:
            t = X.cmpop(rng.choice(list(X.CMP_OPS)), X.random_expr(rng, level, 1), X.random_expr(rng, level, 1))
            out.append(("random-cond", level, X.form_cond(t, X.random_expr(rng, level, d - 1), X.random_expr(rng, level, d - 1))))
        elif c > 0.96:
            seed = rng.choice([X.int_lit(0), X.int_lit(2), X.flt_lit(0.5)])
            accl = X.acc_leaf()
            pool = lambda: rng.choice([accl, accl, X.int_lit(rng.randrange(4)), X.leaf("jet", rng.choice(["i", "d", "f", "i2", "d2"]))])
            t = X.cmpop(rng.choice(list(X.CMP_OPS)), pool(), pool())
            a, b, term = pool(), pool(), X.random_expr(rng, "jet", 1)
            op1, op2 = rng.choice(["Add", "Sub", "Mult"]), rng.choice(["Add", "Sub"])
            shape = rng.randrange(3)
            body_of = [lambda R: X.binop(op1, R, term), lambda R: X.binop(op2, X.binop(op1, accl, R), term), lambda R: X.binop(op1, term, R)][shape]
            out.append(("random-agg-conditional", "jet", X.form_agg_cond_in(seed, t, a, b, body_of)))
        else:
            seed = rng.choice([X.int_lit(0), X.int_lit(2), X.flt_lit(0.5)])
            body = X.random_expr(rng, "jet", 1)
            upd = X.binop(rng.choice(["Add", "Sub", "Mult"]), X.acc_leaf(), body)
            out.append(("random-agg", "jet", X.form_agg(seed, {"plain": upd})))
    return out


def safe_random_cases(rng, n: int) -> List[Tuple[str, str, Dict[str, Any]]]:
    """random cases inside the sample-safe region; the columns of a row are kept or dropped together"""
    out: List[Tuple[str, str, Dict[str, Any]]] = []
    groups: Dict[str, List] = {}
    order: List[str] = []
    for c in random_cases(rng, n * 2):
        g = c[2].get("_rowquery", "single:%d" % len(order))
        if g not in groups:
            groups[g] = []
            order.append(g)
        groups[g].append(c)
    for g in order:
        if len(out) >= n:
            break
        if all(pow_safe(c[2]) and f32_safe(c[2]) for c in groups[g]):
            out += groups[g]
    return out


def pow_safe(form) -> bool:
    """`**` only with an exponent that is a small integer - a literal, the i2 / f2 / d2 accessor of the power rows, or
    the NEGATION of an integer literal / of i2 (negative integer exponents: a fraction) - keeps Python inside the reals;
    everything else about `**` is C12's libm."""

    def good_exp(r, neg_ok=True) -> bool:
        if "int" in r:
            return 0 <= r["int"] <= 7
        if "flt" in r:
            return r["_val"] in (2.0, 3.0, 1.0)
        if "leaf" in r:
            return r["leaf"][1].endswith(("->i2()", "->f2()", "->d2()"))
        if "un" in r and r["un"][0] == "USub" and neg_ok:
            x = r["un"][1]
            return ("int" in x and 0 <= x["int"] <= 3) or ("leaf" in x and x["leaf"][1].endswith("->i2()"))
        return False

    def ok(e) -> bool:
        if isinstance(e, dict):
            if "bin" in e and e["bin"][0] == "Pow" and not good_exp(e["bin"][2]):
                return False
            return all(ok(v) for k, v in e.items() if not k.startswith("_"))
        if isinstance(e, list):
            return all(ok(v) for v in e)
        return True

    return ok(form)


def f32_safe(form) -> bool:
    """Random trees use binary32 operands only where every intermediate result is exact in binary32 (no / and no **
    anywhere, at most four leaves): C++ computes float op float in binary32, Python in binary64 - `j.f()/7` differs in
    the low bits, which the abstract reals of the model deliberately do not distinguish (see ASSUMPTIONS).  The table
    cells exercise / and ** on binary32 operands with divisors that are powers of two and small integer exponents."""
    if not X.has_float32(form):
        return True
    ops = set(X.ops_of(form))
    d = max(X.depth(form.get(k)) for k in ("e", "t", "a", "b", "seed") if k in form) if form["form"] != "agg" else 2
    return d <= 2 and not (ops & {"Div", "Pow"})


# ------------------------------------------------------------------------------------------------------------ samples
def samples_for(form, level) -> Tuple[List[Any], List[Any]]:
    """-> (driver samples, python-side description of each sample)"""
    rows = X.rows_for(form)
    if form["form"] == "agg":
        lists = [[], [rows[0]], list(rows), list(reversed(rows))[:3], [rows[1], rows[1]]]
        base = X.env_from_row(rows[0], "jet")
        return [[base] + [X.env_from_row(r, "jet") for r in l] for l in lists], [("agg", l) for l in lists]
    if level == "jet":
        return [X.env_from_row(r, "jet") for r in rows], [("jet", r) for r in rows]
    cs = X.COUNTS[: len(rows)]
    js = [X.jrows_for(rows, k) for k in range(len(rows))]
    return [X.env_from_row(r, "evt", c, j) for r, c, j in zip(rows, cs, js)], [("evt", r, c, j) for r, c, j in zip(rows, cs, js)]


def cpython_value(form, level, desc):
    q = X.form_src(form, level)  # a column of a row alone: Python's value does not depend on the other columns
    if desc[0] == "agg":
        return pyref.evaluate(q, pyref.Event({"J": desc[1]}))
    if desc[0] == "jet":
        r = pyref.evaluate(q, pyref.Event({"J": [desc[1]]}))
        return r[0] if isinstance(r, list) else r
    dummy = X.ROWS_GENERAL[0]
    return pyref.evaluate(q, pyref.Event({"J1": [dummy] * desc[2][0], "J2": [dummy] * desc[2][1], "J": list(desc[3])}, ei=desc[1]))


# ------------------------------------------------------------------------------------------------------------ one batch
def clean(form):
    return X.strip(form)


def evaluate_cases(ctx, cases, judge_excluded: bool = False, observed: Optional[Dict[int, List[Any]]] = None):
    """Run real code, model and Spec for a list of (stream, level, form). Returns a list of result dicts."""
    impls = []
    rowcache: Dict[str, List[Dict[str, Any]]] = {}
    for stream, level, form in cases:
        if "_rowquery" in form:
            q = form["_rowquery"]
            if q not in rowcache:
                rowcache[q] = real.run_row(form["_rowforms"], level, q)
            impls.append(rowcache[q][form["_col"]])
        else:
            impls.append(real.run(form, level))
    ctx.check_time()
    reqs = []
    metas = []
    for idx, ((stream, level, form), r) in enumerate(zip(cases, impls)):
        sm, desc = samples_for(form, level)
        reqs.append({"op": "emit", **clean(form)})
        if "frontend" in r:
            reqs.append({"op": "facts", **clean(form)})
        elif "err" in r:
            reqs.append({"op": "spec", **clean(form), "impl": {"err": r["err"]}})
        elif "unreadable" in r:
            reqs.append({"op": "facts", **clean(form)})
        else:
            q = {"op": "spec", **clean(form), "impl": r["spec"], "leaves": impl_leaves(form, r), "samples": sm}
            if observed is not None and idx in observed:
                q["observed"] = observed[idx]
            reqs.append(q)
        metas.append((sm, desc))
    ans = ctx.driver(DRIVER, reqs)
    # one refused column refuses the whole row: the refusal is tolerated when ANY column is outside what must be accepted
    row_ok: Dict[str, bool] = {}
    for i, (stream, level, form) in enumerate(cases):
        if "_rowquery" in form and isinstance(ans[2 * i + 1], dict):
            row_ok[form["_rowquery"]] = row_ok.get(form["_rowquery"], True) and bool(ans[2 * i + 1].get("mustAccept", True))
    row_err: Dict[str, Any] = {}
    for i, (stream, level, form) in enumerate(cases):
        if "_rowquery" in form and isinstance(ans[2 * i], dict) and "err" in ans[2 * i]:
            row_err.setdefault(form["_rowquery"], ans[2 * i])
    for i, (stream, level, form) in enumerate(cases):
        if "_rowquery" in form and "err" in impls[i] and not row_ok.get(form["_rowquery"], True) and isinstance(ans[2 * i + 1], dict):
            ans[2 * i + 1]["holds"] = True
        if "_rowquery" in form and form["_rowquery"] in row_err:
            ans[2 * i] = row_err[form["_rowquery"]]  # the model refuses the whole query too
    out = []
    for i, ((stream, level, form), r, (sm, desc)) in enumerate(zip(cases, impls, metas)):
        out.append({"stream": stream, "level": level, "form": form, "impl": r, "model": ans[2 * i], "spec": ans[2 * i + 1], "samples": sm, "desc": desc})
    return out


def impl_leaves(form, r):
    """operand table for the Lean parser of the implementation's text: the variables the implementation declares
    (conditional result, accumulator, aggregate operands) carry the type IT declared them with"""
    leaves = [l for l in X.leaves_of(form) if l[0] != "R"] + [["R", r["spec"].get("resTy", "double"), X.IF_SLOT]]
    if form["form"] == "agg":
        leaves = [l for l in leaves if l[0] != "A"] + [["A", r["spec"]["accTy"], X.ACC_SLOT]]
    lt = r.get("leaf_types", {})
    return [[t, lt.get(t, ty), slot] for t, ty, slot in leaves]


def spec_request(res, observed):
    """the driver's `spec` op on the values the compiled job printed"""
    form, r = res["form"], res["impl"]
    return {"op": "spec", **clean(form), "impl": r["spec"], "leaves": impl_leaves(form, r), "samples": res["samples"], "observed": observed}


def judge_spec(ctx, res, s, observed):
    """Spec on the observed values of the compiled job (thorough tier)"""
    form, level, r = res["form"], res["level"], res["impl"]
    if s.get("holds") is False and not s.get("excluded"):
        key = X.form_key(form, level)
        if key not in {e["key"] for e in ctx.known_entries("known")}:
            ctx.violation(
                key=key,
                what="compiled job: " + s["why"],
                case={"level": level, "form": form, "query": X.query_src(form, level)},
                observed={"column_type": r["ty"], "emitted": r.get("leaf_decls", []) + r["lines"] + [r["fill"]], "g++ values": observed, "rows": s.get("rows")},
                how=HOW,
            )


def canon_refusal(c):
    return {"err": "refused"} if "err" in c else c


def strip_assign_cast(lines: List[str], types: Dict[str, str]) -> List[str]:
    """`x = static_cast<T>(v);` and `x = v;` mean the same when x is declared T (theorem set_var_cast): the property
    does not distinguish them, so the correspondence does not either."""
    out = []
    for l in lines:
        m = real.ASSIGN.match(l)
        if m and m.group(1) in types:
            pre = f"static_cast<{types[m.group(1)]}>("
            rhs = m.group(2)
            if rhs.startswith(pre) and rhs.endswith(")") and _balanced(rhs[len(pre):-1]):
                l = f"{m.group(1)} = {rhs[len(pre):-1]};"
        out.append(l)
    return out


def _balanced(s: str) -> bool:
    d = 0
    for c in s:
        if c == "(":
            d += 1
        elif c == ")":
            d -= 1
            if d < 0:
                return False
    return d == 0


def canon_lines(c):
    if "lines" not in c:
        return c
    types = {}
    for l in c["lines"]:
        m = real.SCALAR_DECL.match(l)
        if m:
            types[m.group(2)] = m.group(1)
    return {"ty": c["ty"], "lines": strip_assign_cast(c["lines"], types)}


def same_tree(ci, cm, m, s) -> bool:
    """The texts differ, but every emitted expression of the implementation, read the way a C++ compiler reads it
    (Text.lean readCpp: maximal-munch tokens, C++ precedence), is the tree the model built, and everything that is not
    an expression (declared types, the shape of the statements) is the same: the property does not tell them apart
    (theorems text_read, text_norm_meaning)."""
    if "lines" not in ci or "lines" not in cm or ci["ty"] != cm["ty"] or len(ci["lines"]) != len(cm["lines"]):
        return False
    if not isinstance(s, dict) or s.get("trees") is None or m.get("trees") is None:
        return False

    def uncast(t: str) -> str:
        # the right-hand side of an assignment to a variable declared T: `static_cast<T>(v)` and `v` store the same
        # (theorem set_var_cast) - as in strip_assign_cast for the texts
        for ty in ("double", ci["ty"]):
            pre = f"static_cast<{ty}>("
            if t.startswith(pre) and t.endswith(")") and _balanced(t[len(pre):-1]):
                return t[len(pre):-1]
        return t

    assigned = len(ci["lines"]) > 1  # a plain column has one line: its fill expression; everything else assigns
    ts, tm = ([uncast(t) for t in x] if assigned else list(x) for x in (s["trees"], m["trees"]))
    if ts != tm:
        return False

    def skeleton(lines):
        out = []
        for l in lines:
            d = real.SCALAR_DECL.match(l)
            a = real.ASSIGN.match(l)
            out.append(("decl", d.group(1), d.group(2), d.group(3) is not None) if d else ("assign", a.group(1)) if a else ("if",) if real.IFLINE.match(l) else ("else",) if l == "else" else ("expr",))
        return out

    return skeleton(ci["lines"]) == skeleton(cm["lines"])


def judge(ctx, res, known_stream: bool = False) -> Optional[Dict[str, Any]]:
    """Compare model and implementation, evaluate the Spec on the implementation. Returns a violation dict (not yet
    reported) when the Spec fails on the implementation's output."""
    form, level, r, m, s = res["form"], res["level"], res["impl"], res["model"], res["spec"]
    key = X.form_key(form, level)
    if "bad" in m or "bad" in s:
        if "bad" in s and s["bad"] != "driver failed":
            ctx.disagreement("driver", {"query": key}, s, None)
        return None
    if "frontend" in r:
        return None
    ci = canon_lines(canon_refusal(real.canon_impl(r)))
    cm = canon_lines(canon_refusal(real.canon_model(m, form)))
    if not known_stream:
        if ci != cm and not same_tree(ci, cm, m, s):
            ctx.disagreement("translate", {"level": level, "query": X.query_src(form, level), "form": form}, cm, ci)
        elif ci != cm:
            ctx.count("correspondence:different-text-same-tree")
        # the hypotheses (and, re-run, the conclusion) of theorem text_denotes on the model's own output of this case
        if "ok" in m and not (m.get("operandsUsable") and m.get("readsBack")):
            ctx.disagreement("text-theorem-hypotheses", {"level": level, "query": X.query_src(form, level)}, {k: m.get(k) for k in ("operandsUsable", "readsBack", "trees")}, None)
    if "unreadable" in r or "frontend" in r:
        return None
    excluded = bool(s.get("excluded"))
    viol = None
    if "err" in r:
        if s.get("holds") is False:
            viol = {"what": s["why"], "observed": {"exception": r["err"], "message": r.get("msg")}}
    else:
        if s.get("holds") is None and not excluded and not known_stream:
            ctx.disagreement("spec-uninterpretable", {"level": level, "query": X.query_src(form, level)}, None, s.get("why"))
        if s.get("holds") is False and (not excluded or known_stream):
            viol = {"what": s["why"], "observed": {"column_type": r["ty"], "emitted": r.get("leaf_decls", []) + r["lines"] + [r["fill"]], "rows": s.get("rows")}}
        # tie of evalPy to CPython, of evalC to the observed values
        # (Python's float % is only approximated by the driver's Num instance; it occurs in excluded cells only)
        if not known_stream and not (excluded and "Mod" in X.ops_of(form)):
            for k, (row, d) in enumerate(zip(s.get("rows", []), res["desc"])):
                cp = cpython_value(form, level, d)
                if (row["cpy"] or None) != cp and pow_safe(form):
                    ctx.disagreement("evalPy-vs-CPython", {"query": X.query_src(form, level), "sample": k}, row["cpy"], cp)
                    break
    if viol is not None:
        viol.update({"key": key, "case": {"level": level, "form": form, "query": X.query_src(form, level)}})
    return viol


HOW = (
    "build the query of `case.query` on a func_adl EventDataset carrying the add_method_type_info metadata of "
    "tools/c13_lib/real.py (i/f/d/b -> int/float/double/bool on xAOD::Jet and xAOD::EventInfo), run "
    "atlas_xaod_executor().apply_ast_transformations + write_cpp_files and read query.cxx / query.h; or "
    "`./check C13 --replay <this file>`"
)


def run(ctx):
    # 1. known findings / fixed entries first
    for status in ("known", "fixed"):
        for e in ctx.known_entries(status):
            form, level = e["input"]["form"], e["input"]["level"]
            res = evaluate_cases(ctx, [("known", level, form)])[0]
            v = judge(ctx, res, known_stream=True)
            ctx.count(f"findings-stream:{status}")
            if v is not None:
                key = e["key"] if status == "known" else "regressed:" + e["key"]
                ctx.violation(key=key, what=("regression of a repaired defect: " if status == "fixed" else "") + v["what"], case=v["case"], observed=v["observed"], how=HOW)
    # 2. corpus, table, random
    import vlib

    cases = [("corpus", c["level"], c["form"]) for c in vlib.corpus_cases(ID)]
    cases += table_cases(ctx.tier == "thorough")
    nrand = QUICK_RANDOM if ctx.tier == "quick" else THOROUGH_RANDOM
    cases += safe_random_cases(ctx.rng, nrand)
    cases += family_random_cases(ctx.rng, QUICK_FAMILY_RANDOM if ctx.tier == "quick" else THOROUGH_FAMILY_RANDOM)
    results = [r for r in evaluate_cases(ctx, cases) if not (("frontend" in r["impl"]) and not ctx.count("skipped:func_adl-front-end-refusal"))]
    known_keys = {e["key"] for e in ctx.known_entries("known")}
    accepted = []
    for idx, res in enumerate(results):
        form, level, r, s = res["form"], res["level"], res["impl"], res["spec"]
        key = X.form_key(form, level)
        ctx.count("stream:" + res["stream"])
        ctx.count("level:" + level)
        ctx.count("form:" + form["form"])
        ctx.count("impl:" + ("refused:" + r["err"] if "err" in r else "unreadable" if "unreadable" in r else "accepted"))
        ctx.count("depth:%d" % max([X.depth(form.get(k)) for k in ("e", "t", "a", "b") if k in form] + [0]))
        excluded = bool(s.get("excluded")) if isinstance(s, dict) else False
        ctx.count("spec:" + ("excluded(correspondence only)" if excluded else "judged"))
        for op in set(X.ops_of(form)):
            ctx.count("op:" + op)
        nontrivial = "err" not in r and bool(X.ops_of(form))
        ctx.case(key, nontrivial, {"query": X.query_src(form, level), "implementation": real.canon_impl(r), "spec": {k: s.get(k) for k in ("holds", "why", "excluded")} if isinstance(s, dict) else s})
        v = judge(ctx, res)
        if v is not None and v["key"] not in known_keys:
            ctx.violation(key=v["key"], what=v["what"], case=v["case"], observed=v["observed"], how=HOW)
        if "err" not in r and "unreadable" not in r and not excluded:
            accepted.append(idx)
    ctx.extra_cov["exhaustive"] = False
    ctx.extra_cov["exhaustive_part"] = (
        "operator x operand-kind table at depth one: 6 binary operators and 6 comparisons x 5x5 kinds x 2 operand spellings at jet "
        "level + every pair containing Count() at event level; 4 unary operators x 5 kinds; conditionals over 5x5 arm kinds; "
        "Count/Sum/Max/Min x 4 value kinds"
    )
    ctx.extra_cov["excluded_input_space"] = (
        "defect exclusions (exercised only through known_findings.jsonl; correspondence still checked): % with a real "
        "operand; unary minus on a bool; conditionals (and Max/Min) whose arms are all integer-valued"
    )
    # 3. conditionals whose arms need statements: judged on the compiled job in both tiers
    for v in stmt_family(ctx, stmt_cases(ctx.tier == "thorough")):
        if v["key"] not in known_keys:
            ctx.violation(key=v["key"], what=v["what"], case=v["case"], observed=v["observed"], how=HOW)
    # 4. thorough: the compiled job
    if ctx.tier == "thorough":
        from c13_lib import cxx

        cxx.run_compiled(ctx, results, accepted, spec_request, judge_spec, HOW, known_keys)


# ------------------------------------------------------------------------------------------------------------ statement arms
def stmt_family(ctx, cases) -> List[Dict[str, Any]]:
    """The statement-arm family: every case is translated by the real code, the WHOLE `execute()` body it wrote is
    compiled by g++ against the mock event data model (one translation unit, one compilation) and run on the samples;
    the Spec (Lean driver) is evaluated on the values the compiled job stored, CPython's value is compared with evalPy.
    -> the violations found (not yet reported)."""
    import shutil
    import tempfile
    from pathlib import Path

    from c13_lib import cxx

    viols: List[Dict[str, Any]] = []
    todo = []
    for stream, level, form in cases:
        q = X.form_src(form, level)
        key = X.form_key(form, level)
        case = {"level": level, "form": form, "query": q}
        gen = real.translate_query(q)
        ctx.count("stream:" + stream)
        if "frontend" in gen:
            ctx.count("skipped:func_adl-front-end-refusal")
            continue
        sm, desc = samples_for(form, level)
        if "err" in gen:
            ctx.count("impl:refused:" + gen["err"])
            ans = ctx.driver(DRIVER, [{"op": "spec", **clean(form), "impl": {"err": gen["err"]}}])[0]
            ctx.case(key, False, {"query": q, "implementation": {"err": gen["err"]}})
            if ans.get("holds") is False:
                viols.append({"key": key, "what": ans["why"], "case": case, "observed": {"exception": gen["err"], "message": gen.get("msg")}})
            continue
        cols = [m for m in (real.COL_DECL.match(l.strip()) for l in gen["h"].split("\n")) if m]
        body = real.execute_body(gen["cxx"])
        if len(cols) != 1:
            ctx.disagreement("statement-arm-unreadable", case, None, f"{len(cols)} column declarations")
            continue
        m = cols[0]
        impl = {"ty": m.group(2) or m.group(1), "body": body, "col_decl": m.group(0), "col_name": m.group(3), "lines": body, "fill": ""}
        ctx.count("impl:accepted")
        cps = [cpython_value(form, level, d) for d in desc]
        valid = [k for k, v in enumerate(cps) if v is not None]
        ctx.case(key, True, {"query": q, "implementation": {"ty": impl["ty"], "execute": body}})
        todo.append((len(todo), {"form": form, "level": level, "impl": impl, "samples": sm, "desc": desc, "cpy": cps, "key": key, "case": case}, valid))
    if not todo:
        return viols
    ctx.check_time()
    workdir = Path(tempfile.mkdtemp(prefix="c13stmt_"))
    try:
        o = cxx.build_and_run(workdir, "stmt", todo)
        if "compile_error" in o and o["bad"]:
            # cases that do not compile are violations; the others are compiled again without them
            badidx = {i for i, _ in o["bad"]}
            for i, msg in o["bad"]:
                res = todo[i][1]
                if not any(v["key"] == res["key"] for v in viols):
                    viols.append({"key": res["key"], "what": f"the generated code does not compile: {msg}", "case": res["case"], "observed": {"column_type": res["impl"]["ty"], "emitted": res["impl"]["body"], "g++": msg}})
            todo = [t for t in todo if t[0] not in badidx]
            o = cxx.build_and_run(workdir, "stmt2", todo) if todo else {"rc": 0, "out": ""}
        if "compile_error" in o:
            raise RuntimeError("g++ failed on the mock harness itself:\n" + o["compile_error"])
    finally:
        shutil.rmtree(workdir, ignore_errors=True)
    rows = cxx.parse_rows(o["out"])
    reqs, metas = [], []
    for idx, res, valid in todo:
        observed: List[Any] = [None] * len(res["samples"])
        missing = False
        for k in valid:
            vals = rows.get((idx, k))
            if vals is None or len(vals) != 1:
                missing = True
            else:
                observed[k] = vals[0]
        if missing:
            viols.append({"key": res["key"], "what": f"the compiled job stopped (exit status {o['rc']}) or filled no row for an event on which Python computes a value", "case": res["case"], "observed": {"column_type": res["impl"]["ty"], "emitted": res["impl"]["body"], "g++ rows": {str(k): rows.get((idx, k)) for k in valid}}})
            continue
        form = res["form"]
        leaves = [l for l in X.leaves_of(form) if l[0] != "R"] + [["R", "double", X.IF_SLOT]]
        reqs.append({"op": "spec", **clean(form), "impl": {"ty": res["impl"]["ty"]}, "leaves": leaves, "samples": res["samples"], "observed": observed})
        metas.append((res, observed))
    for (res, observed), a in zip(metas, ctx.driver(DRIVER, reqs) if reqs else []):
        ctx.count("g++:statement-arm-cases-compiled-and-run")
        if "bad" in a:
            ctx.disagreement("driver", {"query": res["key"]}, a, None)
            continue
        for k, (row, cp) in enumerate(zip(a.get("rows", []), res["cpy"])):
            if (row["cpy"] or None) != cp:
                ctx.disagreement("evalPy-vs-CPython", {"query": res["case"]["query"], "sample": k}, row["cpy"], cp)
                break
        if a.get("holds") is False and not a.get("excluded"):
            viols.append({"key": res["key"], "what": "compiled job: " + a["why"], "case": res["case"], "observed": {"column_type": res["impl"]["ty"], "emitted": res["impl"]["body"], "g++ values": observed, "rows": a.get("rows")}})
    return viols


# ------------------------------------------------------------------------------------------------------------ search
def sub_forms(form) -> List[Dict[str, Any]]:
    """structurally smaller forms (for shrinking)"""
    out = []

    def kids(e):
        for k in ("bin", "cmp"):
            if k in e:
                return [e[k][1], e[k][2]]
        if "un" in e:
            return [e["un"][1]]
        return []

    def shrink_expr(e):
        res = list(kids(e))
        for k in ("bin", "cmp"):
            if k in e:
                op, l, r = e[k]
                res += [{k: [op, l2, r]} for l2 in shrink_expr(l)] + [{k: [op, l, r2]} for r2 in shrink_expr(r)]
        if "un" in e:
            res += [{"un": [e["un"][0], x]} for x in shrink_expr(e["un"][1])]
        return res

    if form["form"] == "plain":
        out = [X.form_plain(x) for x in shrink_expr(form["e"])]
    elif form["form"] == "condx":
        out = [X.form_cond(form["t"], form["a"], form["b"])]
    elif form["form"] == "cond":
        out = [X.form_plain(form["a"]), X.form_plain(form["b"]), X.form_plain(form["t"])]
        out += [X.form_cond(form["t"], a2, form["b"]) for a2 in shrink_expr(form["a"])]
        out += [X.form_cond(form["t"], form["a"], b2) for b2 in shrink_expr(form["b"])]
    return out


def search(ctx, broken):
    """Something no longer checks: sweep the table and a larger random sample with the Spec (evaluated on the
    implementation) as the only judge; shrink the first hit."""
    cases = table_cases() + safe_random_cases(ctx.rng, 600) + family_random_cases(ctx.rng, 150)
    known_keys = {e["key"] for e in ctx.known_entries("known")}
    saved = (ctx.broken[:], dict(ctx.dist))
    best = None
    for res in evaluate_cases(ctx, cases):
        v = judge(ctx, res)
        if v is not None and v["key"] not in known_keys:
            size = len(json.dumps(X.strip(res["form"])))
            if best is None or size < best[0]:
                best = (size, v, res)
    ctx.broken[:] = saved[0]
    if best is None:
        for v in stmt_family(ctx, stmt_cases(True)):
            if v["key"] not in known_keys:
                ctx.broken[:] = saved[0]
                return {"key": v["key"], "what": v["what"], "case": v["case"], "observed": v["observed"], "replay_how": HOW}
        ctx.broken[:] = saved[0]
        return None
    _, v, res = best
    level = res["level"]
    changed = True
    while changed:
        changed = False
        cands = [("shrink", level, f) for f in sub_forms(v["case"]["form"])]
        if not cands:
            break
        for r2 in evaluate_cases(ctx, cands):
            v2 = judge(ctx, r2)
            if v2 is not None and v2["key"] not in known_keys:
                v, changed = v2, True
                break
        ctx.broken[:] = saved[0]
    return {"key": v["key"], "what": v["what"], "case": v["case"], "observed": v["observed"], "replay_how": HOW}


def replay(ctx, rep) -> int:
    case = rep["case"]
    if case["form"].get("form") == "condx" and X.has_first(case["form"]):
        vs = stmt_family(ctx, [("replay", case["level"], case["form"])])
        print("query:", case["query"])
        for v in vs:
            print("violation:", v["what"])
            print("observed:", json.dumps(v["observed"])[:3000])
        return 1 if vs else 0
    res = evaluate_cases(ctx, [("replay", case["level"], case["form"])])[0]
    print("query:", X.query_src(case["form"], case["level"]))
    print("implementation:", json.dumps(real.canon_impl(res["impl"])))
    print("model:", json.dumps(real.canon_model(res["model"], case["form"])))
    s = res["spec"]
    print("spec:", json.dumps({k: s.get(k) for k in ("holds", "why", "excluded", "mustAccept")}))
    return 1 if s.get("holds") is False else 0


LEVEL_TEXT = (
    "Machine-checked proof (Lean 4). Text level: for every expression tree (any depth) the translator accepts, the text it "
    "writes, tokenised with maximal munch and parsed with C++ operator precedence, is exactly the tree it built - no --/++/+- "
    "token accident at any join, no precedence capture (text_lex, text_parse, text_read, text_denotes; hypothesis only on the "
    "operand texts handed in, decidable and checked on every case; counterexamples show each pair of parentheses is needed). "
    "Value level, for an abstract double with no law assumed: for every expression tree (any depth) over "
    "the property's operators that the translator accepts, the emitted C++ expression evaluates under C++'s conversion rules "
    "to exactly Python's value and is declared int/bool exactly when Python's result is integer-valued, at least as wide as "
    "every operand otherwise (expr_correct_partial, column_correct_partial, int_stays_int, result_wide_enough); the "
    "operator x operand-kind table as its depth-one instance for every operator of the tables regenerated from the source "
    "(binop_table, unary, compare, pow_real, intdiv_real); most_accurate_type returns the widest for lists of any length; "
    "accumulator typing, Count/Sum/Max/Min folds over lists of any length, the conditional, the set_var cast rule, the exact "
    "refusals. Three defect classes are proved as counterexamples and excluded by decidable hypotheses. The model is tied to "
    "the code by text equality of the real translator's output on every table cell and on random trees each run; the Spec "
    "is evaluated on the implementation's own text, read by the same verified reader (quick; texts that differ from the "
    "model's are compared as trees), on the values of the g++-compiled job (thorough), and for conditionals whose arms need "
    "statements on the compiled execute() body in both tiers."
)
LEVEL_NOTE = (
    "Theorem: everything stated over the model (all depths, all values, all list lengths). Sampled: the model's agreement "
    "with the Python source (differential, every cell + random trees per run), evalC's agreement with g++ and evalPy's "
    "with CPython (every sample). Trusted: Lean kernel (axioms audited), the readers of the generated text, g++/libm, "
    "float32 precision not modelled, int overflow excluded; the C++ token and expression grammar of Text.lean (subset: "
    "no casts other than static_cast, no ?:, no assignment - such texts are 'not interpretable', never a verdict). Exclusions (known findings): % on reals, unary "
    "minus on bool, integer-valued conditionals / Max / Min declared double."
)
TECHNIQUE = "Lean 4 theorems over a hand model + generated operator/priority tables (translator) + differential correspondence against the real translator, CPython and g++"
DESIGN_REF = "DESIGN.md §4 C13"
