"""C05 — rows for an event depend on that event only.

Theorems (lean/FaxVerif/C05/Theorems.lean) hold for every package accepted by the verified
static check `EventLocal`; the check is evaluated on the implementation's own parsed output for
every generated query on all three backends (per-program theorem instance), and the property
itself is evaluated reference-free on the implementation's program: one job over the events vs.
each event alone, in two orders.
"""
from __future__ import annotations

import cgroup
from cgroup import Case

ID = "C05"
LEAN_MODULES = ["FaxVerif.C05.Theorems", "FaxVerif.C05.TheoremsFragment", "FaxVerif.C05.TheoremsNested", "FaxVerif.C05.TheoremsWf", "FaxVerif.C05.TheoremsLazy"]
LEAN_SOURCES = ["FaxVerif/C05", "FaxVerif/Cpp", "FaxVerif/Gen"]
DRIVER = cgroup.DRIVER
SETUP_MODULES = cgroup.DRIVER_IMPORTS + ["FaxVerif.Gen.Lazy"]  # what the drivers import
LAZY_DRIVER = "FaxVerif/Gen/LazyJobDriver.lean"
THEOREMS = [
    "FaxVerif.C05.compile_eventLocal",
    "FaxVerif.C05.fragment_job_is_per_event",
    "FaxVerif.C05.fragment_event_history_free",
    "FaxVerif.C05.fragment_fault_is_the_events",
    "FaxVerif.C05.inner_accumulator_restarts",
    "FaxVerif.C05.storage_vector_restarts",
    "FaxVerif.C05.nested_event_post_partial",
    "FaxVerif.C05.nested_init_pre",
    "FaxVerif.C05.nested_job_correct_partial",
    "FaxVerif.C05.nested_job_split",
    "FaxVerif.C05.nested_prefix_independent",
    "FaxVerif.C05.nested_perm",
    "FaxVerif.C05.lazy_result_restarts",
    "FaxVerif.C05.lazy_event_post_partial",
    "FaxVerif.C05.lazy_init_pre",
    "FaxVerif.C05.lazy_event_history_free_partial",
    "FaxVerif.C05.lazy_job_correct_partial",
    "FaxVerif.C05.lazy_job_blocks_partial",
    "FaxVerif.C05.lazy_job_split",
    "FaxVerif.C05.lazy_prefix_independent",
    "FaxVerif.C05.lazy_perm",
    "FaxVerif.C05.fragment_job_correct_partial",
    "FaxVerif.C05.fragment_job_blocks_partial",
    "FaxVerif.C05.fragment_job_split",
    "FaxVerif.C05.fragment_prefix_independent",
    "FaxVerif.C05.fragment_perm",
    "FaxVerif.C05.fragment_event_post_partial",
    "FaxVerif.C05.fragment_init_pre",
    "FaxVerif.C05.job_is_per_event",
    "FaxVerif.C05.split",
    "FaxVerif.C05.prefix_independent",
    "FaxVerif.C05.perm",
    "FaxVerif.C05.perm_total",
    "FaxVerif.Cpp.exec_sound",
    "FaxVerif.Cpp.emp_sound",
    "FaxVerif.Cpp.runEvent_local",
]
RULE = (
    "type-directed random queries over a synthetic data model declared through the query's own metadata (two collections, "
    "int/float/double/bool methods, collection-returning methods), event-level and element-level rows, scalar / 1-D / 2-D "
    "columns, Count/Sum/Aggregate/First, and/or/if; in about a fifth of the queries a nested lambda re-uses the NAME of an enclosing lambda's parameter "
    "which the enclosing body goes on using afterwards (tools/qgen.py shadow_pass); 5 generated events each (sizes 0-4, empties over-weighted); all three "
    "backends. Non-trivial: >=2 distinct operators and >=1 event with a row; distinct = distinct (backend, query)."
)
TRUSTED_BASE = [
    "C++ semantics of the emitted statement subset (lean/FaxVerif/Cpp/Sem.lean): flat environment with (re)declaration on block entry, class variables persisting across events — modelled, not verified against a C++ compiler in the quick tier",
    "tools/cparse.py (text of the per-event body -> statement AST — compared on every program of every run with the Lean parser Cpp/Parse.lean, whose round trip with the printer is the theorem C02.parse_render (stream parse-tie: equal trees required)) and tools/qgen.py (package assembly)",
    "EDM accessors and user-supplied C++ are pure functions of their receiver (opaque user lines are rejected by the checker: such programs are counted as 'not covered', not as held)",
]
ASSUMPTIONS = ["a faulting event ends the job (exception / failed status under EventLoop and cmsRun)"]
LEVEL_TEXT = (
    "(1) For ALL queries of the fragment F0-lite of the translator model (Gen.compile, tied to the real translator by text on every "
    "run), all three backends, all number models and ALL event lists on which the query is defined: one job writes exactly the "
    "concatenation of the rows the query denotes event by event (fragment_job_correct_partial), hence splitting across jobs "
    "(fragment_job_split), independence of the prefix (fragment_prefix_independent: the rows of event k are those of running it "
    "alone from the initial class state) and permutation of the events (fragment_perm) — proved from the class-state invariant "
    "'vector columns empty, scalar columns declared' that every event re-establishes (fragment_event_post_partial, "
    "fragment_init_pre). The static checker of (2) is PROVED to accept every program of the fragment (compile_eventLocal), so its "
    "conclusions hold for all fragment programs and ALL event lists, faulting events included: the job is the concatenation of "
    "per-event runs from the initial class state (fragment_job_is_per_event), from any clean class state an event faults with the "
    "same fault or writes the same rows (fragment_event_history_free), and a fault of the job is the fault of that event alone "
    "(fragment_fault_is_the_events). The same for the NESTED fragment (loops inside lambdas: per-element inner aggregates, 2-D columns): the inner "
    "accumulator and the 2-D storage vector restart for every outer element (inner_accumulator_restarts, storage_vector_restarts) and a "
    "job is the concatenation of its events (nested_job_correct_partial, nested_job_split, nested_prefix_independent, nested_perm). "
    "The same for the LAZY fragment (Gen.compileL: element-level rows whose filters and columns use and / or / if-else, lowered to statements "
    "with result variables bool_opN / if_else_resultN assigned on some paths only): the value a lowered expression computes for an element is "
    "the same from any two states, whatever the result variables held before (lazy_result_restarts); an event writes the same rows from any two "
    "class states with the columns declared (lazy_event_history_free_partial, lazy_event_post_partial, lazy_init_pre); a job over any list of "
    "events is the concatenation of its events (lazy_job_correct_partial, lazy_job_blocks_partial, lazy_job_split, lazy_prefix_independent, lazy_perm). "
    "(2) Lean 4 theorems for every package accepted by the verified static checker EventLocal (definite assignment from an empty "
    "initial knowledge + vector columns cleared after every fill): one job = concatenation of per-event runs from the initial "
    "class state, for all event lists; split, prefix-independence and permutation corollaries. The checker is run on the "
    "implementation's own parsed output for every generated query on the three backends, so each accepted program is a theorem "
    "instance about the real output; the property is also evaluated reference-free on the executed model of that output."
)
LEVEL_NOTE = (
    "Proved: soundness of the checker w.r.t. the modelled C++ semantics (exec_sound, emp_sound, runEvent_local), no bound on "
    "events or program size; and, without the checker, event-locality of every program of the fragments F0-lite, nested and lazy (success "
    "direction: jobs containing an event on which the query faults are outside these fragment theorems; for F0-lite the checker route covers them, "
    "for the nested and the lazy fragment acceptance by the checker is sampled, not proved). Not proved: that the "
    "translator's output beyond the fragment is ALWAYS accepted by the checker (that is sampled: every generated query, three backends); the C++ semantics and the text parser are trusted. Programs containing opaque user C++ are outside "
    "the checker (counted separately)."
)
TECHNIQUE = "Lean 4 job-level compiler-correctness proof for the translator model (all fragment programs x all event lists) + Lean 4 soundness proof of a static event-locality checker run on the implementation's output; differential execution of the modelled program (job vs per-event, permuted)"
DESIGN_REF = "DESIGN.md §4 C05"

N_QUICK, N_THOROUGH = 150, 1500


def gxx_view(c: Case):
    """(per-event outcomes, job outcomes per event, rows of the reversed job) as g++ ran them, when the g++ oracle was attached"""
    o = getattr(c, "gxx_job", None)
    if o is None:
        return None
    per = list(c.gxx_exec)
    job = [cgroup.gxx_outcome(o, i) for i in range(len(c.events))]
    rv = getattr(c, "gxx_rev", None)
    rev = [cgroup.gxx_outcome(rv, i) for i in range(len(c.events))] if rv is not None else None
    return per, job, rev


def judge_gxx(ctx, c: Case, how: str) -> bool:
    """job vs per-event vs reversed job on the REAL text (per-event method body as rendered by the template),
    compiled with g++ against the mock event data model; the mock's job continues after a fault, so the comparison
    is event by event. Returns True if a violation was reported."""
    gv = gxx_view(c)
    if gv is None:
        return False
    gper, gjob, grev = gv
    if any(cgroup.fault_class(x) == "does-not-compile" for x in gper + gjob):
        ctx.count("g++:does-not-compile (C02's clause)")
        return False
    nrun = len((c.gxx_job or {}).get("events", []))  # the job ends at the first faulting event
    for i, (p, j) in enumerate(list(zip(gper, gjob))[:nrun]):
        if cgroup.fault_class(p) != cgroup.fault_class(j) or not cgroup.rows_num_eq(p.get("num", []), j.get("num", [])):
            ctx.violation(
                key="job:" + c.key(),
                what=f"event {i} writes different rows inside one job than alone (g++ run of the emitted code: state carried across events)",
                case=c.to_json(),
                observed={"event": i, "in_job": j, "alone": p, "body": c.result["query"]},
                how=how + " (compiled with g++ against tools/cppmock.py)",
            )
            return True
    if grev is not None and not any("fault" in x for x in gper):
        fwd = sorted(json_key(r) for j in gjob for r in j.get("num", []))
        rev = sorted(json_key(r) for j in grev for r in j.get("num", []))
        if fwd != rev:
            ctx.violation(key="perm:" + c.key(), what="processing the events in reverse order gives a different multiset of rows (g++ run)", case=c.to_json(), observed={"forward": gjob, "reverse": grev, "body": c.result["query"]}, how=how)
            return True
    return False


def judge(ctx, c: Case, c_rev: Case):
    a, ar = c.answer, c_rev.answer
    if a is None or ar is None or "bad" in a or "bad" in ar:
        return
    per = a["exec"]
    job = a["job"]
    how = "translate `source` (with the synthetic metadata of tools/qgen.py) on `backend`; run the emitted per-event code over `events` in one job and one event at a time"
    if gxx_view(c) is not None:
        ctx.count("decided-by:g++(job vs per-event)" if cgroup.needs_gxx(c) else "g++:also-run(job vs per-event)")
        if judge_gxx(ctx, c, how) or cgroup.needs_gxx(c):
            return
    # a variable read before anything was assigned to it in this event: its value is whatever an earlier event
    # (or the stack) left there — the modelled semantics has no value for it
    for i, r in enumerate(per):
        if str(r.get("fault", "")).startswith("stuck:unbound"):
            ctx.violation(
                key="uninit:" + c.key(),
                what=f"event {i}: the emitted code reads `{r['fault'].split(':')[-1]}` before assigning it in this event (declared without initial value): the row depends on what earlier events left in memory",
                case=c.to_json(),
                observed={"event": i, "per_event": r, "body": c.result["query"]},
                how=how,
            )
            return
    # the property, on the implementation's program: job == concatenation of per-event runs
    exp_rows, exp_fault = [], None
    for r in per:
        if "fault" in r:
            exp_fault = cgroup.fault_class(r)
            break
        exp_rows += r["rows"]
    ok = (cgroup.fault_class(job) == exp_fault) if exp_fault else ("rows" in job and job["rows"] == exp_rows)
    if not ok:
        ctx.violation(
            key="job:" + c.key(),
            what="rows written by one job over the events differ from the rows each event writes alone (state carried across events)",
            case=c.to_json(),
            observed={"job": job, "per_event": per, "body": c.result["query"]},
            how=how,
        )
        return
    # order independence (multiset of rows), when nothing faults
    if not exp_fault and "rows" in ar["job"]:
        if sorted(map(json_key, job["rows"])) != sorted(map(json_key, ar["job"]["rows"])):
            ctx.violation(
                key="perm:" + c.key(),
                what="processing the events in reverse order gives a different multiset of rows",
                case=c.to_json(),
                observed={"forward": job, "reverse": ar["job"], "body": c.result["query"]},
                how="as above, events reversed",
            )
            return
    # the verified checker on the implementation's output (theorem instance)
    if a.get("eventlocal"):
        ctx.count("EventLocal:accepted")
    else:
        ctx.count("EventLocal:rejected")
        ctx.disagreement("EventLocal(checker on implementation output)", {"backend": c.backend, "source": c.source(), "body": c.result["query"]}, "accepted", "rejected")


def json_key(r):
    import json

    return json.dumps(r)


def attach(cases, revs, ctx=None, sample=0):
    """g++ oracle: for the programs the Lean semantics cannot interpret, plus (`sample` > 0) a sample of the others —
    rows with vector columns next to First first — because only g++ runs the per-event method body as the TEMPLATE
    renders it (a try/catch or an early return around the generated statements is invisible to the parsed body)."""
    ok = [c for c in cases if c.result and c.result.get("ok") and c.answer and "bad" not in c.answer]
    need = [c for c in ok if cgroup.needs_gxx(c)]
    rest = [c for c in ok if c not in need]
    rest.sort(key=lambda c: 0 if (getattr(c, "family", "") == "first_mix" or any(len(ev["banks"]) < len(c.events[-1]["banks"]) for ev in c.events)) else (1 if ("First" in cgroup.qgen.ops_used(c.query) and c.form == "select") else 2))
    extra = rest if (ctx is not None and ctx.tier == "thorough") else rest[:sample]
    if need or extra:
        cgroup.attach_gxx(need + extra, per_event=True, job=True, rev=True)


def drop_banks(ctx, c):
    """some events lack one of the containers the query reads — one that is NOT the first the code asks for, so that
    columns built from earlier containers are already filled when the retrieval fails: the job must stop there, not
    skip the event with half-built columns"""
    used = list(cgroup.qgen.banks_used(c.query))  # in order of first use
    if len(used) < 2:
        return c
    for ev in c.events[:-1]:
        if ctx.rng.random() < 0.4:
            victim = ctx.rng.choice(used[1:])
            ev["banks"] = [b for b in ev["banks"] if b["bank"] != victim]
    return c


def gen_cases(ctx, n):
    cases = []
    for i in range(n):
        # every 4th case: vector columns next to an unguarded First (an event that cannot produce its row must not leave half-built columns behind)
        c = cgroup.gen_case(ctx.rng, backend=cgroup.P.BACKENDS[i % 3], nevents=5, empty_bias=0.3, family="first_mix" if i % 4 == 3 else "top")
        if i % 5 in (1, 3):  # (not a multiple of 3: the backend cycles with i % 3)
            drop_banks(ctx, c)
        cases.append(c)
    return cases


_PROGRAMS = []  # every program interpreted by this check (input of the parse tie)


def run_stream(ctx, cases, stream):
    revs = []
    for c in cases:
        translate_any(c)
        r = Case(c.backend, c.query, c.names, c.form, list(reversed(c.events)))
        r.result, r.package = c.result, c.package
        revs.append(r)
    cgroup.run_cases(ctx, [c for c in cases if not isinstance(c, LazyCase)], with_query=True)
    cgroup.run_cases(ctx, [c for c in cases if isinstance(c, LazyCase)], with_query=False)
    cgroup.run_cases(ctx, revs, with_query=False)
    attach(cases, revs, ctx, sample=40 if stream == "generated" else 10 ** 6)  # corpus cases are always run under g++ too
    for c, r in zip(cases, revs):
        ctx.count(f"stream:{stream}")
        if not c.result["ok"]:
            ctx.count("refused:" + c.result["error"])
            ctx.case(c.key(), False)
            continue
        if not isinstance(c, LazyCase):
            _PROGRAMS.append((c.backend, c.source(), c.result))
        cgroup.count_case(ctx, c)
        ctx.case(c.key(), cgroup.nontrivial(c), {"backend": c.backend, "query": c.source(), "rows_first_event": (c.answer or {}).get("exec", [{}])[0]})
        judge(ctx, c, r)


def known_stream(ctx):
    for e in ctx.known_entries("known") + ctx.known_entries("fixed"):
        c = Case.from_json(e["input"])
        r = Case(c.backend, c.query, c.names, c.form, list(reversed(c.events)))
        cgroup.translate(c)
        if not c.result["ok"]:
            continue
        r.result, r.package = c.result, c.package
        cgroup.run_cases(ctx, [c], with_query=False)
        cgroup.run_cases(ctx, [r], with_query=False)
        attach([c], [r])
        before = len(ctx.violations)
        sub = _Collector(ctx)
        judge(sub, c, r)
        if sub.hit:
            key = e["key"] if e["status"] == "known" else "regressed:" + e["key"]
            ctx.violation(key=key, what=e["what"], case=c.to_json(), observed=sub.hit)


class _Collector:
    """Stand-in ctx that records whether `judge` found a violation, without reporting it."""

    def __init__(self, ctx):
        self.hit = None
        self.ctx = ctx

    def violation(self, key, what, case, observed=None, how=""):
        self.hit = {"what": what, "observed": observed}

    def count(self, *a, **k):
        pass

    def disagreement(self, *a, **k):
        pass


class LazyCase(Case):
    """a query of the lazy fragment (`Gen.FQL` as JSON, tools/gentie_lazy.py): the implementation's program is judged
    like any other case; the text it is rendered to is the fragment's own"""

    def __init__(self, backend, fq, events):
        super().__init__(backend, {"k": "ds"}, [c["name"] for c in fq["cols"]], "lazy_elem_rows", events)
        self.fq = fq
        self.family = "lazy"

    def source(self, with_md=False):
        import gentie_lazy

        return gentie_lazy.fq_source(self.fq, cgroup.qgen.metadata(self.backend) if with_md else [])

    def to_json(self):
        return {"backend": self.backend, "lazy_fq": self.fq, "names": self.names, "form": self.form, "events": self.events, "source": self.source()}


def case_from_json(j):
    return LazyCase(j["backend"], j["lazy_fq"], j["events"]) if "lazy_fq" in j else Case.from_json(j)


def translate_any(c):
    if isinstance(c, LazyCase):
        c.result = cgroup.P.translate_functional(c.backend, c.source(with_md=True))
        if c.result["ok"]:
            c.package = cgroup.qgen.package_json(c.result)
        return c
    return cgroup.translate(c)


def lazy_stream(ctx, n):
    """The lazy fragment of the translator model (`Gen.compileL`; theorems of C05/TheoremsLazy.lean), on every run:
    (a) tie: the model's package text equals the real translator's modulo renaming (as in C01's lazy tie);
    (b) theorem instances on the model: inside the proved fragment (`wt`) and where the query is defined on every
        event, the model's job writes the concatenation of the denotations (`lazy_job_correct_partial`); in any case
        the model's job equals its per-event runs, and `EventLocal` accepts the model's package (sampled, not proved);
    (c) the property on the IMPLEMENTATION's program for the same query: job vs per-event vs reversed job (`judge`)."""
    import gentie
    import gentie_lazy

    cases, reqs = [], []
    for i in range(n):
        b = cgroup.P.BACKENDS[i % 3]
        fq = gentie_lazy.LazyGen(ctx.rng).fq()
        if not gentie.valid(fq):
            ctx.count("lazy:regenerated")
            continue
        evs = [gentie_lazy.gen_event(ctx.rng, b, fq) for _ in range(4)]
        c = LazyCase(b, fq, evs)
        translate_any(c)
        cases.append(c)
        reqs.append({"op": "compileLJob", "backend": b, "colls": gentie.colls_json(b), "fq": fq, "events": evs})
    outs = ctx.driver(LAZY_DRIVER, reqs, timeout=900)
    revs = []
    for c in cases:
        r = Case(c.backend, c.query, c.names, c.form, list(reversed(c.events)))
        r.result, r.package = c.result, c.package
        revs.append(r)
    cgroup.run_cases(ctx, cases, with_query=False)
    cgroup.run_cases(ctx, revs, with_query=False)
    for c, r, o in zip(cases, revs, outs):
        ctx.count("stream:lazy")
        ctx.count(f"lazy:backend:{c.backend}")
        ops = {}
        gentie_lazy.count_ops(c.fq, ops)
        for k, v in ops.items():
            ctx.count("lazy:op:" + k, v)
        info = {"backend": c.backend, "source": c.source(), "fq": c.fq}
        if "bad" in o:
            ctx.disagreement("Gen.compileL driver", info, "answer", o["bad"])
            continue
        if not c.result["ok"]:
            ctx.violation(key=f"lazy|{c.backend}|{c.source()}", what=f"a query of the modelled lazy fragment is refused ({c.result['error']})", case=c.to_json(), observed=c.result.get("message"))
            continue
        per, job, den = o["exec"], o["job"], o["denote"]
        defined = all("fault" not in d for d in den)
        ctx.case("lazy|" + c.key(), bool(ops) and any(d.get("num") for d in den), {"backend": c.backend, "query": c.source(), "rows_first_event": per[0] if per else None})
        # (b) the model
        exp_rows, exp_fault = [], None
        for x in per:
            if "fault" in x:
                exp_fault = cgroup.fault_class(x)
                break
            exp_rows += x["rows"]
        ok = (cgroup.fault_class(job) == exp_fault) if exp_fault else job.get("rows") == exp_rows
        if not ok:
            ctx.disagreement("Gen.compileL: job vs per-event (model instance)", info, per, job)
            continue
        if o.get("wt") and defined:
            ctx.count("lazy:inside-proved-fragment")
            if job.get("rows") != [row for d in den for row in d["rows"]]:
                ctx.disagreement("Gen.compileL: job vs denotation (instance of lazy_job_correct_partial)", info, [d["rows"] for d in den], job)
                continue
        ctx.count("lazy:model-EventLocal:" + ("accepted" if o.get("eventlocal") else "rejected"))
        if not o.get("eventlocal"):
            ctx.disagreement("EventLocal(Gen.compileL package)", info, "accepted", "rejected")
            continue
        # (a) the tie
        d = gentie.first_diff(gentie.model_canon(o), gentie.impl_canon(c.result))
        if d is not None:
            ctx.count("lazy:text-differs")
            ctx.disagreement("Gen.compileL vs translator (lazy fragment, text modulo renaming)", dict(info, first_difference=d), o.get("body"), c.result["query"])
        else:
            ctx.count("lazy:text-agree")
        # (c) the property on the implementation's own program
        judge(ctx, c, r)


def run(ctx):
    from vlib import corpus_cases

    known_stream(ctx)
    corpus = [case_from_json(j) for j in corpus_cases(ID)]
    if corpus:
        run_stream(ctx, corpus, "corpus")
    n = N_QUICK if ctx.tier == "quick" else N_THOROUGH
    run_stream(ctx, gen_cases(ctx, n), "generated")
    lazy_stream(ctx, 60 if ctx.tier == "quick" else 300)
    ctx.extra_cov["exhaustive"] = False
    # N-version tie of the text reader: tools/cparse.py vs the Lean parser (C02.parse_render) on every program interpreted here
    import c02_parsetie

    progs, _PROGRAMS[:] = list(_PROGRAMS), []
    st = c02_parsetie.run_stream(ctx, progs, 0, report=True)
    ctx.count("parse-tie:programs(cparse.py vs Lean parser)", len(progs))
    ctx.count("parse-tie:disagreements", st.get("disagreements", 0))


def search(ctx, broken):
    """More events per query, dirty starts: look for a concrete job/per-event difference."""
    best = None
    cases = []
    for i in range(400):
        cases.append(cgroup.gen_case(ctx.rng, backend=cgroup.P.BACKENDS[i % 3], nevents=8, empty_bias=0.35, family="first_mix" if i % 4 == 3 else "top"))
    sub = _Collector(ctx)
    revs = []
    for c in cases:
        cgroup.translate(c)
        r = Case(c.backend, c.query, c.names, c.form, list(reversed(c.events)))
        r.result, r.package = c.result, c.package
        revs.append(r)
    cgroup.run_cases(ctx, cases, with_query=False)
    cgroup.run_cases(ctx, revs, with_query=False)
    attach(cases, revs)
    for c, r in zip(cases, revs):
        if not c.result["ok"]:
            continue
        sub.hit = None
        judge(sub, c, r)
        if sub.hit and (best is None or len(c.source()) < len(best[0].source())):
            best = (c, sub.hit)
    if best is None:
        return None
    c, hit = best
    return {"key": "job:" + c.key(), "what": hit["what"], "case": c.to_json(), "observed": hit["observed"]}


def replay(ctx, rep) -> int:
    c = case_from_json(rep["case"])
    r = Case(c.backend, c.query, c.names, c.form, list(reversed(c.events)))
    translate_any(c)
    r.result, r.package = c.result, c.package
    cgroup.run_cases(ctx, [c], with_query=False)
    cgroup.run_cases(ctx, [r], with_query=False)
    attach([c], [r])
    sub = _Collector(ctx)
    judge(sub, c, r)
    print("\n".join(c.result.get("query", [])))
    print("job:", c.answer.get("job"), "\nper event:", c.answer.get("exec"))
    print("violation:" if sub.hit else "holds", sub.hit or "")
    return 1 if sub.hit else 0
