"""C09 — unsupported or malformed queries are refused, never half-translated.

Malformed stream: valid generated queries (C01 generator) with ONE unsupported construct grafted
at a random live position, plus malformed metadata and top-level shape errors; the real pipeline
must raise. The dispatch tables of the translator are regenerated from source (tie T) and the
visitor model predicts refusal for the table-driven grafts (tie K).
"""
from __future__ import annotations

import copy
from pathlib import Path

import cgroup
import pipeline as P
import qgen
import vlib

ID = "C09"
LEAN_MODULES = ["FaxVerif.C09.Theorems"]
LEAN_SOURCES = ["FaxVerif/C09", "FaxVerif/Generated/C09Tables.lean"]
DRIVER = "FaxVerif/C09/Driver.lean"
THEOREMS = [
    "FaxVerif.C09.fail_closed",
    "FaxVerif.C09.refuses_exactly",
    "FaxVerif.C09.tables_recognised",
    "FaxVerif.C09.documented_present",
    "FaxVerif.C09.undocumented_refused",
]
RULE = (
    "valid type-directed queries (C01 generator, three backends) with one unsupported construct grafted at a random live position: "
    "operator outside the tables (//, @, <<, >>, &, |, ^, ~), comparison chain, unknown node kinds (set / list comprehension / f-string / "
    "starred / lambda as value), slice, arithmetic on a sequence, a value used as a sequence, Aggregate without seed / with a lambda seed, "
    "raw objects as output, templated getAttribute, call keywords; plus malformed / unknown metadata and non-call tops. "
    "A case is non-trivial when the host query has >=2 operators; distinct = distinct (backend, grafted query)."
)
TRUSTED_BASE = [
    "tools/translate/c09_tables.py (reads visit_/call_ method names and the three operator dict literals with Python's ast)",
    "the visitor model is a coarse model of the dispatch (kinds, operators, comparator count); refusals that depend on representation kinds (value vs sequence) are decided by the executed implementation only",
]
ASSUMPTIONS = ["'raises' means any exception escaping apply_ast_transformations + write_cpp_files"]
LEVEL_TEXT = (
    "Lean 4 theorem fail_closed/refuses_exactly: a visitor that visits every live child and fails on any node outside the (regenerated) "
    "dispatch tables refuses exactly the trees containing such a node, at any depth — errors propagate, nothing is skipped; decide-proofs "
    "that the documented operators/calls are in the tables and the undocumented ones are not. The real pipeline is run on a malformed "
    "stream (one unsupported construct grafted at a random live position of an otherwise valid query); it must raise, and for table-driven "
    "grafts the model's prediction is compared."
)
LEVEL_NOTE = (
    "The theorem is about the dispatch model; that the real visitor raises for each unsupported construct is sampled (every graft kind x "
    "random positions x three backends each run). Known: a top-level SelectMany of objects writes raw pointers; call keywords are dropped."
)
TECHNIQUE = "Lean 4 theorem on a dispatch model over tables regenerated from source + malformed-query stream against the real pipeline"
DESIGN_REF = "DESIGN.md §4 C09"


def translate(ctx):
    import sys

    sys.path.insert(0, str(vlib.VERIF / "tools" / "translate"))
    import c09_tables

    vlib.write_if_changed(vlib.LEAN / "FaxVerif/Generated/C09Tables.lean", c09_tables.generate(vlib.REPO))


# ---------------------------------------------------------------- grafts

RAW = lambda fmt, *args: {"k": "raw", "fmt": fmt, "args": list(args)}
PY = lambda kind, op="", nops=0, children=(): {"kind": kind, "op": op, "nops": nops, "children": list(children)}
OKLEAF = PY("Name")

# (name, applies to: 'num' | 'meth', builder(node) -> raw node, model Py or None)
GRAFTS_NUM = [
    ("floordiv", lambda n: RAW("({0} // 2)", n), PY("BinOp", "FloorDiv", 0, [OKLEAF, OKLEAF])),
    ("matmul", lambda n: RAW("({0} @ 2)", n), PY("BinOp", "MatMult", 0, [OKLEAF, OKLEAF])),
    ("lshift", lambda n: RAW("({0} << 1)", n), PY("BinOp", "LShift", 0, [OKLEAF, OKLEAF])),
    ("bitand", lambda n: RAW("({0} & 3)", n), PY("BinOp", "BitAnd", 0, [OKLEAF, OKLEAF])),
    ("bitxor", lambda n: RAW("({0} ^ 3)", n), PY("BinOp", "BitXor", 0, [OKLEAF, OKLEAF])),
    ("invert", lambda n: RAW("(~{0})", n), PY("UnaryOp", "Invert", 0, [OKLEAF])),
    ("cmpchain", lambda n: RAW("(1 if (0 < {0} < 10) else 2)", n), PY("IfExp", "", 0, [PY("Compare", "Lt", 2, [OKLEAF])])),
    ("is", lambda n: RAW("(1 if ({0} is 3) else 2)", n), PY("IfExp", "", 0, [PY("Compare", "Is", 1, [OKLEAF])])),
    ("in", lambda n: RAW("(1 if ({0} in (1, 2)) else 2)", n), PY("IfExp", "", 0, [PY("Compare", "In", 1, [OKLEAF])])),
    ("setdisplay", lambda n: RAW("({{{0}, 1}})", n), PY("Set")),
    ("listcomp", lambda n: RAW("[y for y in ({0},)]", n), PY("ListComp")),
    ("fstring", lambda n: RAW("f'{{{0}}}'", n), PY("JoinedStr")),
    ("value_as_seq_count", lambda n: RAW("{0}.Count()", n), None),
    ("value_as_seq_select", lambda n: RAW("{0}.Select(lambda zz: zz).Count()", n), None),
    ("value_as_seq_first", lambda n: RAW("{0}.First()", n), None),
    ("lambda_value", lambda n: RAW("(lambda zz: {0})", n), None),
]
GRAFTS_METH = [
    ("getAttribute", lambda o, m: RAW("{0}.getAttribute('" + m + "')", o), None),
    ("slice", lambda o, m: RAW("{0}.vs()[0:2].Count()", o), None),
    ("seq_arith", lambda o, m: RAW("({0}.vs() + 1)", o), None),
    ("seq_arith_count", lambda o, m: RAW("({0}.vs() * 2).Count()", o), None),
    ("agg_no_seed", lambda o, m: RAW("{0}.vs().Aggregate(lambda acc, v: acc + v)", o), None),
    ("agg_lambda_seed", lambda o, m: RAW("{0}.vs().Aggregate(lambda v: v, lambda acc, v: acc + v)", o), None),
    ("unknown_seq_op", lambda o, m: RAW("{0}.vs().OrderBy(lambda v: v).Count()", o), None),
]


def _uses(q, x) -> bool:
    if isinstance(q, dict):
        return (q.get("k") == "var" and q.get("n") == x) or any(_uses(v, x) for v in q.values())
    if isinstance(q, list):
        return any(_uses(v, x) for v in q)
    return False


def positions(q, path=(), dead_elem=False, skip=None):
    """paths to numeric scalar nodes and to scalar method-call nodes at LIVE positions: the element expression of
    a sequence whose consumer ignores its variable (`.Select(lambda x: 2.5)`) is never translated, so a construct
    grafted there is not `used` by the query"""
    out = []
    if skip is None:
        skip = qgen.dead_nodes(q)
    if isinstance(q, dict):
        if id(q) in skip:
            return out  # a component of a first-step tuple that no later step looks at
        k = q.get("k")
        if k == "meth" and q["n"] in ("i", "j", "d", "g", "f"):
            out.append(("meth", path))
        if k in ("Count", "Sum") or (k == "bin") or (k == "meth" and q["n"] in ("i", "j", "d", "g", "f")):
            out.append(("num", path))
        ignores = k in ("Select", "Where", "SelectMany", "Aggregate") and "x" in q and not _uses(q.get("f"), q["x"])
        for key, v in q.items():
            if key == "s" and k in ("Select", "Where", "SelectMany", "Aggregate", "Count", "Sum", "First", "Min", "Max"):
                # the elements of the source are dead if this operator ignores them, or if it only passes them on
                # (Where keeps elements: dead iff they were dead for our own consumer) to a consumer that does
                if k == "Where":
                    pass_dead = dead_elem and ignores
                elif k == "Select":
                    pass_dead = dead_elem or ignores
                else:
                    pass_dead = ignores
                out += positions(v, path + (key,), pass_dead, skip)
            elif key == "f" and k == "Select" and dead_elem:
                continue  # this Select's element expression is never looked at
            elif key in ("s", "f", "a", "b", "c", "o", "seed"):
                out += positions(v, path + (key,), False, skip)
            elif key == "es":
                for i, e in enumerate(v):
                    out += positions(e, path + (key, i), False, skip)
    return out


def get_at(q, path):
    for p in path:
        q = q[p]
    return q


def set_at(q, path, new):
    q = copy.deepcopy(q)
    cur = q
    for p in path[:-1]:
        cur = cur[p]
    cur[path[-1]] = new
    return q


def render_raw(q):
    """qgen.render extended with raw nodes"""
    orig = qgen.render

    def R(x):
        if isinstance(x, dict) and x.get("k") == "raw":
            return x["fmt"].format(*[R(a) for a in x["args"]])
        return orig_dispatch(x)

    def orig_dispatch(x):
        # re-implement by temporarily patching qgen.render so that nested calls come back to R
        qgen.render = R
        try:
            return orig(x)
        finally:
            qgen.render = R

    try:
        return R(q)
    finally:
        qgen.render = orig


def render_functional_raw(q, mds):
    def R(c):
        if c["k"] == "ds":
            s = "ds0"
            for d in mds:
                s = f"MetaData({s}, {d!r})"
            return s
        if c["k"] == "raw":
            return c["fmt"].format(*[R(a) if a.get("k") in ("ds", "Select", "Where", "SelectMany") else render_raw(a) for a in c["args"]])
        return f"{c['k']}({R(c['s'])}, lambda {c['x']}: {render_raw(c['f'])})"

    return R(q)


TOP_CASES = [
    ("top_not_call", "ds0", None),
    ("top_lambda", "(lambda e: e)", None),
    ("md_no_type", "Select(MetaData(ds0, {'name': 'x'}), lambda e: 1)", None),
    ("md_unknown_type", "Select(MetaData(ds0, {'metadata_type': 'no_such_kind'}), lambda e: 1)", None),
    ("md_extra_key", "Select(MetaData(ds0, {'metadata_type': 'add_atlas_event_collection_info', 'name': 'X', 'include_files': [], 'container_type': 'C', 'element_type': 'E', 'contains_collection': True, 'bogus': 1}), lambda e: 1)", "atlas"),
    # a key that only ANOTHER backend's collection declaration knows is an unknown key here
    ("md_foreign_key:atlas_element_pointer", "Select(MetaData(ds0, {'metadata_type': 'add_atlas_event_collection_info', 'name': 'X', 'include_files': [], 'container_type': 'C', 'element_type': 'E', 'contains_collection': True, 'element_pointer': False}), lambda e: 1)", "atlas"),
    ("md_foreign_key:cms_aod_link_libraries", "Select(MetaData(ds0, {'metadata_type': 'add_cms_aod_event_collection_info', 'name': 'X', 'include_files': [], 'container_type': 'C', 'element_type': 'E', 'contains_collection': True, 'element_pointer': False, 'link_libraries': ['L']}), lambda e: 1)", "cms_aod"),
    ("md_foreign_key:cms_miniaod_link_libraries", "Select(MetaData(ds0, {'metadata_type': 'add_cms_miniaod_event_collection_info', 'name': 'X', 'include_files': [], 'container_type': 'C', 'element_type': 'E', 'contains_collection': True, 'element_pointer': False, 'link_libraries': ['L']}), lambda e: 1)", "cms_miniaod"),
    ("md_extra_key:cms_aod", "Select(MetaData(ds0, {'metadata_type': 'add_cms_aod_event_collection_info', 'name': 'X', 'include_files': [], 'container_type': 'C', 'element_type': 'E', 'contains_collection': True, 'bogus': 1}), lambda e: 1)", "cms_aod"),
    ("md_elem_mismatch", "Select(MetaData(ds0, {'metadata_type': 'add_atlas_event_collection_info', 'name': 'X', 'include_files': [], 'container_type': 'C', 'contains_collection': True}), lambda e: 1)", "atlas"),
    ("md_inject_unknown_field", "Select(MetaData(ds0, {'metadata_type': 'inject_code', 'name': 'b', 'no_such_field': ['x']}), lambda e: 1)", None),
    ("md_jobscript_missing_dep", "Select(MetaData(ds0, {'metadata_type': 'add_job_script', 'name': 'a', 'script': ['x'], 'depends_on': ['nope']}), lambda e: 1)", "atlas"),
    ("raw_objects_out", "Select(MetaData(ds0, {}), lambda e: 1)", "skip"),
    ("too_many_names", "ResultTTree(Select(ds0, lambda e: (1, 2)), ['a', 'b', 'c'], 't', 'f.root')", None),
    ("too_few_names", "ResultTTree(Select(ds0, lambda e: (1, 2)), ['a'], 't', 'f.root')", None),
    ("too_many_names_scalar", "ResultTTree(Select(ds0, lambda e: 1), ['a', 'b'], 't', 'f.root')", None),
    ("too_many_names_single_vector", "ResultTTree(Select(DSMD, lambda e: e.As('ba').Select(lambda a: a.d())), ['a', 'b'], 't', 'f.root')", None),
    ("too_many_names_per_element", "ResultTTree(Select(SelectMany(DSMD, lambda e: e.As('ba')), lambda a: a.d()), ['a', 'b', 'c'], 't', 'f.root')", None),
    ("no_names", "ResultTTree(Select(ds0, lambda e: 1), [], 't', 'f.root')", None),
]

# unsupported constructs INSIDE the arguments of a call that the plug-in pre-pass rewrites
# (built-in DeltaR, a user function declared with add_cpp_function)
USERFN = {"metadata_type": "add_cpp_function", "name": "myf", "include_files": [], "arguments": ["x", "y"],
          "code": ["auto result = x + y;"], "return_type": "double"}
INSIDE = [
    ("floordiv", "({0} // 2)"), ("cmpchain", "(1 if (0 < {0} < 10) else 2)"), ("invert", "(~{0})"), ("matmul", "({0} @ 2)"),
    ("setdisplay", "({{{0}, 1}})"), ("value_as_seq", "{0}.Count()"), ("seq_arith", "(a.vs() + {0})"), ("slice", "a.vs()[0:2].Count()"),
]
ARG_CASES = []
for gname, fmt in INSIDE:
    g = fmt.format("a.d()")
    ARG_CASES.append((f"in_DeltaR_arg:{gname}", f"Select(DSMD, lambda e: e.As('ba').Select(lambda a: DeltaR({g}, a.g(), a.d(), a.g())))", None))
    ARG_CASES.append((f"in_userfn_arg:{gname}", f"Select(MetaData(DSMD, {USERFN!r}), lambda e: e.As('ba').Select(lambda a: myf(a.g(), {g})))", None))
ARG_CASES.append(("in_DeltaR_arg:getAttribute", "Select(DSMD, lambda e: e.As('ba').Select(lambda a: DeltaR(a.getAttribute('x'), a.g(), a.d(), a.g())))", "atlas"))
ARG_CASES.append(("in_userfn_arg:getAttribute", f"Select(MetaData(DSMD, {USERFN!r}), lambda e: e.As('ba').Select(lambda a: myf(2.0 * a.getAttribute('x'), a.g())))", "atlas"))
ARG_CASES.append(("in_userfn_nested:getAttribute", f"Select(MetaData(DSMD, {USERFN!r}), lambda e: e.As('ba').Select(lambda a: myf(myf(a.d(), a.getAttribute('x')), a.g())))", "atlas"))
TOP_CASES += ARG_CASES


def gen_cases(ctx, n):
    cases = []
    for i in range(n):
        b = P.BACKENDS[i % 3]
        host = cgroup.gen_case(ctx.rng, backend=b, nevents=1)
        pos = positions(host.query)
        if not pos:
            continue
        kind, path = ctx.rng.choice(pos)
        node = get_at(host.query, path)
        if kind == "meth":
            # the templated getAttribute is an ATLAS (xAOD jet) refusal; elsewhere it is an ordinary unknown method
            # … and it is only refused on a plain-name receiver (on an indexed element it is accepted: listed finding)
            name, build, py = ctx.rng.choice([g for g in GRAFTS_METH if g[0] != "getAttribute" or (b == "atlas" and node["o"].get("k") == "var")])
            new = build(node["o"], node["n"])
        else:
            name, build, py = ctx.rng.choice(GRAFTS_NUM)
            new = build(node)
        q2 = set_at(host.query, path, new)
        cases.append({"backend": b, "graft": name, "query": q2, "host": host.query, "py": py, "src": render_functional_raw(q2, [])})
    # raw objects as output
    for b in P.BACKENDS:
        cases.append({"backend": b, "graft": "raw_objects_select", "query": None, "host": None, "py": None,
                      "src": 'Select(ds0, lambda e: e.As("ba"))', "with_md": True})
        for name, src, only in TOP_CASES:
            if only == "skip" or (only and only != b):
                continue
            cases.append({"backend": b, "graft": name, "query": None, "host": None, "py": None, "src": src})
    return cases


def run_case(c):
    mds = qgen.metadata(c["backend"])
    if c["query"] is not None:
        src = render_functional_raw(c["query"], mds)
    elif c.get("with_md"):
        src = c["src"].replace("ds0", _md_src(mds))
    else:
        src = c["src"].replace("DSMD", _md_src(mds))
    return P.translate_functional(c["backend"], src)


def _md_src(mds):
    s = "ds0"
    for d in mds:
        s = f"MetaData({s}, {d!r})"
    return s


def judge_case(ctx, c, r):
    key = f"{c['backend']}|{c['graft']}|{c['src']}"
    ctx.count(f"graft:{c['graft']}")
    ctx.count("outcome:" + ("refused" if not r["ok"] else "ACCEPTED"))
    nontrivial = c["host"] is None or len(qgen.ops_used(c["host"])) >= 2
    ctx.case(key, nontrivial, {"backend": c["backend"], "graft": c["graft"], "query": c["src"], "outcome": r.get("error", "accepted")})
    if r["ok"]:
        ctx.violation(
            key=key,
            what=f"a query using an unsupported construct ({c['graft']}) is accepted and a package is returned",
            case={"backend": c["backend"], "graft": c["graft"], "source": c["src"]},
            observed={"generated_code": r["query"]},
            how="translate `source` (with the synthetic metadata of tools/qgen.py wrapped around ds0) on `backend`",
        )
    elif r["error"].startswith("frontend:"):
        # the graft made the text unparsable for Python itself: a harness error, not a verdict
        ctx.count("harness:python-syntax")


def run(ctx):
    # known findings
    for e in ctx.known_entries("known") + ctx.known_entries("fixed"):
        c = e["input"]
        r = P.translate_functional(c["backend"], c["full_source"])
        if r["ok"]:
            key = e["key"] if e["status"] == "known" else "regressed:" + e["key"]
            ctx.violation(key=key, what=e["what"], case=c, observed={"generated_code": r["query"]})
    n = 300 if ctx.tier == "quick" else 3000
    cases = gen_cases(ctx, n)
    results = [run_case(c) for c in cases]
    # the dispatch model on the table-driven grafts
    tab = [(c, r) for c, r in zip(cases, results) if c["py"] is not None]
    ans = ctx.driver(DRIVER, [{"op": "visit", "py": c["py"]} for c, _ in tab])
    for (c, r), a in zip(tab, ans):
        if "bad" in a:
            continue
        if a["refuses"] != (not r["ok"]):
            ctx.disagreement("dispatch model vs translator (refuses?)", {"backend": c["backend"], "graft": c["graft"], "source": c["src"]}, a, "refused" if not r["ok"] else "accepted")
    for c, r in zip(cases, results):
        judge_case(ctx, c, r)
    ctx.extra_cov["exhaustive"] = False


def search(ctx, broken):
    cases = gen_cases(ctx, 1500)
    for c in cases:
        r = run_case(c)
        if r["ok"]:
            return {"key": f"{c['backend']}|{c['graft']}|{c['src']}", "what": f"unsupported construct ({c['graft']}) accepted", "case": {"backend": c["backend"], "graft": c["graft"], "source": c["src"]}, "observed": {"generated_code": r["query"]}}
    return None


def replay(ctx, rep) -> int:
    c = rep["case"]
    src = c.get("full_source") or c["source"].replace("DSMD", "ds0").replace("ds0", _md_src(qgen.metadata(c["backend"])), 1)
    r = P.translate_functional(c["backend"], src)
    print("accepted — VIOLATION" if r["ok"] else f"refused: {r['error']}: {r['message'][:200]}")
    if r["ok"]:
        print("\n".join(r["query"]))
    return 1 if r["ok"] else 0
