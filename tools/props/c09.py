"""C09 — unsupported or malformed queries are refused, never half-translated.

Malformed stream: valid generated queries (C01 generator) with ONE unsupported construct grafted
at a random live position, plus malformed metadata and top-level shape errors; the real pipeline
must raise. The dispatch tables of the translator are regenerated from source (tie T) and the
visitor model predicts refusal for the table-driven grafts (tie K).

Two further families, each case with a well-formed *twin* (same host, same position, only the one
malformation taken back) that must translate:
  * wrong-arity calls — a callee with a fixed parameter list (function / method declared through
    `add_cpp_function`, DeltaR, getAttributeFloat / getAttributeVectorFloat, an event-collection accessor,
    Range, First, Count, ResultTTree) written with fewer or more arguments, or in the other call style;
  * malformed metadata — job-script blocks that contradict each other, dangle or form a circle (the
    malformation sits in a second copy of a block as often as in the block), contradictory `inject_code`
    blocks, dictionaries with a needed key missing or misspelt, a stray key where the kind has a
    whitelist, an unknown / missing / non-text `metadata_type`; the blocks spread over random places of
    the metadata chain.
The Spec predicates (`callWellFormed`, `mdMalformed`, `injectConflict`, `jobMalformed`) are evaluated by
the Lean driver on the input; the clause `refusedIfMalformed` on the implementation's outcome is the judge.
"""
from __future__ import annotations

import copy
import json
from pathlib import Path

import cgroup
import pipeline as P
import qgen
import vlib

ID = "C09"
LEAN_MODULES = ["FaxVerif.C09.Theorems", "FaxVerif.C09.ExecTheorems"]
LEAN_SOURCES = ["FaxVerif/C09", "FaxVerif/Generated/C09Tables.lean", "FaxVerif/Generated/C09Exec.lean"]
DRIVER = "FaxVerif/C09/Driver.lean"
THEOREMS = [
    "FaxVerif.C09.fail_closed",
    "FaxVerif.C09.refuses_exactly",
    "FaxVerif.C09.tables_recognised",
    "FaxVerif.C09.documented_present",
    "FaxVerif.C09.undocumented_refused",
    "FaxVerif.C09.call_refuses_exactly",
    "FaxVerif.C09.surplus_argument_refused",
    "FaxVerif.C09.missing_argument_refused",
    "FaxVerif.C09.md_refuses_exactly",
    "FaxVerif.C09.md_any_position",
    "FaxVerif.C09.md_kinds_documented",
    "FaxVerif.C09.inject_refuses_exactly",
    "FaxVerif.C09.jobscript_refuses_exactly",
    # executor level (ExecTheorems.lean)
    "FaxVerif.C09.Exec.exec_source_recognised",
    "FaxVerif.C09.Exec.exec_stage_order",
    "FaxVerif.C09.Exec.exec_backends",
    "FaxVerif.C09.Exec.first_error_wins",
    "FaxVerif.C09.Exec.refused_iff_some_stage_refuses",
    "FaxVerif.C09.Exec.no_partial_package",
    "FaxVerif.C09.Exec.accepted_is_complete",
    "FaxVerif.C09.Exec.outcome_satisfies_spec",
    "FaxVerif.C09.Exec.refused_runner_never_complete",
    "FaxVerif.C09.Exec.malformed_item_any_position",
    "FaxVerif.C09.Exec.inject_conflict_any_position",
    "FaxVerif.C09.Exec.bad_call_any_position",
    "FaxVerif.C09.Exec.job_blocks_all_handed",
    "FaxVerif.C09.Exec.job_lines_all_emitted",
    "FaxVerif.C09.Exec.cms_jobscript_dropped_counterexample",
    "FaxVerif.C09.Exec.malformed_jobs_refused",
    "FaxVerif.C09.Exec.last_declaration_counts",
    "FaxVerif.C09.Exec.refused_state_exact",
    "FaxVerif.C09.Exec.failed_run_state_not_restored_counterexample",
]
RULE = (
    "valid type-directed queries (C01 generator, three backends) with one unsupported construct grafted at a random live position: "
    "operator outside the tables (//, @, <<, >>, &, |, ^, ~), comparison chain, unknown node kinds (set / list comprehension / f-string / "
    "starred / lambda as value), slice, arithmetic on a sequence, a value used as a sequence, Aggregate without seed / with a lambda seed, "
    "raw objects as output, templated getAttribute, call keywords, arithmetic (+ - * /) whose two operands have one and the same unsupported type "
    "(a collection accessor with itself - at the place of any live accessor -, a vector attribute / an object / a collection-valued method "
    "with itself, two strings; also as fixed top-level shapes); plus malformed / unknown metadata and non-call tops. "
    "A case is non-trivial when the host query has >=2 operators; distinct = distinct (backend, grafted query). "
    "Wrong-arity family: a callee with a fixed parameter list (add_cpp_function function with 0..3 / method with 0..2 parameters, DeltaR, "
    "getAttributeFloat, getAttributeVectorFloat, collection accessor, Range, First, Count at a random live position; ResultTTree) written with "
    "0..declared+2 arguments (never the declared number in the declared style), 20% in the other call style. Metadata family: job-script "
    "blocks (1-4 names, copies, DAG) with one conflict / dangling dependency / circle put into a block or into a further copy of it (ATLAS); "
    "inject_code blocks with one contradictory copy; one dictionary of every kind with a needed key dropped or misspelt, a stray key (kinds "
    "with a whitelist), a near-miss / missing / non-text metadata_type, the element_type contradiction; blocks placed at random places of "
    "the metadata chain. In both families a case is non-trivial when its well-formed twin (the malformation taken back) is translated. "
    "Left out on purpose (listed findings): surplus arguments of Select / Where / SelectMany. "
    "Executor level: histories of one (70%) or two queries on ONE real executor, fresh output directory per query; each query a chain of 1-3 "
    "operators over ds0 with the ~25 declarations of the synthetic data model plus 1-10 further blocks (user functions, some name declared twice, "
    "job-script / inject blocks with copies, one dictionary of a random kind) spread over the chain, 1-4 call sites of fixed-arity callees, and "
    "0 (55%) / 1 / 2 / 3 malformations drawn over the stages (malformed dictionary, contradictory inject copy, collection of another backend, "
    "wrong call, unsupported operator, ATLAS job-script conflict / dangling / circle, top-level shape / no dataset, a character that cannot be "
    "written out in the job script / an include / a string constant); 9% of the histories meet a template directory that is missing or lacks "
    "one file. Left out on purpose (listed findings `cms-jobscript|…`): add_job_script blocks on the CMS backends. A case is non-trivial when the chain carries >= 10 dictionaries and >= 2 candidate call sites."
)
TRUSTED_BASE = [
    "tools/translate/c09_tables.py (reads visit_/call_ method names and the three operator dict literals with Python's ast)",
    "the visitor model is a coarse model of the dispatch (kinds, operators, comparator count); refusals that depend on representation kinds (value vs sequence) are decided by the executed implementation only",
    "lean/FaxVerif/C09/Model.lean `mdKinds`: the table of metadata kinds (needed keys, whitelists) is written by hand from process_metadata; every generated dictionary is run through model and implementation and the verdicts are compared",
    "the harness reduces a metadata dictionary to (metadata_type, key set, truth of contains_collection) and an inject_code block to its dataclass fields with defaults filled in",
    "tools/props/c09.py generate_exec: reads file_names / runner_name literals, the use of generate_script_block and the order of eight + six stage markers of the two public methods with Python's ast (Generated/C09Exec.lean; theorems exec_source_recognised / exec_stage_order / exec_backends re-proved on every run)",
    "executor-level harness: the metadata chain is taken from the query text in pre-order by the harness's own walk; the candidate call sites and the top-level shape are read off the trees the real executor hands to cpp_ast_finder / write_cpp_files (the func_adl rewrites before them are not modelled); positions are observed by interposing process_metadata (dictionaries that report being looked at) and cpp_ast_finder.try_call (a counter); the error class is read off the traceback's frame names; a file counts as complete when it equals an independent rendering of its template with the recorded replacement dict",
    "executor-level model: the visitor stage is the coarse dispatch model (the generated unsupported construct is table-driven); the values inside a dictionary (types that do not parse, non-list fields) are not modelled",
]
ASSUMPTIONS = ["'raises' means any exception escaping apply_ast_transformations + write_cpp_files",
               "executor level: the output directory is fresh and writable; the file system does not fail (the only rendering failures modelled are a missing template and text that cannot be encoded)"]
LEVEL_TEXT = (
    "Lean 4 theorem fail_closed/refuses_exactly: a visitor that visits every live child and fails on any node outside the (regenerated) "
    "dispatch tables refuses exactly the trees containing such a node, at any depth — errors propagate, nothing is skipped; decide-proofs "
    "that the documented operators/calls are in the tables and the undocumented ones are not. The real pipeline is run on a malformed "
    "stream (one unsupported construct grafted at a random live position of an otherwise valid query); it must raise, and for table-driven "
    "grafts the model's prediction is compared. Lean 4 theorems call_refuses_exactly / surplus_argument_refused / missing_argument_refused "
    "(a call site is refused exactly when argument count or call style differ from the declaration), md_refuses_exactly / md_any_position "
    "(a metadata dictionary is refused exactly when type or keys are malformed, at any place of the list), inject_refuses_exactly "
    "(contradictory inject_code blocks, wherever the two stand), jobscript_refuses_exactly (conflict, dangling dependency or circle among "
    "ALL job-script blocks of the query; corollary of C15.complete); the same predicates are evaluated on the implementation's outcome for "
    "every generated wrong-arity call and malformed metadata list. Executor level (ExecModel/ExecTheorems.lean): Exec.run models one translation "
    "(apply_ast_transformations + write_cpp_files) as stages - process_metadata over EVERY dictionary of the chain in order (with the inject-block "
    "bookkeeping), the method table (foreign collections, last declaration of a name counts), every candidate call site in post-order, the "
    "executor keeping inject / job-script blocks, dataset / top-level shape / visitor, generate_script_block (ATLAS), template directory, every "
    "file in order, chmod, reset. Theorems for ALL inputs: first_error_wins (the surfaced error is that of the first stage whose verdict on the raw "
    "input is a refusal), refused_iff_some_stage_refuses (exact characterisation by predicates on the input), no_partial_package (refusal before "
    "the files: EMPTY directory; a file that cannot be rendered: exactly the files before it, complete, plus the truncated file when the failure "
    "came while writing; runner never executable), refused_runner_never_complete, accepted_is_complete, outcome_satisfies_spec, "
    "malformed_item_any_position / inject_conflict_any_position / bad_call_any_position / job_blocks_all_handed (an item at ANY position among any "
    "number of valid ones reaches its check; the error names its position), last_declaration_counts, refused_state_exact, and "
    "failed_run_state_not_restored_counterexample (a refusal inside write_cpp_files leaves the job-script blocks on the executor - false of the "
    "code, replayed on every run). The stage order, the file lists and which backend builds a job script are regenerated from the four executor "
    "sources on every run. The real executors are run on generated histories and compared with the model on: refused?, error class, position of "
    "the refused dictionary / call site, directory listing with completeness, runner mode, blocks kept, job-script lines; the Spec clauses "
    "noPartialPackage and refused-if-malformed are evaluated on the observed outcome."
)
LEVEL_NOTE = (
    "The theorem is about the dispatch model; that the real visitor raises for each unsupported construct is sampled (every graft kind x "
    "random positions x three backends each run). Known: a top-level SelectMany of objects writes raw pointers; call keywords are dropped; "
    "a surplus argument of Select / Where is dropped. The arity and metadata models are models of the checks (build_CPPCodeValue, "
    "process_metadata, ok_to_add_code_block, generate_script_block); that the executor hands EVERY block / call site to them, in the order of the model, "
    "is a theorem about Exec.run and is observed on the real executors per generated history (position probes), not proved of the Python. "
    "Real behaviour found by running: every refusal before the first file leaves the fresh output directory EMPTY; the only way to a non-empty "
    "directory after a refusal is a file that cannot be written out (e.g. a lone surrogate in a string constant / job-script line / include): "
    "the files before it stay, the file is truncated, the runner (last file of all three backends) is never there - never a directory that "
    "looks like a finished package. Known: the CMS executors accept add_job_script blocks (well-formed or contradictory / dangling / circular) "
    "and drop them - job_blocks_all_handed / job_lines_all_emitted carry the hypothesis `jobScripts = true` (ATLAS only), "
    "cms_jobscript_dropped_counterexample is the Lean statement, eight concrete inputs are replayed; the generator sends no job-script block to "
    "CMS in the executor stream, and `jobLinesKept` is evaluated on every accepted package that was sent one. Known (C07's root): a refusal inside write_cpp_files skips reset(), the job-script blocks stay on the executor."
)
TECHNIQUE = "Lean 4 theorems on a dispatch model and on a stage model of the executor over tables regenerated from source + malformed-query and executor-history streams against the real pipeline"
DESIGN_REF = "DESIGN.md §4 C09"


def translate(ctx):
    import sys

    sys.path.insert(0, str(vlib.VERIF / "tools" / "translate"))
    import c09_tables

    vlib.write_if_changed(vlib.LEAN / "FaxVerif/Generated/C09Tables.lean", c09_tables.generate(vlib.REPO))
    vlib.write_if_changed(vlib.LEAN / "FaxVerif/Generated/C09Exec.lean", generate_exec(vlib.REPO))


# ---------------------------------------------------------------- executor sources -> Generated/C09Exec.lean

import ast as _ast

EXEC_BACKENDS = [("atlas", "func_adl_xAOD/atlas/xaod/executor.py", "atlas_xaod_executor"),
                 ("cms_aod", "func_adl_xAOD/cms/aod/executor.py", "cms_aod_executor"),
                 ("cms_miniaod", "func_adl_xAOD/cms/miniaod/executor.py", "cms_miniaod_executor")]
# the stage markers of the two public methods, in the order the model runs the stages
APPLY_MARKS = ["extract_metadata", "process_metadata", "build_collection_callback", "cpp_ast_finder", "_inject_blocks=", "_job_option_blocks.append"]
WRITE_MARKS = ["find_EventDataset", "_is_format_request", "get_rep", "add_to_replacement_dict", "_find_dir", "_copy_template_file", "chmod", "reset"]


def _eval_order(node):
    """the nodes below `node` in (an approximation of) evaluation order: an `a if c else b` evaluates c first,
    an assignment its value before its targets, a dict comprehension its generators before its value"""
    if isinstance(node, _ast.IfExp):
        kids = [node.test, node.body, node.orelse]
    elif isinstance(node, _ast.Assign):
        kids = [node.value] + list(node.targets)
    elif isinstance(node, (_ast.DictComp,)):
        kids = list(node.generators) + [node.key, node.value]
    elif isinstance(node, _ast.Call):
        kids = [node.func] + list(node.args) + list(node.keywords)
        yield from (x for k in kids for x in _eval_order(k))
        yield node
        return
    else:
        kids = list(_ast.iter_child_nodes(node))
    yield node
    for k in kids:
        yield from _eval_order(k)


def _marks(fn, wanted):
    """first occurrence of each wanted marker in evaluation order: a call of that name (plain or attribute), or for
    `x=` / `x.append` an assignment to / an append on the attribute x of self"""
    seen = []
    for n in _eval_order(fn):
        m = None
        if isinstance(n, _ast.Call):
            f = n.func
            nm = f.id if isinstance(f, _ast.Name) else f.attr if isinstance(f, _ast.Attribute) else None
            if nm == "append" and isinstance(f.value, _ast.Attribute):
                m = f.value.attr + ".append"
            elif nm == "get_as_ROOT":
                m = "get_rep"
            else:
                m = nm
        elif isinstance(n, _ast.Assign) and len(n.targets) == 1 and isinstance(n.targets[0], _ast.Attribute):
            m = n.targets[0].attr + "="
        if m in wanted and m not in seen:
            seen.append(m)
    return seen


def generate_exec(repo) -> str:
    problems = []
    L = lambda xs: "[" + ", ".join('"' + x.replace("\\", "\\\\").replace('"', '\\"') + '"' for x in xs) + "]"
    rows = []
    for bname, rel, cname in EXEC_BACKENDS:
        try:
            tree = _ast.parse((repo / rel).read_text())
        except Exception as e:  # unreadable source: an explicit unrecognised value, never a crash
            problems.append(f"{rel}: {type(e).__name__}")
            continue
        cls = [n for n in tree.body if isinstance(n, _ast.ClassDef) and n.name == cname]
        if not cls:
            problems.append(f"{rel}: class {cname} not found")
            continue
        files = runner = None
        jobs = False
        for m in cls[0].body:
            if isinstance(m, _ast.FunctionDef) and m.name == "__init__":
                for n in _ast.walk(m):
                    if isinstance(n, _ast.Assign) and len(n.targets) == 1 and isinstance(n.targets[0], _ast.Name):
                        try:
                            if n.targets[0].id == "file_names":
                                files = list(_ast.literal_eval(n.value))
                            if n.targets[0].id == "runner_name":
                                runner = _ast.literal_eval(n.value)
                        except Exception:
                            pass
            if isinstance(m, _ast.FunctionDef) and m.name == "add_to_replacement_dict":
                jobs = any(isinstance(n, _ast.Call) and isinstance(n.func, _ast.Name) and n.func.id == "generate_script_block" for n in _ast.walk(m))
        if not (isinstance(files, list) and all(isinstance(f, str) for f in files)) or not isinstance(runner, str):
            problems.append(f"{rel}: file_names / runner_name are not literals")
            continue
        rows.append(f'  ⟨"{bname}", {L(files)}, "{runner}", {"true" if jobs else "false"}⟩')
    apply_o, write_o, base_jobs = [], [], False
    try:
        tree = _ast.parse((repo / "func_adl_xAOD/common/executor.py").read_text())
        cls = [n for n in tree.body if isinstance(n, _ast.ClassDef) and n.name == "executor"][0]
        fns = {m.name: m for m in cls.body if isinstance(m, _ast.FunctionDef)}
        apply_o = _marks(fns["apply_ast_transformations"], APPLY_MARKS)
        write_o = _marks(fns["write_cpp_files"], WRITE_MARKS)
        base_jobs = any(isinstance(n, _ast.Call) and isinstance(n.func, _ast.Name) and n.func.id == "generate_script_block" for n in _ast.walk(fns["add_to_replacement_dict"]))
    except Exception as e:
        problems.append(f"common/executor.py: {type(e).__name__}: {e}")
    if base_jobs:
        problems.append("the base executor builds the job script itself")
    out = [
        "/- GENERATED by tools/props/c09.py (generate_exec) from func_adl_xAOD/common/executor.py and the three backend executors — do not edit -/",
        "namespace FaxVerif.C09.ExecSrc",
        "/-- what an executor class fixes: its name in the harness, `file_names` in order, `runner_name`, and whether its",
        "`add_to_replacement_dict` runs `generate_script_block` over the job-script blocks -/",
        "structure BackendSrc where",
        "  name : String",
        "  files : List String",
        "  runner : String",
        "  jobScripts : Bool",
        "deriving Repr, DecidableEq",
        "def backends : List BackendSrc := [",
        ",\n".join(rows),
        "]",
        "/-- the stage markers of `apply_ast_transformations` / `write_cpp_files` in evaluation order -/",
        f"def applyOrder : List String := {L(apply_o)}",
        f"def writeOrder : List String := {L(write_o)}",
        f"def unrecognised : List String := {L(problems)}",
        "end FaxVerif.C09.ExecSrc",
        "",
    ]
    return "\n".join(out)


# ---------------------------------------------------------------- grafts

RAW = lambda fmt, *args: {"k": "raw", "fmt": fmt, "args": list(args)}
PY = lambda kind, op="", nops=0, children=(): {"kind": kind, "op": op, "nops": nops, "children": list(children)}
OKLEAF = PY("Name")

# (name, applies to: 'num' | 'meth', builder(node) -> raw node, model Py or None)
GRAFTS_NUM = [
    ("floordiv", lambda n: RAW("({0} // 2)", n), PY("BinOp", "FloorDiv", 0, [OKLEAF, OKLEAF])),
    ("matmul", lambda n: RAW("({0} @ 2)", n), PY("BinOp", "MatMult", 0, [OKLEAF, OKLEAF])),
    ("lshift", lambda n: RAW("({0} << 1)", n), PY("BinOp", "LShift", 0, [OKLEAF, OKLEAF])),
    ("bitand", lambda n: RAW("({0} & 3)", n), PY("BinOp", "BitAnd", 0, [OKLEAF, OKLEAF])),
    ("bitxor", lambda n: RAW("({0} ^ 3)", n), PY("BinOp", "BitXor", 0, [OKLEAF, OKLEAF])),
    ("invert", lambda n: RAW("(~{0})", n), PY("UnaryOp", "Invert", 0, [OKLEAF])),
    ("cmpchain", lambda n: RAW("(1 if (0 < {0} < 10) else 2)", n), PY("IfExp", "", 0, [PY("Compare", "Lt", 2, [OKLEAF])])),
    ("is", lambda n: RAW("(1 if ({0} is 3) else 2)", n), PY("IfExp", "", 0, [PY("Compare", "Is", 1, [OKLEAF])])),
    ("in", lambda n: RAW("(1 if ({0} in (1, 2)) else 2)", n), PY("IfExp", "", 0, [PY("Compare", "In", 1, [OKLEAF])])),
    ("setdisplay", lambda n: RAW("({{{0}, 1}})", n), PY("Set")),
    ("listcomp", lambda n: RAW("[y for y in ({0},)]", n), PY("ListComp")),
    ("fstring", lambda n: RAW("f'{{{0}}}'", n), PY("JoinedStr")),
    ("value_as_seq_count", lambda n: RAW("{0}.Count()", n), None),
    ("value_as_seq_select", lambda n: RAW("{0}.Select(lambda zz: zz).Count()", n), None),
    ("value_as_seq_first", lambda n: RAW("{0}.First()", n), None),
    ("lambda_value", lambda n: RAW("(lambda zz: {0})", n), None),
]
GRAFTS_METH = [
    ("getAttribute", lambda o, m: RAW("{0}.getAttribute('" + m + "')", o), None),
    ("slice", lambda o, m: RAW("{0}.vs()[0:2].Count()", o), None),
    ("seq_arith", lambda o, m: RAW("({0}.vs() + 1)", o), None),
    ("seq_arith_count", lambda o, m: RAW("({0}.vs() * 2).Count()", o), None),
    ("agg_no_seed", lambda o, m: RAW("{0}.vs().Aggregate(lambda acc, v: acc + v)", o), None),
    ("agg_lambda_seed", lambda o, m: RAW("{0}.vs().Aggregate(lambda v: v, lambda acc, v: acc + v)", o), None),
    ("unknown_seq_op", lambda o, m: RAW("{0}.vs().OrderBy(lambda v: v).Count()", o), None),
]


# arithmetic whose two operands have ONE AND THE SAME unsupported type (a collection with itself, a vector attribute with
# itself, an object with itself, two strings): refused because no operand is a number - not because the types differ
SAME_OPS = [("+", "Add"), ("-", "Sub"), ("*", "Mult"), ("/", "Div")]
GRAFTS_COLL = []
SAME_TOP = []
for _sym, _nm in SAME_OPS:
    GRAFTS_NUM += [
        (f"same_str:{_nm}", (lambda sym: lambda n: RAW(f"('Em' {sym} 'Frac')"))(_sym), None),
    ]
    GRAFTS_METH += [
        (f"same_vec:{_nm}", (lambda sym: lambda o, m: RAW("({0}.vs() " + sym + " {0}.vs())", o))(_sym), None),
        (f"same_vec_count:{_nm}", (lambda sym: lambda o, m: RAW("({0}.vs() " + sym + " {0}.vs()).Count()", o))(_sym), None),
        (f"same_obj:{_nm}", (lambda sym: lambda o, m: RAW("({0} " + sym + " {0})", o))(_sym), None),
        (f"same_kids_count:{_nm}", (lambda sym: lambda o, m: RAW("({0}.kids() " + sym + " {0}.kids()).Count()", o))(_sym), None),
    ]
    # at the place of a collection accessor (its consumer - Select, Where, Count … - is applied to the "sum")
    GRAFTS_COLL += [
        (f"same_coll:{_nm}", (lambda sym: lambda node: RAW("({0}." + node["c"] + "(" + json.dumps(node["bank"]).replace("{", "{{").replace("}", "}}") + ") " + sym
                                                       + " {0}." + node["c"] + "(" + json.dumps(node["bank"]).replace("{", "{{").replace("}", "}}") + "))", node["e"]))(_sym), None),
    ]
    for _shape, _src in [
        ("coll_out", "Select(DSMD, lambda e: (e.As('ba') {op} e.As('ba')))"),
        ("coll_count", "Select(DSMD, lambda e: (e.As('ba') {op} e.As('ba')).Count())"),
        ("coll_select", "Select(DSMD, lambda e: (e.As('ba') {op} e.As('ba')).Select(lambda a: a.d()))"),
        ("vec_out", "Select(DSMD, lambda e: e.As('ba').Select(lambda a: (a.vs() {op} a.vs())))"),
        ("vec_count", "Select(DSMD, lambda e: e.As('ba').Select(lambda a: (a.vs() {op} a.vs()).Count()))"),
        ("obj_out", "Select(DSMD, lambda e: e.As('ba').Select(lambda a: (a {op} a)))"),
        ("obj_first", "Select(DSMD, lambda e: (e.As('ba').First() {op} e.As('ba').First()))"),
        ("str_out", "Select(DSMD, lambda e: ('Em' {op} 'Frac'))"),
        ("str_per_element", "Select(DSMD, lambda e: e.As('ba').Select(lambda a: ('a' {op} 'b')))"),
        ("str_column", "ResultTTree(Select(DSMD, lambda e: (e.As('ba').Count(), 'Em' {op} 'Frac')), ['n', 's'], 't', 'f.root')"),
    ]:
        SAME_TOP.append((f"same_type:{_shape}:{_nm}", _src.replace("{op}", _sym), None))


def _uses(q, x) -> bool:
    if isinstance(q, dict):
        return (q.get("k") == "var" and q.get("n") == x) or any(_uses(v, x) for v in q.values())
    if isinstance(q, list):
        return any(_uses(v, x) for v in q)
    return False


def positions(q, path=(), dead_elem=False, skip=None):
    """paths to numeric scalar nodes and to scalar method-call nodes at LIVE positions: the element expression of
    a sequence whose consumer ignores its variable (`.Select(lambda x: 2.5)`) is never translated, so a construct
    grafted there is not `used` by the query"""
    out = []
    if skip is None:
        skip = qgen.dead_nodes(q)
    if isinstance(q, dict):
        if id(q) in skip:
            return out  # a component of a first-step tuple that no later step looks at
        k = q.get("k")
        if k == "meth" and q["n"] in ("i", "j", "d", "g", "f"):
            out.append(("meth", path))
        if k == "coll":
            out.append(("coll", path))
        if k in ("Count", "Sum") or (k == "bin") or (k == "meth" and q["n"] in ("i", "j", "d", "g", "f")):
            out.append(("num", path))
        ignores = k in ("Select", "Where", "SelectMany", "Aggregate") and "x" in q and not _uses(q.get("f"), q["x"])
        for key, v in q.items():
            if key == "s" and k in ("Select", "Where", "SelectMany", "Aggregate", "Count", "Sum", "First", "Min", "Max"):
                # the elements of the source are dead if this operator ignores them, or if it only passes them on
                # (Where keeps elements: dead iff they were dead for our own consumer) to a consumer that does
                if k == "Where":
                    pass_dead = dead_elem and ignores
                elif k == "Select":
                    pass_dead = dead_elem or ignores
                else:
                    pass_dead = ignores
                out += positions(v, path + (key,), pass_dead, skip)
            elif key == "f" and k == "Select" and dead_elem:
                continue  # this Select's element expression is never looked at
            elif key in ("s", "f", "a", "b", "c", "o", "seed"):
                out += positions(v, path + (key,), False, skip)
            elif key == "es":
                for i, e in enumerate(v):
                    out += positions(e, path + (key, i), False, skip)
    return out


def get_at(q, path):
    for p in path:
        q = q[p]
    return q


def set_at(q, path, new):
    q = copy.deepcopy(q)
    cur = q
    for p in path[:-1]:
        cur = cur[p]
    cur[path[-1]] = new
    return q


def render_raw(q):
    """qgen.render extended with raw nodes"""
    orig = qgen.render

    def R(x):
        if isinstance(x, dict) and x.get("k") == "raw":
            return x["fmt"].format(*[R(a) for a in x["args"]])
        return orig_dispatch(x)

    def orig_dispatch(x):
        # re-implement by temporarily patching qgen.render so that nested calls come back to R
        qgen.render = R
        try:
            return orig(x)
        finally:
            qgen.render = R

    try:
        return R(q)
    finally:
        qgen.render = orig


def render_functional_raw(q, mds):
    def R(c):
        if c["k"] == "ds":
            s = "ds0"
            for d in mds:
                s = f"MetaData({s}, {d!r})"
            return s
        if c["k"] == "raw":
            return c["fmt"].format(*[R(a) if a.get("k") in ("ds", "Select", "Where", "SelectMany") else render_raw(a) for a in c["args"]])
        return f"{c['k']}({R(c['s'])}, lambda {c['x']}: {render_raw(c['f'])})"

    return R(q)


TOP_CASES = [
    ("top_not_call", "ds0", None),
    ("top_lambda", "(lambda e: e)", None),
    ("md_no_type", "Select(MetaData(ds0, {'name': 'x'}), lambda e: 1)", None),
    ("md_unknown_type", "Select(MetaData(ds0, {'metadata_type': 'no_such_kind'}), lambda e: 1)", None),
    ("md_extra_key", "Select(MetaData(ds0, {'metadata_type': 'add_atlas_event_collection_info', 'name': 'X', 'include_files': [], 'container_type': 'C', 'element_type': 'E', 'contains_collection': True, 'bogus': 1}), lambda e: 1)", "atlas"),
    # a key that only ANOTHER backend's collection declaration knows is an unknown key here
    ("md_foreign_key:atlas_element_pointer", "Select(MetaData(ds0, {'metadata_type': 'add_atlas_event_collection_info', 'name': 'X', 'include_files': [], 'container_type': 'C', 'element_type': 'E', 'contains_collection': True, 'element_pointer': False}), lambda e: 1)", "atlas"),
    ("md_foreign_key:cms_aod_link_libraries", "Select(MetaData(ds0, {'metadata_type': 'add_cms_aod_event_collection_info', 'name': 'X', 'include_files': [], 'container_type': 'C', 'element_type': 'E', 'contains_collection': True, 'element_pointer': False, 'link_libraries': ['L']}), lambda e: 1)", "cms_aod"),
    ("md_foreign_key:cms_miniaod_link_libraries", "Select(MetaData(ds0, {'metadata_type': 'add_cms_miniaod_event_collection_info', 'name': 'X', 'include_files': [], 'container_type': 'C', 'element_type': 'E', 'contains_collection': True, 'element_pointer': False, 'link_libraries': ['L']}), lambda e: 1)", "cms_miniaod"),
    ("md_extra_key:cms_aod", "Select(MetaData(ds0, {'metadata_type': 'add_cms_aod_event_collection_info', 'name': 'X', 'include_files': [], 'container_type': 'C', 'element_type': 'E', 'contains_collection': True, 'bogus': 1}), lambda e: 1)", "cms_aod"),
    ("md_elem_mismatch", "Select(MetaData(ds0, {'metadata_type': 'add_atlas_event_collection_info', 'name': 'X', 'include_files': [], 'container_type': 'C', 'contains_collection': True}), lambda e: 1)", "atlas"),
    ("md_inject_unknown_field", "Select(MetaData(ds0, {'metadata_type': 'inject_code', 'name': 'b', 'no_such_field': ['x']}), lambda e: 1)", None),
    ("md_jobscript_missing_dep", "Select(MetaData(ds0, {'metadata_type': 'add_job_script', 'name': 'a', 'script': ['x'], 'depends_on': ['nope']}), lambda e: 1)", "atlas"),
    ("raw_objects_out", "Select(MetaData(ds0, {}), lambda e: 1)", "skip"),
    ("too_many_names", "ResultTTree(Select(ds0, lambda e: (1, 2)), ['a', 'b', 'c'], 't', 'f.root')", None),
    ("too_few_names", "ResultTTree(Select(ds0, lambda e: (1, 2)), ['a'], 't', 'f.root')", None),
    ("too_many_names_scalar", "ResultTTree(Select(ds0, lambda e: 1), ['a', 'b'], 't', 'f.root')", None),
    ("too_many_names_single_vector", "ResultTTree(Select(DSMD, lambda e: e.As('ba').Select(lambda a: a.d())), ['a', 'b'], 't', 'f.root')", None),
    ("too_many_names_per_element", "ResultTTree(Select(SelectMany(DSMD, lambda e: e.As('ba')), lambda a: a.d()), ['a', 'b', 'c'], 't', 'f.root')", None),
    ("no_names", "ResultTTree(Select(ds0, lambda e: 1), [], 't', 'f.root')", None),
]

# unsupported constructs INSIDE the arguments of a call that the plug-in pre-pass rewrites
# (built-in DeltaR, a user function declared with add_cpp_function)
USERFN = {"metadata_type": "add_cpp_function", "name": "myf", "include_files": [], "arguments": ["x", "y"],
          "code": ["auto result = x + y;"], "return_type": "double"}
INSIDE = [
    ("floordiv", "({0} // 2)"), ("cmpchain", "(1 if (0 < {0} < 10) else 2)"), ("invert", "(~{0})"), ("matmul", "({0} @ 2)"),
    ("setdisplay", "({{{0}, 1}})"), ("value_as_seq", "{0}.Count()"), ("seq_arith", "(a.vs() + {0})"), ("slice", "a.vs()[0:2].Count()"),
]
ARG_CASES = []
for gname, fmt in INSIDE:
    g = fmt.format("a.d()")
    ARG_CASES.append((f"in_DeltaR_arg:{gname}", f"Select(DSMD, lambda e: e.As('ba').Select(lambda a: DeltaR({g}, a.g(), a.d(), a.g())))", None))
    ARG_CASES.append((f"in_userfn_arg:{gname}", f"Select(MetaData(DSMD, {USERFN!r}), lambda e: e.As('ba').Select(lambda a: myf(a.g(), {g})))", None))
ARG_CASES.append(("in_DeltaR_arg:getAttribute", "Select(DSMD, lambda e: e.As('ba').Select(lambda a: DeltaR(a.getAttribute('x'), a.g(), a.d(), a.g())))", "atlas"))
ARG_CASES.append(("in_userfn_arg:getAttribute", f"Select(MetaData(DSMD, {USERFN!r}), lambda e: e.As('ba').Select(lambda a: myf(2.0 * a.getAttribute('x'), a.g())))", "atlas"))
ARG_CASES.append(("in_userfn_nested:getAttribute", f"Select(MetaData(DSMD, {USERFN!r}), lambda e: e.As('ba').Select(lambda a: myf(myf(a.d(), a.getAttribute('x')), a.g())))", "atlas"))
TOP_CASES += ARG_CASES
TOP_CASES += SAME_TOP


def gen_cases(ctx, n):
    cases = []
    for i in range(n):
        b = P.BACKENDS[i % 3]
        host = cgroup.gen_case(ctx.rng, backend=b, nevents=1)
        pos = positions(host.query)
        if not pos:
            continue
        kind, path = ctx.rng.choice(pos)
        if kind == "coll" and ctx.rng.random() < 0.65 and any(p[0] != "coll" for p in pos):
            kind, path = ctx.rng.choice([p for p in pos if p[0] != "coll"])  # accessors are many: keep them a modest share
        node = get_at(host.query, path)
        if kind == "coll":
            name, build, py = ctx.rng.choice(GRAFTS_COLL)
            new = build(node)
        elif kind == "meth":
            # the templated getAttribute is an ATLAS (xAOD jet) refusal; elsewhere it is an ordinary unknown method
            # … and it is only refused on a plain-name receiver (on an indexed element it is accepted: listed finding)
            name, build, py = ctx.rng.choice([g for g in GRAFTS_METH if g[0] != "getAttribute" or (b == "atlas" and node["o"].get("k") == "var")])
            new = build(node["o"], node["n"])
        else:
            name, build, py = ctx.rng.choice(GRAFTS_NUM)
            new = build(node)
        q2 = set_at(host.query, path, new)
        cases.append({"backend": b, "graft": name, "query": q2, "host": host.query, "py": py, "src": render_functional_raw(q2, [])})
    # raw objects as output
    for b in P.BACKENDS:
        cases.append({"backend": b, "graft": "raw_objects_select", "query": None, "host": None, "py": None,
                      "src": 'Select(ds0, lambda e: e.As("ba"))', "with_md": True})
        for name, src, only in TOP_CASES:
            if only == "skip" or (only and only != b):
                continue
            cases.append({"backend": b, "graft": name, "query": None, "host": None, "py": None, "src": src})
    return cases


def run_case(c):
    mds = qgen.metadata(c["backend"])
    if c["query"] is not None:
        src = render_functional_raw(c["query"], mds)
    elif c.get("with_md"):
        src = c["src"].replace("ds0", _md_src(mds))
    else:
        src = c["src"].replace("DSMD", _md_src(mds))
    return P.translate_functional(c["backend"], src)


def _md_src(mds):
    s = "ds0"
    for d in mds:
        s = f"MetaData({s}, {d!r})"
    return s


def judge_case(ctx, c, r):
    key = f"{c['backend']}|{c['graft']}|{c['src']}"
    ctx.count(f"graft:{c['graft']}")
    ctx.count("outcome:" + ("refused" if not r["ok"] else "ACCEPTED"))
    nontrivial = c["host"] is None or len(qgen.ops_used(c["host"])) >= 2
    ctx.case(key, nontrivial, {"backend": c["backend"], "graft": c["graft"], "query": c["src"], "outcome": r.get("error", "accepted")})
    if r["ok"]:
        ctx.violation(
            key=key,
            what=f"a query using an unsupported construct ({c['graft']}) is accepted and a package is returned",
            case={"backend": c["backend"], "graft": c["graft"], "source": c["src"]},
            observed={"generated_code": r["query"]},
            how="translate `source` (with the synthetic metadata of tools/qgen.py wrapped around ds0) on `backend`",
        )
    elif r["error"].startswith("frontend:"):
        # the graft made the text unparsable for Python itself: a harness error, not a verdict
        ctx.count("harness:python-syntax")


# ================================================================ wrong-arity calls
# Callees with a FIXED parameter list. A case is (host query, live position, callee, number of arguments written,
# call style written); its *twin* is the same graft with the declared arity and style. The twin must be accepted
# for the case to count (otherwise the refusal says nothing about arity), the case itself must be refused.

ARG_POOL = ["{0}", "{0}", "1.5", "2", "({0} + 1)"]


def _args(rng, n, first="{0}"):
    return ([first] + [rng.choice(ARG_POOL) for _ in range(n - 1)]) if n > 0 else []


def _user_spec(name, k, method, et):
    ps = ["pa", "pb", "pc"][:k]
    d = {"metadata_type": "add_cpp_function", "name": name, "include_files": [], "arguments": ps,
         "code": ["auto result = " + " + ".join((["vpo->d()"] if method else []) + ps or ["1.0"]) + ";"], "return_type": "double"}
    if method:
        d["method_object"] = "vpo"
        d["instance_object"] = et
    return d


def _callees(b):
    """(kind, declared arity, declared as method?, style can be flipped?, where it can be grafted)"""
    cs = [("userfn", None, False, True, "num"), ("usermeth", None, True, True, "meth"), ("DeltaR", 4, False, True, "num"),
          ("collection", 1, True, False, "coll"), ("Range", 2, False, False, "num"), ("First", 0, True, False, "meth"),
          ("Count", 0, True, False, "meth")]
    if b == "atlas":
        cs += [("getAttributeFloat", 1, True, True, "meth"), ("getAttributeVectorFloat", 1, True, True, "meth")]
    return cs


def _call_text(kind, name, n, as_method, rng):
    """format string of the grafted expression: {0} = the host's numeric node, {1} = the receiver (a plain name)"""
    if kind in ("userfn", "usermeth", "DeltaR"):
        a = ", ".join(_args(rng, n))
        return f"{{1}}.{name}({a})" if as_method else f"{name}({a})"
    if kind in ("getAttributeFloat", "getAttributeVectorFloat"):
        a = ", ".join(_args(rng, n, first="'w'"))
        call = f"{{1}}.{kind}({a})" if as_method else f"{kind}({a})"
        return call if kind == "getAttributeFloat" else call + ".Count()"
    if kind == "Range":
        a = ", ".join((["0", "3", "1", "2"])[:n])
        return f"({{0}} + Range({a}).Count())"
    if kind in ("First", "Count"):
        a = ", ".join(_args(rng, n))
        return f"{{1}}.vs().{kind}({a})"
    raise ValueError(kind)


def _graft_fmt(kind, name, n, as_method, rng):
    """format string of the graft; {0} = the host node (for a collection accessor: the event), {1} = the receiver,
    {2} = the bank name the host asked for"""
    if kind == "collection":
        return "{0}.{3}(" + ", ".join((["{2}"] + [json.dumps(x) for x in ("bb", "ba2", "zz")])[:n]) + ")"
    return _call_text(kind, name, n, as_method, rng)


def _arity_render(c, host_q, path):
    """the case `c` (callee, counts, styles, format strings) grafted at `path` of `host_q`"""
    node = get_at(host_q, path)
    b = c["backend"]

    def graft(fmt):
        if c["where"] == "coll":
            return RAW(fmt.replace("{2}", json.dumps(node["bank"]).replace("{", "{{").replace("}", "}}")).replace("{3}", node["c"]), node["e"])
        return RAW(fmt, node, node["o"] if node.get("k") == "meth" else {"k": "var", "n": "zz_no_receiver"})

    bad, twin = set_at(host_q, path, graft(c["fmt"])), set_at(host_q, path, graft(c["twin_fmt"]))
    base = qgen.metadata(b) + c["extra"]
    if c["where"] == "coll":
        c = dict(c, callee=node["c"])
    return dict(c, host=host_q, path=list(path), src=render_functional_raw(bad, c["extra"]), twin_src=render_functional_raw(twin, c["extra"]),
                full_source=render_functional_raw(bad, base), twin_full=render_functional_raw(twin, base))


MIN_HOST = {"k": "Select", "s": {"k": "ds"}, "x": "e1", "f": {"k": "Select", "s": {"k": "coll", "e": {"k": "var", "n": "e1"}, "c": "As", "bank": "ba"},
                                                               "x": "x2", "f": {"k": "meth", "o": {"k": "var", "n": "x2"}, "n": "d"}}}


def gen_arity_cases(ctx, n):
    rng = ctx.rng
    cases = []
    for i in range(n):
        b = P.BACKENDS[i % 3]
        host = cgroup.gen_case(rng, backend=b, nevents=1)
        pos = positions(host.query)
        have = {k for k, _ in pos}
        cands = [c for c in _callees(b) if c[4] in have]
        if not cands:
            continue
        kind, k, is_meth, flip, where = rng.choice(cands)
        # a method-style graft needs a plain name as receiver (the plug-in pass only recognises those)
        ps = [p for kk, p in pos if kk == where and (where != "meth" or get_at(host.query, p)["o"].get("k") == "var")]
        if flip and not is_meth:
            ps_meth = [p for kk, p in pos if kk == "meth" and get_at(host.query, p)["o"].get("k") == "var"]
        else:
            ps_meth = ps
        if not ps:
            continue
        extra = []
        name = kind
        if k is None:
            k = rng.randint(0, 3) if kind == "userfn" else rng.randint(0, 2)
            name = f"vp{'m' if is_meth else 'f'}{k}"
            extra = [_user_spec(name, k, is_meth, qgen.elem_type(b, "As"))]
        # what is written: mostly a wrong count in the declared style; sometimes the wrong style
        nargs = rng.choice([x for x in range(0, k + 3) if x != k])
        as_meth = is_meth
        r = rng.random()
        if flip and r < 0.2 and (is_meth or ps_meth):
            as_meth = not is_meth
            if r < 0.12:
                nargs = k
            if as_meth:
                ps = ps_meth
        path = rng.choice(ps)
        node = get_at(host.query, path)
        st = rng.getstate()
        fmt = _graft_fmt(kind, name, nargs, as_meth, rng)
        rng.setstate(st)  # the twin draws the same argument expressions
        twin_fmt = _graft_fmt(kind, name, k, is_meth, rng)
        c = {"family": "arity", "backend": b, "graft": f"arity:{kind}", "callee": name, "arity": k, "is_method": is_meth,
             "nargs": nargs, "as_method": as_meth, "host": host.query, "extra": extra, "fmt": fmt, "twin_fmt": twin_fmt, "where": where}
        cases.append(_arity_render(c, host.query, path))
    # the output call itself: ResultTTree(source, names, tree, file)
    for b in P.BACKENDS:
        full = ["Select(DSMD, lambda e: e.As('ba').Count())", "['n']", "'t'", "'f.root'", "5", "'x'"]
        for nargs in (2, 3, 5, 6):
            src = f"ResultTTree({', '.join(full[:nargs])})"
            twin = f"ResultTTree({', '.join(full[:4])})"
            mds = _md_src(qgen.metadata(b))
            cases.append({"family": "arity", "backend": b, "graft": "arity:ResultTTree", "callee": "ResultTTree", "arity": 4, "is_method": False,
                          "nargs": nargs, "as_method": False, "host": None, "extra": [], "src": src.replace("DSMD", "ds0"), "twin_src": twin.replace("DSMD", "ds0"),
                          "full_source": src.replace("DSMD", mds), "twin_full": twin.replace("DSMD", mds)})
    return cases


# ================================================================ malformed metadata
# A case is a valid host query + well-formed extra metadata blocks with ONE malformation, the blocks spread over
# random places of the metadata chain (between the declarations of the data model around the dataset, and around
# later operators of the top-level chain). The twin carries the same blocks without the malformation.

INJECT_FIELDS = ["body_includes", "header_includes", "private_members", "instance_initialization", "ctor_lines", "initialize_lines", "link_libraries"]
NEAR_MISS = [lambda k: k + "s", lambda k: k[:-1], lambda k: k.replace("_", "-"), lambda k: k.upper(), lambda k: k.replace("_", "")]
STRAY_KEYS = ["bogus", "comment", "depends_on", "link_libraries", "element_pointer", "include_files", "script", "priority"]


def _js(name, script, deps):
    return {"metadata_type": "add_job_script", "name": name, "script": list(script), "depends_on": list(deps)}


def gen_job_blocks(rng):
    """(well-formed blocks, malformed blocks, what was done). Names depend on EARLIER names only (a DAG); copies of a
    block repeat its script and may carry other (earlier) dependencies."""
    names = rng.sample(["calib", "setup", "tools", "syst", "out"], rng.randint(1, 4))
    script = {n: [f"# vp {n} line {j}" for j in range(rng.randint(0, 2))] for n in names}
    blocks = []
    for i, n in enumerate(names):
        for _ in range(rng.choice([1, 1, 1, 2, 3])):
            blocks.append(_js(n, script[n], rng.sample(names[:i], rng.randint(0, min(2, i)))))
    rng.shuffle(blocks)
    bad = copy.deepcopy(blocks)
    how = rng.choice(["conflict", "conflict", "dangling", "dangling", "cycle", "cycle"])
    victim = rng.randrange(len(bad))
    as_copy = rng.random() < 0.6 or how == "conflict"
    tgt = copy.deepcopy(bad[victim]) if as_copy else bad[victim]
    if how == "conflict":
        sc = tgt["script"]
        edit = rng.choice(["append", "drop", "change", "swap"] if len(sc) >= 2 else ["append", "drop", "change"] if sc else ["append"])
        if edit == "append":
            sc.insert(rng.randint(0, len(sc)), "# vp another line")
        elif edit == "drop":
            sc.pop(rng.randrange(len(sc)))
        elif edit == "change":
            j = rng.randrange(len(sc))
            sc[j] = sc[j] + " v2"
        else:
            sc.reverse()
        tgt["depends_on"] = list(tgt["depends_on"]) if rng.random() < 0.7 else []
    elif how == "dangling":
        tgt["depends_on"].insert(rng.randint(0, len(tgt["depends_on"])), rng.choice(["never_sent", "Calib", "setup2", ""]))
    else:
        # a circle: the victim depends on itself, or on a name that (then) depends on it
        i = names.index(tgt["name"])
        other = rng.choice(names[i:])
        tgt["depends_on"].append(other)
        if other != tgt["name"]:
            bad.insert(rng.randint(0, len(bad)), _js(other, script[other], [tgt["name"]]))
    if as_copy:
        bad.insert(rng.randint(0, len(bad)), tgt)
    return blocks, bad, how


def _ib(name, fields):
    d = {"metadata_type": "inject_code", "name": name}
    d.update(fields)
    return d


def gen_inject_blocks(rng):
    names = rng.sample(["vp_tool", "vp_corr", "vp_hist"], rng.randint(1, 3))
    body = {}
    for n in names:
        fs = rng.sample(INJECT_FIELDS, rng.randint(1, 2))
        body[n] = {f: [f"// vp {n} {f} {j}" for j in range(rng.randint(1, 2))] for f in fs}
    blocks = [_ib(n, copy.deepcopy(body[n])) for n in names for _ in range(rng.choice([1, 1, 2]))]
    rng.shuffle(blocks)
    bad = copy.deepcopy(blocks)
    tgt = copy.deepcopy(rng.choice(bad))
    fs = [f for f in INJECT_FIELDS if f in tgt]
    edit = rng.choice(["line", "extra_line", "drop_line", "move", "add_field", "drop_field"])
    f = rng.choice(fs)
    if edit == "line":
        tgt[f][rng.randrange(len(tgt[f]))] += " v2"
    elif edit == "extra_line":
        tgt[f].insert(rng.randint(0, len(tgt[f])), "// vp more")
    elif edit == "drop_line":
        tgt[f].pop(rng.randrange(len(tgt[f])))  # an emptied field equals the default: still differs from the kept block
    elif edit == "move":
        dest = rng.choice([x for x in INJECT_FIELDS if x not in tgt])
        tgt[dest] = tgt.pop(f)
    elif edit == "add_field":
        tgt[rng.choice([x for x in INJECT_FIELDS if x not in tgt])] = ["// vp added"]
    else:
        tgt.pop(f)
    bad.insert(rng.randint(0, len(bad)), tgt)
    return blocks, bad, "inject_conflict:" + edit


def md_bases(b):
    et = qgen.elem_type(b, "As")
    coll = {"metadata_type": qgen.MDTYPE[b], "name": "Cs", "include_files": ["vp/Cc.h"], "container_type": f"{qgen.PREFIX[b]}::Cc{qgen.CONT[b]}",
            "element_type": f"{qgen.PREFIX[b]}::Cc", "contains_collection": True}
    return [
        _js("vpjs", ["# vp"], []),
        {"metadata_type": "add_cpp_function", "name": "vpq", "include_files": [], "arguments": ["x"], "code": ["auto result = x;"], "return_type": "double"},
        {"metadata_type": "add_method_type_info", "type_string": et, "method_name": "q", "return_type": "int"},
        {"metadata_type": "add_method_type_info", "type_string": et, "method_name": "qs", "return_type_element": "double"},
        {"metadata_type": "define_enum", "namespace": "VpNs", "name": "Color", "values": ["red", "green"]},
        {"metadata_type": "inject_code", "name": "vpi", "body_includes": ["vp.h"]},
        coll,
    ]


REQUIRED = {
    "add_job_script": ["name", "script"],
    "add_cpp_function": ["name", "include_files", "arguments", "code", "return_type"],
    "add_method_type_info": ["type_string", "method_name", "return_type", "return_type_element"],
    "define_enum": ["namespace", "name", "values"],
    "inject_code": ["name"],
}
COLL_REQUIRED = ["name", "include_files", "container_type", "contains_collection"]


def gen_key_blocks(rng, b):
    base = copy.deepcopy(rng.choice(md_bases(b)))
    ty = base["metadata_type"]
    closed = ty == "inject_code" or ty.endswith("_event_collection_info")
    bad = copy.deepcopy(base)
    hows = ["drop_required", "misspell_required", "unknown_type", "no_type"] + (["stray_key", "stray_key"] if closed else []) + (["elem_mismatch"] if ty.endswith("_event_collection_info") else [])
    how = rng.choice(hows)
    req = [k for k in REQUIRED.get(ty, COLL_REQUIRED) if k in bad]
    if how == "drop_required":
        del bad[rng.choice(req)]
    elif how == "misspell_required":
        k = rng.choice(req)
        k2 = rng.choice([m(k) for m in NEAR_MISS if m(k) != k and m(k) not in bad])
        bad[k2] = bad.pop(k)
    elif how == "stray_key":
        bad[rng.choice([k for k in STRAY_KEYS if k not in bad and not (ty == "inject_code" and k in INJECT_FIELDS) and not (k == "link_libraries" and b == "atlas") and not (k == "element_pointer" and b != "atlas")])] = rng.choice([1, ["x"], "x", True])
    elif how == "unknown_type":
        bad["metadata_type"] = rng.choice([m(ty) for m in NEAR_MISS + [lambda k: "", lambda k: "add_" + k, lambda k: k.split("_", 1)[-1]] if m(ty) != ty])
    elif how == "no_type":
        v = bad.pop("metadata_type")
        r = rng.random()
        if r < 0.3:
            bad[rng.choice(["metadata-type", "type", "metadata_types"])] = v
        elif r < 0.5:
            bad["metadata_type"] = rng.choice([None, 5])
    else:
        if b == "atlas" and rng.random() < 0.5:
            del bad["element_type"]
        else:
            bad["contains_collection"] = False
    return [base], [bad], f"{how}:{ty}"


def place(rng, host_q, b, blocks):
    """spread `blocks` over the metadata chain: level 0 = among the data-model declarations around ds0 (at a random
    index), level i = around the i-th operator of the top-level chain. Returns (levels, sort keys)"""
    depth = 0
    cur = host_q
    while cur["k"] != "ds":
        depth += 1
        cur = cur["s"]
    return [(rng.choice([0, 0, 0] + list(range(1, depth + 1))), rng.random()) for _ in blocks]


def render_placed(host_q, base, blocks, places):
    chain, cur = [], host_q
    while cur["k"] != "ds":
        chain.append(cur)
        cur = cur["s"]
    chain.reverse()
    nb = max(len(base), 1)
    lvl0 = sorted([((i + 0.5) / nb, 0, d) for i, d in enumerate(base)] + [(r, 1 + j, d) for j, (d, (l, r)) in enumerate(zip(blocks, places)) if l == 0], key=lambda t: (t[0], t[1]))
    s = "ds0"
    for _, _, d in lvl0:
        s = f"MetaData({s}, {d!r})"
    for i, c in enumerate(chain, 1):
        s = f"{c['k']}({s}, lambda {c['x']}: {render_raw(c['f'])})"
        for d, (l, r) in sorted(zip(blocks, places), key=lambda t: t[1][1]):
            if l == i:
                s = f"MetaData({s}, {d!r})"
    return s


def gen_md_cases(ctx, n):
    rng = ctx.rng
    cases = []
    for i in range(n):
        b = P.BACKENDS[i % 3]
        host = cgroup.gen_case(rng, backend=b, nevents=1)
        fam = rng.choice(["job"] * 5 + ["inject", "keys"] if b == "atlas" else ["inject", "keys", "keys"])
        if fam == "job":
            good, bad, how = gen_job_blocks(rng)
        elif fam == "inject":
            good, bad, how = gen_inject_blocks(rng)
        else:
            good, bad, how = gen_key_blocks(rng, b)
        places = place(rng, host.query, b, bad)
        # the twin keeps the places of the blocks it shares with the malformed list
        if len(good) == len(bad):
            gplaces = places
        else:
            keep = _common_places(good, bad, places, rng, host.query, b)
            gplaces = keep
        cases.append(_md_render({"family": "metadata", "backend": b, "graft": f"md:{fam}:{how}", "md_family": fam}, host.query, bad, places, good, gplaces))
    return cases


def _md_render(c, host_q, bad, places, good, gplaces):
    base = qgen.metadata(c["backend"])
    return dict(c, host=host_q, blocks=bad, good=good, places=places, gplaces=gplaces,
                src=render_placed(host_q, [], bad, places), twin_src=render_placed(host_q, [], good, gplaces),
                full_source=render_placed(host_q, base, bad, places), twin_full=render_placed(host_q, base, good, gplaces),
                all_mds=base + bad)


def _common_places(good, bad, places, rng, host_q, b):
    """places for the twin: each good block takes the place of a bad block of the same name (in order), else a new one"""
    used, out = set(), []
    for g in good:
        j = next((j for j, x in enumerate(bad) if j not in used and x.get("name") == g.get("name")), None)
        if j is None:
            out.append(place(rng, host_q, b, [g])[0])
        else:
            used.add(j)
            out.append(places[j])
    return out


def _md_req(d):
    ty = d.get("metadata_type") if isinstance(d.get("metadata_type"), str) else None
    return {"ty": ty, "keys": [k for k in d if k != "metadata_type"], "cc": bool(d.get("contains_collection"))}


def md_requests(c):
    """the Spec / model questions one metadata case raises"""
    reqs = [{"op": "md", "mds": [_md_req(d) for d in c["all_mds"]]}]
    if c["md_family"] == "job":
        reqs.append({"op": "job", "blocks": [{"name": d["name"], "script": d["script"], "deps": d.get("depends_on", [])} for d in c["blocks"]]})
    if c["md_family"] == "inject":
        reqs.append({"op": "inject", "blocks": [{"name": d["name"], "fields": [list(d.get(f, [])) for f in INJECT_FIELDS]} for d in c["blocks"]]})
    return reqs


def _requests(c):
    if c["family"] == "arity":
        return [{"op": "call", "arity": c["arity"], "is_method": c["is_method"], "nargs": c["nargs"], "as_method": c["as_method"]}]
    return md_requests(c)


def spec_verdicts(ctx, cases):
    """per case: the Spec predicate on the input (`malformed`) and the model's verdict (`refuses`), from the driver"""
    reqs, owner = [], []
    for idx, c in enumerate(cases):
        rs = _requests(c)
        reqs += rs
        owner += [idx] * len(rs)
    ans = ctx.driver(DRIVER, reqs)
    out = [{"malformed": False, "refuses": False, "bad": False, "why": []} for _ in cases]
    for idx, a in zip(owner, ans):
        v = out[idx]
        if "bad" in a:
            v["bad"] = True
            continue
        v["malformed"] |= a["malformed"]
        v["refuses"] |= a["refuses"]
        v["why"] += [k for k in ("conflict", "missing", "cyclic") if a.get(k)][:1]
    return out


def _describe(c, v):
    case = {"backend": c["backend"], "graft": c["graft"], "source": c["src"], "full_source": c["full_source"]}
    if c["family"] == "arity" or c.get("good"):
        case["well_formed_twin"] = c["twin_src"]
    if c["family"] == "arity":
        case.update({k: c[k] for k in ("callee", "arity", "is_method", "nargs", "as_method")})
        what = (f"a call of {c['callee']} ({c['arity']} declared parameter(s), a {'method' if c['is_method'] else 'function'}) written with {c['nargs']} argument(s) "
                f"as a {'method' if c['as_method'] else 'function'} is accepted and a package is returned")
    else:
        case.update({"metadata_blocks": c["blocks"]})
        why = "/".join(v["why"])
        what = f"malformed metadata ({c['graft'][3:]}{': ' + why if why and why not in c['graft'] else ''}) is accepted and a package is returned"
    return case, what


def _fails(ctx, cands):
    """of the candidate cases, the first that is malformed (Spec) and nevertheless translated (implementation)"""
    if not cands:
        return None
    for c, v in zip(cands, spec_verdicts(ctx, cands)):
        if v["malformed"] and not v["bad"]:
            r = P.translate_functional(c["backend"], c["full_source"])
            if r["ok"]:
                return c, v, r
    return None


def shrink(ctx, c, v, r):
    """a smaller failing case: the minimal host query, then as few metadata blocks as still fail"""
    if c.get("host") is None:
        return c, v, r
    if c["family"] == "arity":
        path = ("f", "s") if c["where"] == "coll" else ("f", "f")
        return _fails(ctx, [_arity_render(c, MIN_HOST, path)]) or (c, v, r)
    cur = _fails(ctx, [_md_render(c, MIN_HOST, c["blocks"], [(0, p[1]) for p in c["places"]], c["good"], [(0, p[1]) for p in c["gplaces"]])]) or (c, v, r)
    for _ in range(8):
        cc = cur[0]
        if len(cc["blocks"]) <= 1:
            break
        cands = []
        for j in range(len(cc["blocks"])):
            bad = cc["blocks"][:j] + cc["blocks"][j + 1:]
            places = cc["places"][:j] + cc["places"][j + 1:]
            cands.append(_md_render(cc, cc["host"], bad, places, [], []))
        nxt = _fails(ctx, cands)
        if nxt is None:
            break
        cur = nxt
    return cur


def run_new_streams(ctx, cases, judge=True):
    """arity and metadata cases: run case and twin on the real pipeline, ask the driver for the Spec predicate
    (`malformed`) and the model's verdict, evaluate `refusedIfMalformed` on the observed outcome"""
    verdicts = spec_verdicts(ctx, cases)
    shrunk = 0
    for c, v in zip(cases, verdicts):
        r = P.translate_functional(c["backend"], c["full_source"])
        t = P.translate_functional(c["backend"], c["twin_full"])
        key = f"{c['backend']}|{c['graft']}|{c['src']}"
        ctx.count("graft:" + ":".join(c["graft"].split(":")[:3]))
        ctx.count("outcome:" + ("refused" if not r["ok"] else "ACCEPTED"))
        ctx.count(f"twin:{c['family']}:" + ("accepted" if t["ok"] else "refused"))
        if v["bad"]:
            ctx.count("harness:driver-bad-answer")
            continue
        if c["family"] == "arity":
            ctx.count(f"arity:declared={c['arity']},written={c['nargs']}" + ("" if c["as_method"] == c["is_method"] else ",style-flipped"))
        sample = {"backend": c["backend"], "graft": c["graft"], "query": c["src"], "outcome": r.get("error", "accepted"), "well-formed twin": t.get("error", "accepted")}
        # non-trivial: the well-formed twin is translated, so the one malformation is what is being refused
        ctx.case(key, t["ok"], sample)
        case, what = _describe(c, v)
        if v["malformed"] and r["ok"]:
            if shrunk < 2:
                shrunk += 1
                c2, v2, r2 = shrink(ctx, c, v, r)
                case, what = _describe(c2, v2)
                key, r = f"{c2['backend']}|{c2['graft']}|{c2['src']}", r2
            obs = {"generated_code": r["query"]}
            if r.get("job_option_additions") is not None:
                obs["job_option_additions"] = r["job_option_additions"]
            ctx.violation(key=key, what=what, case=case, observed=obs, how="translate `full_source` on `backend`: ./check C09 --replay <this file>")
            continue
        if not v["malformed"]:
            # the generator meant to break something and the Spec does not see it: a slip of the harness, never a verdict
            ctx.count("harness:not-malformed")
            continue
        if v["refuses"] != (not r["ok"]):
            ctx.disagreement(f"{c['family']} model vs translator (refuses?)", case, "refuses" if v["refuses"] else "accepts", "refused" if not r["ok"] else "accepted")
        if c["family"] == "metadata" and not t["ok"] and c.get("host") is not None and not P.translate_functional(c["backend"], render_placed(c["host"], qgen.metadata(c["backend"]), [], []))["ok"]:
            # the HOST query (no extra block at all) is refused by the translator: the shared generator produced a query outside the
            # supported fragment (e.g. a shadowed lambda parameter) - nothing to learn about metadata from this case
            ctx.count("harness:host-refused")
        elif c["family"] == "metadata" and not t["ok"]:
            ctx.disagreement("metadata model vs translator (well-formed twin)", dict(case, full_source=c["twin_full"]), "accepts", f"refused: {t['error']}: {t['message'][:200]}")


# ================================================================ executor level (ExecModel.lean)
# One translation = apply_ast_transformations + write_cpp_files on a FRESH output directory. A case is a history of one
# or two queries on ONE executor; every query is a generated chain with extra metadata blocks spread over it, several
# call sites of callees with a fixed parameter list, and zero, one or several malformations at different stages. The
# model (`Exec.run`, through the driver) predicts: refused?, the class of the error that surfaces and - for metadata and
# call sites - its position, the listing of the output directory, whether the runner is executable, the job-script /
# inject blocks the executor holds afterwards, and the job-script lines of an accepted package. The harness observes all
# of that on the real executors (three backends) and evaluates the Spec clauses on the observation.

import os
import shutil
import tempfile
import traceback

SUR = "\ud800"  # cannot be written out as UTF-8: the file in whose text it lands is truncated


def _pre_order_metadata(a):
    """the dictionaries of the MetaData calls in pre-order (function before arguments, arguments in order): the order the
    model assumes `extract_metadata` delivers them in (outermost first)"""
    out = []

    def walk(n):
        if isinstance(n, _ast.Call) and isinstance(n.func, _ast.Name) and n.func.id == "MetaData" and len(n.args) == 2:
            out.append(_ast.literal_eval(n.args[1]))
            walk(n.args[0])
            return
        for _, v in _ast.iter_fields(n):
            for x in v if isinstance(v, list) else [v]:
                if isinstance(x, _ast.AST):
                    walk(x)

    walk(a)
    return out


def _post_order_calls(a):
    """candidate call sites (function = a plain name, or an attribute of a plain name) in post-order"""
    out = []

    def walk(n):
        for _, v in _ast.iter_fields(n):
            for x in v if isinstance(v, list) else [v]:
                if isinstance(x, _ast.AST):
                    walk(x)
        if isinstance(n, _ast.Call):
            f = n.func
            first_str = bool(n.args) and isinstance(n.args[0], _ast.Constant) and isinstance(n.args[0].value, str)
            if type(f) is _ast.Attribute and type(f.value) is _ast.Name:
                out.append({"name": f.attr, "nargs": len(n.args), "as_method": True, "str_arg": first_str})
            elif type(f) is _ast.Name:
                out.append({"name": f.id, "nargs": len(n.args), "as_method": False, "str_arg": first_str})

    walk(a)
    return out


def _top_shape(a):
    has_ds = any(isinstance(n, _ast.Call) and isinstance(n.func, _ast.Name) and n.func.id == "EventDataset" for n in _ast.walk(a))
    if not has_ds:
        return "noDataset"
    if not isinstance(a, _ast.Call):
        return "notCall"
    if not isinstance(a.func, _ast.Name):
        return "callNotName"
    return "resultTTree" if a.func.id == "ResultTTree" else "otherCall"


def _item_req(d):
    r = _md_req(d)
    ty = r["ty"]
    name = d.get("name") if isinstance(d.get("name"), str) else ""
    r["name"] = name
    if ty == "inject_code":
        r["fields"] = [list(d.get(f, [])) if isinstance(d.get(f, []), list) else [] for f in INJECT_FIELDS]
    if ty == "add_job_script":
        r["script"] = [str(x) for x in d.get("script", [])] if isinstance(d.get("script", []), list) else []
        r["deps"] = list(d.get("depends_on", []))
    if ty == "add_cpp_function":
        r["arity"] = len(d.get("arguments", [])) if isinstance(d.get("arguments", []), list) else 0
        r["is_method"] = d.get("method_object") is not None
    return r


class _TrackDict(dict):
    """a metadata dictionary that tells the probe when `process_metadata` looks at it"""

    def _hit(self):
        self._probe["md_last"] = self._idx

    def get(self, *a):
        self._hit()
        return dict.get(self, *a)

    def __getitem__(self, k):
        self._hit()
        return dict.__getitem__(self, k)

    def __contains__(self, k):
        self._hit()
        return dict.__contains__(self, k)

    def keys(self):
        self._hit()
        return dict.keys(self)


STAGE_FRAMES = [  # innermost known frame -> class of the error, as `Exec.Err.cls` names them
    ("ok_to_add_code_block", "inject"), ("process_metadata", "metadata"), ("build_collection_callback", "foreign"),
    ("build_CPPCodeValue", "call"), ("get_collection", "call"), ("find_EventDataset", "dataset"), ("_is_format_request", "shape"),
    ("generate_script_block", "jobscript"), ("_find_dir", "templatedir"), ("_copy_template_file", "render"),
    ("get_rep", "visit"), ("get_as_ROOT", "visit"),
]


def exec_observe(b, queries, env):
    """run the history `queries` (source texts) on ONE real executor of backend `b`, each into a fresh directory;
    env: {"template_dir": bool, "missing": file or None} (a template directory without that file)"""
    import func_adl_xAOD.common.cpp_ast as CA
    import func_adl_xAOD.common.executor as EX
    import jinja2

    exe = P.make_executor(b)
    tdir = None
    if not env.get("template_dir", True):
        exe._template_dir_name = "vp/no/such/template/dir"
    elif env.get("missing"):
        real = EX._find_dir(exe._template_dir_name)
        tdir = tempfile.mkdtemp(prefix="vp_c09_tpl_")
        for f in os.listdir(real):
            if f != env["missing"] and os.path.isfile(os.path.join(real, f)):
                shutil.copy(os.path.join(real, f), os.path.join(tdir, f))
        exe._template_dir_name = tdir
    obs = []
    try:
        for src in queries:
            probe = {"md_last": None, "ncalls": 0, "finder_ast": None, "n_items": None}
            out = Path(tempfile.mkdtemp(prefix="vp_c09_out_"))
            orig_pm, orig_finder = EX.process_metadata, CA.cpp_ast_finder

            def pm(md_list, *a, **kw):
                tracked = []
                for i, d in enumerate(md_list):
                    t = _TrackDict(d)
                    t._probe, t._idx = probe, i
                    tracked.append(t)
                probe["n_items"] = len(tracked)
                return orig_pm(tracked, *a, **kw)

            class Finder(orig_finder):  # type: ignore
                def visit(self, node):
                    if probe["finder_ast"] is None:
                        probe["finder_ast"] = copy.deepcopy(node)
                    return super().visit(node)

                def try_call(self, name, node):
                    probe["ncalls"] += 1
                    return super().try_call(name, node)

            o = {"refused": False, "error": None, "cls": None, "in_apply": None}
            a2 = None
            a = P.query_ast_functional(b, src)  # (a text Python cannot parse is a slip of the generator: SyntaxError to the caller)
            o["items"] = _pre_order_metadata(a)
            stage = "apply"
            try:
                EX.process_metadata, CA.cpp_ast_finder = pm, Finder
                try:
                    stage = "apply"
                    a2 = exe.apply_ast_transformations(a)
                    o["top"] = _top_shape(a2)
                    stage = "write"
                    info = exe.write_cpp_files(a2, out)
                    o["all_filenames"] = list(info.all_filenames)
                    o["main_script"] = info.main_script
                finally:
                    EX.process_metadata, CA.cpp_ast_finder = orig_pm, orig_finder
            except Exception as e:
                o["refused"], o["error"], o["in_apply"] = True, type(e).__name__, stage == "apply"
                o["message"] = str(e)[:200]
                names = [f.name for f in traceback.extract_tb(e.__traceback__)]
                o["cls"] = next((c for fr, c in STAGE_FRAMES if fr in names), None)
            o["md_last"], o["ncalls"] = probe["md_last"], probe["ncalls"]
            o["calls"] = _post_order_calls(probe["finder_ast"]) if probe["finder_ast"] is not None else None
            # the output directory: names in the order of the package, completeness against an independent rendering
            listing = sorted(os.listdir(out))
            rec = getattr(exe, "recorded_info", None)
            written = []
            order = {f: i for i, f in enumerate(exe._file_names)}
            for f in sorted(listing, key=lambda x: order.get(x, 99)):
                data = (out / f).read_bytes()
                complete = len(data) > 0
                if rec is not None:
                    try:
                        td = EX._find_dir(exe._template_dir_name)
                        full = jinja2.Environment(loader=jinja2.FileSystemLoader(td)).get_template(f).render(rec).encode("utf-8", "surrogatepass")
                        complete = data == full
                    except Exception:
                        pass
                written.append([f, complete])
            o["written"] = written
            o["job_blocks"] = [{"name": d["name"], "script": list(d["script"]), "deps": list(d.get("depends_on", []))} for d in o["items"]
                               if d.get("metadata_type") == "add_job_script" and isinstance(d.get("name"), str) and isinstance(d.get("script"), list)
                               and all(isinstance(x, str) for x in d["script"]) and isinstance(d.get("depends_on", []), list)]
            asked = {ln for jb in o["job_blocks"] for ln in jb["script"]}
            o["emitted"] = sorted({ln for f in listing for ln in (out / f).read_bytes().decode("utf-8", "surrogatepass").split("\n") if ln in asked}) if asked else []
            rp = out / exe._runner_name
            o["runner_exec"] = rp.exists() and bool(rp.stat().st_mode & 0o111)
            o["state_jobs"] = [getattr(x, "name", "?") for x in exe._job_option_blocks]
            o["state_injects"] = [getattr(x, "name", "?") for x in exe._inject_blocks]
            o["job_lines"] = [str(x) for x in rec["job_option_additions"]] if (not o["refused"] and rec is not None and "job_option_additions" in rec) else ([] if not o["refused"] else None)
            if hasattr(exe, "recorded_info"):
                del exe.recorded_info
            shutil.rmtree(out, ignore_errors=True)
            obs.append(o)
    finally:
        if tdir:
            shutil.rmtree(tdir, ignore_errors=True)
    return obs


def _builtins(b):
    """the callees an executor knows without metadata, as far as the generated queries can meet them"""
    out = [{"name": "DeltaR", "kind": "code", "arity": 4, "is_method": False}]
    if b == "atlas":
        out += [{"name": n, "kind": "code", "arity": 1, "is_method": True} for n in ("getAttributeFloat", "getAttributeVectorFloat")]
        from func_adl_xAOD.atlas.xaod.event_collections import atlas_xaod_collections as cs
    elif b == "cms_aod":
        from func_adl_xAOD.cms.aod.event_collections import cms_aod_collections as cs
    else:
        from func_adl_xAOD.cms.miniaod.event_collections import cms_miniaod_collections as cs
    return [{"name": c.name, "kind": "coll"} for c in cs] + out


FOREIGN = {"atlas": "cms_aod", "cms_aod": "cms_miniaod", "cms_miniaod": "atlas"}


def gen_exec_query(rng, b, force=None):
    """(source text, body Py of the model, render expectation {file: 'after'}, what was broken). Malformations are drawn
    independently per stage, so that several can meet in one query."""
    et = qgen.elem_type(b, "As")
    broken = []
    r = rng.random()
    nbad = 0 if r < 0.55 else 1 if r < 0.8 else 2 if r < 0.94 else 3
    stages = ["md", "inject", "foreign", "call", "visit", "job", "top", "render"] if b == "atlas" else ["md", "inject", "foreign", "call", "visit", "top", "render"]
    bad = set(rng.sample(stages, nbad)) if force is None else set(force)
    blocks = []
    # user functions; sometimes one name declared twice with different parameter lists (the LAST one in the chain counts)
    fns = {}
    for j in range(rng.randint(1, 3)):
        name, k = f"vpx{j}", rng.randint(0, 3)
        blocks.append(_user_spec(name, k, False, et))
        fns[name] = k
        if rng.random() < 0.25:
            blocks.append(_user_spec(name, rng.choice([x for x in range(4) if x != k]), False, et))
            fns[name] = None  # decided by the order of the chain: the model knows
    # well-formed job-script and inject blocks (copies included)
    for _ in range(rng.randint(0, 2) if b == "atlas" else rng.randint(0, 1)):
        good, badj, _how = gen_job_blocks(rng)
        blocks += badj if "job" in bad and "job" not in broken else good
        if "job" in bad and "job" not in broken:
            broken.append("job")
    if "job" in bad and "job" not in broken:
        blocks += gen_job_blocks(rng)[1]
        broken.append("job")
    for _ in range(rng.randint(0, 1)):
        blocks += gen_inject_blocks(rng)[0]
    if "inject" in bad:
        blocks += [dict(d, name="vq_" + d["name"]) for d in gen_inject_blocks(rng)[1]]
        broken.append("inject")
    if b != "atlas":
        # defect exclusion (listed findings `cms-jobscript|…`): the CMS executors accept add_job_script blocks and drop them
        blocks = [d for d in blocks if d.get("metadata_type") != "add_job_script"]
    if "md" in bad:
        for _ in range(rng.choice([1, 1, 2])):
            kb = gen_key_blocks(rng, b)[1]
            while b != "atlas" and any("script" in d or d.get("metadata_type") == "add_job_script" for d in kb):
                kb = gen_key_blocks(rng, b)[1]
            blocks += kb
        broken.append("md")
    elif rng.random() < 0.5:
        blocks += [dict(d, name="vk_" + str(d.get("name", ""))) if "name" in d and d["metadata_type"] != "add_method_type_info" else d for d in gen_key_blocks(rng, b)[0]
                   if b == "atlas" or d.get("metadata_type") != "add_job_script"]
    if "foreign" in bad:
        fb = FOREIGN[b]
        blocks.append({"metadata_type": qgen.MDTYPE[fb], "name": rng.choice(["Fs", "As"]), "include_files": ["vp/F.h"], "container_type": "vp::FContainer",
                       "element_type": "vp::F", "contains_collection": True})
        broken.append("foreign")
    render = {}
    if "render" in bad:
        where = rng.choice(["const", "inject"] + (["job"] if b == "atlas" else []))
        main = "query.cxx" if b == "atlas" else "Analyzer.cc"
        if where == "job":
            blocks.append(_js("vp_sur", ["# " + SUR], []))
            render = {"ATestRun_eljob.py": "after"}
        elif where == "inject":
            blocks.append(_ib("vp_sur", {"body_includes": ["vp" + SUR + ".h"]}))
            render = {main: "after"}
        else:
            render = {main: "after"}
        broken.append("render:" + where)
    else:
        where = None
    # the call sites
    terms, ncall_bad = [], 0
    for _ in range(rng.randint(1, 4)):
        kind = rng.choice(["fn", "fn", "DeltaR", "coll", "coll", "nested"])
        wrong = "call" in bad and (ncall_bad == 0 or rng.random() < 0.3) and rng.random() < 0.6
        if kind in ("fn", "nested"):
            name = rng.choice(sorted(fns))
            k = fns[name] if fns[name] is not None else rng.randint(0, 3)
            n = rng.choice([x for x in range(0, k + 3) if x != k]) if wrong else k
            t = f"{name}(" + ", ".join(rng.choice(["1.5", "2.0", "e.As('ba').Count()"]) for _ in range(n)) + ")"
            if kind == "nested":
                t = f"DeltaR({t}, 1.0, 2.0, 0.5)"
        elif kind == "DeltaR":
            n = rng.choice([2, 3, 5]) if wrong else 4
            t = ("e.DeltaR(" if wrong and rng.random() < 0.3 else "DeltaR(") + ", ".join(["1.0", "0.5", "2.0", "0.25", "3.0"][:n]) + ")"
        else:
            args = rng.choice([[], ["'ba'", "'bb'"], ["1"]]) if wrong else ["'ba'"]
            t = f"e.{rng.choice(['As', 'Bs'])}(" + ", ".join(args) + ").Count()"
        ncall_bad += wrong
        terms.append(t)
    if "call" in bad and ncall_bad == 0:
        terms.insert(rng.randint(0, len(terms)), "DeltaR(1.0, 2.0)")
    if "call" in bad:
        broken.append("call")
    expr = "(" + " + ".join(terms) + ")"
    body = OKLEAF
    if "visit" in bad:
        name, build, py = rng.choice([g for g in GRAFTS_NUM if g[2] is not None and g[0] not in ("setdisplay", "listcomp", "fstring")])
        expr = build({"k": "raw", "fmt": expr, "args": []})["fmt"].format(expr)
        body = py
        broken.append("visit:" + name)
    if where == "const":
        expr = f"({expr}, '\\ud800')"
    # the chain and the places of the blocks
    depth = rng.randint(1, 3)
    base = qgen.metadata(b)
    places = [(rng.choice([0, 0, 0] + list(range(1, depth + 1))), rng.random()) for _ in blocks]
    nb = max(len(base), 1)
    lvl0 = sorted([((i + 0.5) / nb, 0, d) for i, d in enumerate(base)] + [(rr, 1 + j, d) for j, (d, (l, rr)) in enumerate(zip(blocks, places)) if l == 0], key=lambda t: (t[0], t[1]))
    s = "ds0" if "top" not in bad or rng.random() < 0.6 else "vp_no_dataset"
    for _, _, d in lvl0:
        s = f"MetaData({s}, {d!r})"
    for i in range(1, depth + 1):
        lam = f"lambda e: {expr}" if i == depth else "lambda e: e.As('ba').Count() >= 0"
        s = f"{'Select' if i == depth else 'Where'}({s}, {lam})"
        for d, (l, rr) in sorted(zip(blocks, places), key=lambda t: t[1][1]):
            if l == i:
                s = f"MetaData({s}, {d!r})"
    if "top" in bad:
        if "vp_no_dataset" not in s:
            s = rng.choice(["({0}, 1)", "{0}.vp_unknown(1)", "[{0}]"]).format(s)
        broken.append("top")
    elif rng.random() < 0.3:
        ncols = 2 if where == "const" else 1
        s = f"ResultTTree({s}, {['c' + str(i) for i in range(ncols)]!r}, 'vptree', 'vp.root')"
    return {"src": s, "body": body, "render": render, "broken": broken}


def gen_exec_cases(ctx, n):
    rng = ctx.rng
    cases = []
    for i in range(n):
        b = P.BACKENDS[i % 3]
        nq = 1 if rng.random() < 0.7 else 2
        qs = [gen_exec_query(rng, b) for _ in range(nq)]
        env = {"template_dir": True, "missing": None}
        r = rng.random()
        if r < 0.03:
            env["template_dir"] = False
        elif r < 0.09:
            env["missing"] = rng.choice(P.make_executor(b)._file_names)
        cases.append({"kind": "exec", "backend": b, "queries": [q["src"] for q in qs], "bodies": [q["body"] for q in qs],
                      "renders": [q["render"] for q in qs], "broken": [q["broken"] for q in qs], "env": env})
    return cases


def _nosur(x):
    """the driver protocol is UTF-8: the unencodable character travels under another name"""
    if isinstance(x, str):
        return x.replace(SUR, "<SUR>")
    if isinstance(x, list):
        return [_nosur(y) for y in x]
    if isinstance(x, dict):
        return {_nosur(k): _nosur(v) for k, v in x.items()}
    return x


def exec_request(c, obs):
    """the driver request for one history: the model runs on what the harness derived from the query texts (metadata in
    pre-order) and from the stage inputs the real executor was given (candidate call sites, top-level shape)"""
    b = c["backend"]
    qs = []
    for j, o in enumerate(obs):
        render = dict(c["renders"][j])
        if c["env"].get("missing"):
            render[c["env"]["missing"]] = "before"
        qs.append({"items": [_item_req(d) for d in o.get("items", [])], "calls": o["calls"] or [], "top": o.get("top", "otherCall"), "body": c["bodies"][j],
                   "env": {"template_dir": c["env"].get("template_dir", True), "render": render}})
    return _nosur({"op": "exec", "backend": b, "builtins": _builtins(b), "queries": qs})


def _exec_what(c, j, o, m, why):
    return f"executor level, query {j + 1} of the history on {c['backend']} ({'+'.join(c['broken'][j]) or 'nothing broken'}): {why}"


def run_exec_stream(ctx, cases, judge=True):
    """returns the list of Spec failures (for `search`); with judge=True reports them"""
    fails = []
    observed_all = []
    for c in cases:
        try:
            observed_all.append(exec_observe(c["backend"], c["queries"], c["env"]))
        except SyntaxError:
            ctx.count("harness:python-syntax")
            observed_all.append(None)
    live = [(c, obs) for c, obs in zip(cases, observed_all) if obs is not None]
    reqs = [exec_request(c, obs) for c, obs in live]
    spec_reqs = [{"op": "obs", "backend": c["backend"], "refused": o["refused"], "written": o["written"], "runner_exec": o["runner_exec"]} for c, obs in live for o in obs]
    kept_reqs = [_nosur({"op": "kept", "blocks": o.get("job_blocks", []), "emitted": o.get("emitted", [])}) for c, obs in live for o in obs]
    answers = ctx.driver(DRIVER, reqs + spec_reqs + kept_reqs) if reqs else []
    model_ans, spec_ans, kept_ans = answers[: len(reqs)], iter(answers[len(reqs): len(reqs) + len(spec_reqs)]), iter(answers[len(reqs) + len(spec_reqs):])
    for (c, obs), a in zip(live, model_ans):
        b = c["backend"]
        runs = a["runs"] if "bad" not in a else [None] * len(obs)
        for j, (o, m) in enumerate(zip(obs, runs)):
            sp, kp = next(spec_ans), next(kept_ans)
            key = f"exec|{b}|{j}|{c['queries'][j]}"
            if m is None:
                ctx.count("harness:driver-bad-answer")
                continue
            if o.get("job_blocks"):
                ctx.count("exec:job-script blocks sent to " + b)
            ctx.count("exec:outcome:" + ("refused:" + str(o["cls"]) if o["refused"] else "accepted"))
            ctx.count(f"exec:broken={len(c['broken'][j])}")
            ctx.count(f"exec:items={min(len(o.get('items', [])) // 10 * 10, 40)}+")
            if j > 0:
                ctx.count("exec:second-query-of-history")
            ctx.case(key, len(o.get("items", [])) >= 10 and len(o.get("calls") or []) >= 2,
                     {"backend": b, "query": c["queries"][j][-300:], "broken": c["broken"][j], "outcome": o["error"] or "accepted", "directory": o["written"]})
            case = {"kind": "exec", "backend": b, "queries": c["queries"][: j + 1], "env": c["env"], "bodies": c["bodies"][: j + 1], "renders": c["renders"][: j + 1],
                    "broken": c["broken"][: j + 1]}
            observed = {k: o.get(k) for k in ("refused", "error", "message", "cls", "written", "runner_exec", "state_jobs", "state_injects", "job_lines")}
            # --- the Spec clauses on the implementation's outcome
            why = None
            if not sp.get("ok", True):
                why = ("a refused translation left " + (f"the files {[w[0] for w in o['written']]}" if o["written"] else "nothing") + (" and an executable runner" if o["runner_exec"] else "")
                       + " - not a proper initial part of the package") if o["refused"] else f"a package was returned but the output directory holds {o['written']} (runner executable: {o['runner_exec']})"
            elif not o["refused"] and not kp.get("ok", True):
                lost = sorted({ln for jb in o["job_blocks"] for ln in jb["script"]} - set(o["emitted"]))
                why = f"a package was returned but the job-script lines {lost} the query asked for (add_job_script) appear in no rendered file: silently dropped"
            elif m["malformed"] and not o["refused"]:
                why = f"the query is malformed ({'+'.join(c['broken'][j])}; model: refused with `{m['cls']}`) and a package is returned"
            elif not o["refused"] and not m["refused"] and (o.get("all_filenames") != [w[0] for w in m["written"]] or o.get("main_script") != m["written"][-1][0]):
                why = f"the returned descriptor names {o.get('all_filenames')} / {o.get('main_script')}, the package is {[w[0] for w in m['written']]}"
            if why is not None:
                f = {"key": key, "what": _exec_what(c, j, o, m, why), "case": case, "observed": observed}
                fails.append(f)
                if judge:
                    ctx.violation(key=key, what=f["what"], case=case, observed=observed, how="./check C09 --replay <this file> (runs the history on one real executor, fresh output directories)")
                continue
            # --- model vs implementation
            diffs = {}
            if m["refused"] != o["refused"]:
                diffs["refused"] = (m["refused"], o["refused"])
            else:
                if o["refused"]:
                    if m["in_apply"] != o["in_apply"]:
                        diffs["public method that raised"] = ("apply" if m["in_apply"] else "write", "apply" if o["in_apply"] else "write")
                    if o["cls"] is None:
                        ctx.count("harness:unknown-frame")
                    elif m["cls"] != o["cls"]:
                        diffs["error class"] = (m["cls"], o["cls"])
                    elif m["cls"] in ("metadata", "inject") and o["md_last"] is not None and m["idx"] != o["md_last"]:
                        diffs["position of the refused dictionary"] = (m["idx"], o["md_last"])
                    elif m["cls"] == "call" and o["calls"] is not None and m["idx"] != o["ncalls"] - 1:
                        diffs["position of the refused call site"] = (m["idx"], o["ncalls"] - 1)
                else:
                    if b == "atlas" and m["job_lines"] != _nosur(o["job_lines"]):
                        diffs["job-script lines"] = (m["job_lines"], o["job_lines"])
                    if o["calls"] is not None and o["ncalls"] != len(o["calls"]):
                        diffs["call sites handed to the table"] = (len(o["calls"]), o["ncalls"])
                    if o.get("items") and o["md_last"] is not None and o["md_last"] != len(o["items"]) - 1:
                        diffs["last dictionary process_metadata looked at"] = (len(o["items"]) - 1, o["md_last"])
                for k in ("written", "runner_exec", "state_jobs", "state_injects"):
                    if m[k] != o[k]:
                        diffs[k] = (m[k], o[k])
            if diffs:
                ctx.disagreement("executor model vs real executor: " + ", ".join(diffs), case, {k: v[0] for k, v in diffs.items()}, {k: v[1] for k, v in diffs.items()})
            if o["calls"] is None and not (o["refused"] and o["cls"] in ("metadata", "inject", "foreign")):
                ctx.count("harness:no-finder-probe")
    return fails


def cms_jobscript_case(b, how):
    """the literals of `cms_jobscript_dropped_counterexample` (and its siblings) as queries for backend `b`"""
    blocks = {"dropped": [_js("vpjob", ["# vp asked for"], [])],
              "dangling": [_js("vpjob", ["# vp asked for"], ["never_sent"])],
              "cycle": [_js("vpjob", ["# vp asked for"], ["vpother"]), _js("vpother", ["# vp other"], ["vpjob"])],
              "conflict": [_js("vpjob", ["# vp asked for"], []), _js("vpjob", ["# vp something else"], [])]}[how]
    s = _md_src(qgen.metadata(b))
    for d in blocks:
        s = f"MetaData({s}, {d!r})"
    return {"kind": "cms-jobscript", "backend": b, "how": how, "metadata_blocks": blocks, "full_source": f"Select({s}, lambda e: e.As('ba').Count())"}


def cms_jobscript_fails(ctx, c):
    """None, or what is wrong: the Spec clauses `jobLinesKept` (nothing asked for is dropped) and refused-if-malformed
    (`jobMalformedB`, whatever the backend) on what the real executor does with the query"""
    o = exec_observe(c["backend"], [c["full_source"]], {})[0]
    if o["refused"]:
        return None
    a = ctx.driver(DRIVER, [{"op": "job", "blocks": o["job_blocks"]}, {"op": "kept", "blocks": o["job_blocks"], "emitted": o["emitted"]}])
    if a[0].get("malformed"):
        return f"the job-script blocks are malformed ({'/'.join(k for k in ('conflict', 'missing', 'cyclic') if a[0].get(k))}) and a package is returned: {[w[0] for w in o['written']]}"
    if not a[1].get("ok", True):
        lost = sorted({ln for jb in o["job_blocks"] for ln in jb["script"]} - set(o["emitted"]))
        return f"a package is returned ({[w[0] for w in o['written']]}) and the lines {lost} appear in none of its files"
    return None


LEAK_KEY = "exec-history|atlas|refused-by-visitor-then-clean-query"


def leak_history():
    """the literal of `failed_run_state_not_restored_counterexample`"""
    base = _md_src(qgen.metadata("atlas"))
    first = f"Select(MetaData({base}, {_js('vpleak', ['# leaked line'], [])!r}), lambda e: e.As('ba').Count() // 2)"
    second = f"Select({base}, lambda e: e.As('ba').Count())"
    return {"kind": "exec-history", "backend": "atlas", "queries": [first, second], "env": {"template_dir": True, "missing": None}}


def replay_history(c):
    obs = exec_observe(c["backend"], c["queries"], c.get("env", {}))
    return obs


def run(ctx):
    # known findings
    for e in ctx.known_entries("known") + ctx.known_entries("fixed"):
        c = e["input"]
        if c.get("kind") == "cms-jobscript":
            why = cms_jobscript_fails(ctx, c)
            if why:
                ctx.violation(key=e["key"] if e["status"] == "known" else "regressed:" + e["key"], what=e["what"], case=c, observed={"what happens": why})
            continue
        if c.get("kind") == "exec-history":
            obs = replay_history(c)
            if obs[0]["refused"] and not obs[-1]["refused"] and "# leaked line" in (obs[-1]["job_lines"] or []):
                ctx.violation(key=e["key"] if e["status"] == "known" else "regressed:" + e["key"], what=e["what"], case=c,
                              observed={"state after the refused query": obs[0]["state_jobs"], "job-script lines of the next package": obs[-1]["job_lines"]})
            continue
        r = P.translate_functional(c["backend"], c["full_source"])
        if r["ok"]:
            key = e["key"] if e["status"] == "known" else "regressed:" + e["key"]
            ctx.violation(key=key, what=e["what"], case=c, observed={"generated_code": r["query"]})
    # minimised past failures of the arity / metadata families
    corpus = [c["case"] for c in vlib.corpus_cases(ID) if "case" in c]
    if [c for c in corpus if c.get("kind") != "exec"]:
        run_new_streams(ctx, [c for c in corpus if c.get("kind") != "exec"])
    if [c for c in corpus if c.get("kind") == "exec"]:
        run_exec_stream(ctx, [c for c in corpus if c.get("kind") == "exec"])
    n = 300 if ctx.tier == "quick" else 3000
    cases = gen_cases(ctx, n)
    results = [run_case(c) for c in cases]
    # the dispatch model on the table-driven grafts
    tab = [(c, r) for c, r in zip(cases, results) if c["py"] is not None]
    ans = ctx.driver(DRIVER, [{"op": "visit", "py": c["py"]} for c, _ in tab])
    for (c, r), a in zip(tab, ans):
        if "bad" in a:
            continue
        if a["refuses"] != (not r["ok"]):
            ctx.disagreement("dispatch model vs translator (refuses?)", {"backend": c["backend"], "graft": c["graft"], "source": c["src"]}, a, "refused" if not r["ok"] else "accepted")
    for c, r in zip(cases, results):
        judge_case(ctx, c, r)
    # calls with a fixed parameter list written with another number of arguments / in the other style; malformed metadata
    na, nm = (150, 210) if ctx.tier == "quick" else (1500, 2100)
    run_new_streams(ctx, gen_arity_cases(ctx, na) + gen_md_cases(ctx, nm))
    # executor level: histories of one or two generated queries on one executor, fresh output directories
    run_exec_stream(ctx, gen_exec_cases(ctx, 150 if ctx.tier == "quick" else 1000))
    ctx.extra_cov["exhaustive"] = False


def search(ctx, broken):
    cases = gen_cases(ctx, 1500)
    for c in cases:
        r = run_case(c)
        if r["ok"]:
            return {"key": f"{c['backend']}|{c['graft']}|{c['src']}", "what": f"unsupported construct ({c['graft']}) accepted", "case": {"backend": c["backend"], "graft": c["graft"], "source": c["src"]}, "observed": {"generated_code": r["query"]}}
    fails = run_exec_stream(ctx, gen_exec_cases(ctx, 600), judge=False)
    if fails:
        return fails[0]
    more = gen_arity_cases(ctx, 600) + gen_md_cases(ctx, 900)
    hit = _fails(ctx, more)
    if hit is not None:
        c, v, r = shrink(ctx, *hit)
        case, what = _describe(c, v)
        return {"key": f"{c['backend']}|{c['graft']}|{c['src']}", "what": what, "case": case, "observed": {"generated_code": r["query"]}}
    return None


def replay(ctx, rep) -> int:
    c = rep["case"]
    if c.get("kind") == "cms-jobscript":
        why = cms_jobscript_fails(ctx, c)
        print("VIOLATION: " + why if why else "refused, or every line asked for is in a rendered file")
        return 1 if why else 0
    if c.get("kind") in ("exec", "exec-history"):
        obs = replay_history(c)
        bad = 0
        for j, o in enumerate(obs):
            print(f"query {j + 1}: " + (f"refused ({o['error']}: {o.get('message', '')[:120]})" if o["refused"] else "accepted"),
                  "| directory:", o["written"], "| runner executable:", o["runner_exec"], "| executor keeps job blocks", o["state_jobs"], "inject blocks", o["state_injects"],
                  "| job-script lines:", o["job_lines"])
        if c.get("kind") == "exec":
            fails = run_exec_stream(ctx, [c], judge=False)
            bad = 1 if fails else 0
            for f in fails:
                print("VIOLATION:", f["what"])
        else:
            bad = 1 if (obs[0]["refused"] and "# leaked line" in (obs[-1]["job_lines"] or [])) else 0
        return bad
    src = c.get("full_source") or c["source"].replace("DSMD", "ds0").replace("ds0", _md_src(qgen.metadata(c["backend"])), 1)
    r = P.translate_functional(c["backend"], src)
    print("accepted — VIOLATION" if r["ok"] else f"refused: {r['error']}: {r['message'][:200]}")
    if r["ok"]:
        print("\n".join(r["query"]))
    return 1 if r["ok"] else 0
