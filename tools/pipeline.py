"""Drive the REAL func_adl_xAOD pipeline on a query and collect what it produces.

`translate(backend, query_src)` evaluates a func_adl expression text such as
    ds.Select('lambda e: e.Jets("J").Count()')
where `ds` is a dummy EventDataset of the backend, or takes a ready python `ast`/qastle text,
runs `apply_ast_transformations` + `write_cpp_files` (the public API) and returns the pieces of
text the templates receive, the rendered files and the returned descriptor; or the exception.
"""
from __future__ import annotations

import ast
import logging
import shutil
import tempfile
from pathlib import Path
from typing import Any, Dict, Optional

BACKENDS = ["atlas", "cms_aod", "cms_miniaod"]

logging.getLogger("func_adl_xAOD").setLevel(logging.ERROR)
logging.getLogger("func_adl").setLevel(logging.ERROR)
logging.getLogger().setLevel(logging.ERROR)


def _executor_class(backend: str):
    if backend == "atlas":
        from func_adl_xAOD.atlas.xaod.executor import atlas_xaod_executor as E
    elif backend == "cms_aod":
        from func_adl_xAOD.cms.aod.executor import cms_aod_executor as E
    elif backend == "cms_miniaod":
        from func_adl_xAOD.cms.miniaod.executor import cms_miniaod_executor as E
    else:
        raise ValueError(backend)
    return E


def make_executor(backend: str):
    """An executor of the backend that records the replacement dict given to the templates."""
    E = _executor_class(backend)

    class Recording(E):  # type: ignore
        def _copy_template_file(self, j2_env, info, template_file, final_dir):
            self.recorded_info = dict(info)
            return super()._copy_template_file(j2_env, info, template_file, final_dir)

    return Recording()


def dataset(backend: str):
    """A func_adl EventDataset whose `.value()` returns the query AST."""
    from func_adl import EventDataset

    class DS(EventDataset):
        def __init__(self):
            super().__init__()

        async def execute_result_async(self, a, title=None):
            return a

    return DS()


def query_ast(backend: str, src: str) -> ast.AST:
    """`src` is a python expression over `ds` built with string lambdas, ending without .value()."""
    ds = dataset(backend)
    env = {"ds": ds}
    q = eval(src, env)
    return q.value()


def query_ast_functional(backend: str, src: str) -> ast.AST:
    """`src` is the call tree over the placeholder name `ds0` (no func_adl front end involved)."""
    tree = ast.parse(src, mode="eval").body
    ds_ast = dataset(backend).query_ast

    class Repl(ast.NodeTransformer):
        def visit_Name(self, node):
            return ds_ast if node.id == "ds0" else node

    return ast.fix_missing_locations(Repl().visit(tree))


def translate_functional(backend: str, src: str, **kw) -> Dict[str, Any]:
    try:
        a = query_ast_functional(backend, src)
    except Exception as e:
        return {"ok": False, "error": "frontend:" + type(e).__name__, "message": str(e)[:500]}
    return translate_ast(backend, a, **kw)


def from_qastle(text: str) -> ast.AST:
    import qastle

    return qastle.text_ast_to_python_ast(text).body[0].value


def to_qastle(a: ast.AST) -> str:
    import qastle

    return qastle.python_ast_to_text_ast(a)


def translate_ast(backend: str, a: ast.AST, keep_files: bool = False) -> Dict[str, Any]:
    out = Path(tempfile.mkdtemp(prefix="vp_pipe_"))
    try:
        try:
            exe = make_executor(backend)
            a2 = exe.apply_ast_transformations(a)
            info = exe.write_cpp_files(a2, out)
        except Exception as e:  # the property-level observable is "raises"
            return {"ok": False, "error": type(e).__name__, "message": str(e)[:500]}
        rec = exe.recorded_info
        files = {}
        modes = {}
        for f in info.all_filenames:
            p = out / f
            files[f] = p.read_text() if p.exists() else None
            modes[f] = (p.stat().st_mode & 0o777) if p.exists() else None
        res = {
            "ok": True,
            "backend": backend,
            "query": list(rec["query_code"]),
            "book": list(rec["book_code"]),
            "class_decl": [list(x) if isinstance(x, tuple) else x for x in _class_decl(rec["class_decl"])],
            "includes": list(rec["body_include_files"]),
            "link_libraries": list(rec["link_libraries"]),
            "info_keys": sorted(rec.keys()),
            "job_option_additions": list(rec["job_option_additions"]) if "job_option_additions" in rec else None,
            "treename": getattr(info.result_rep, "treename", None),
            "filename": getattr(info.result_rep, "filename", None),
            "main_script": info.main_script,
            "all_filenames": list(info.all_filenames),
            "files": files,
            "modes": modes,
        }
        return res
    finally:
        if not keep_files:
            shutil.rmtree(out, ignore_errors=True)


def _class_decl(cd):
    # list of (type, name) pairs or strings, depending on backend helpers
    res = []
    for x in cd:
        if isinstance(x, (tuple, list)):
            res.append([str(y) for y in x])
        else:
            res.append(str(x))
    return res


def translate(backend: str, src: str, **kw) -> Dict[str, Any]:
    try:
        a = query_ast(backend, src)
    except Exception as e:
        return {"ok": False, "error": "frontend:" + type(e).__name__, "message": str(e)[:500]}
    return translate_ast(backend, a, **kw)
