"""C02 (cursor extension) — correspondence harness for the state-machine model of the translator's
code-generation cursor (lean/FaxVerif/C02/CursorModel.lean).

    run_stream(ctx, n_cases)    random operation sequences, run on the REAL `generated_code` / `gc_scope` /
                                statement classes in-process and on the model through the Lean driver; compares
                                the outcome of every call (value or exception class), the emitted text (exact),
                                includes, libraries, class declarations, the cursor and every scope token; and
                                evaluates the text-level Spec oracles (`textNothingLost`, `textDeclEncloses`) on
                                the REAL emitted text.

An operation is a JSON object (the driver's `<op>` grammar, see CursorDriver.lean).  Statements are
named by creation index (root block = 0, ids are handed out on success only), scope tokens by the
index of the call that produced them (`saveScope`, `saveTop`, `up`).  A reference to something
that does not exist is answered `BadRef` on both sides, so every subsequence of a sequence is
again a test — which is what the shrinker relies on.

Stand-alone:  /venv/bin/python tools/c02_cursor.py [n_cases] [seed]      (VERIF_REPO selects the tree)
"""
from __future__ import annotations

import json
import os
import sys
from typing import Any, Dict, List, Optional, Tuple

DRIVER = "FaxVerif/C02/CursorDriver.lean"
SHRINK_BUDGET_S = 8.0  # per finding; every round is one driver start (~0.6 s)

Op = Dict[str, Any]


# --------------------------------------------------------------------------------------------
# the real code
# --------------------------------------------------------------------------------------------
class Real:
    """One `generated_code` object driven by operations; remembers every object it handed out."""

    def __init__(self):
        import func_adl_xAOD.common.cpp_representation as crep
        import func_adl_xAOD.common.cpp_types as ctyp
        import func_adl_xAOD.common.statement as st
        from func_adl_xAOD.common.generated_code import generated_code
        from func_adl_xAOD.common import util_scope

        self.crep, self.ctyp, self.st, self.us = crep, ctyp, st, util_scope
        self.g = generated_code()
        self.objs: List[Any] = [self.g._block]  # statement objects by creation index
        self.tokens: List[Any] = []
        self.nvars = 0
        # what the Spec oracles need: lines this run caused, and (declaration, scope) pairs
        self.expect: List[Dict[str, Any]] = []
        self.nblocks = 1
        self.decls: List[Tuple[str, Tuple[Any, ...]]] = []  # (declaration line, blocks of the scope it was declared at)
        self.uses: List[Tuple[str, str]] = []  # (declaration line, statement line) that must be enclosed

    # ---- construction of the real argument objects
    def _val(self, text, typ=None):
        return self.crep.cpp_value(text, None, None if typ is None else self.ctyp.terminal(typ))

    def _plain(self, p):
        k = p["k"]
        if k == "arb":
            return self.st.arbitrary_statement(p["line"])
        if k == "set":
            return self.st.set_var(self._val(p["t"], p.get("tt")), self._val(p["v"], p.get("vt")))
        if k == "push":
            et = p.get("et")
            coll = self.crep.cpp_value(p["t"], None, self.ctyp.collection(None if et is None else self.ctyp.terminal(et)))
            return self.st.push_back(coll, self._val(p["v"], p.get("vt")))
        if k == "clear":
            return self.st.container_clear(self._val(p["c"]))
        raise ValueError(k)

    def _block(self, kd):
        k = kd["k"]
        if k == "block":
            return self.st.block()
        if k == "loop":
            return self.st.loop(self._val(kd["v"]), self._val(kd["c"]))
        if k == "if":
            return self.st.iftest(self._val(kd["e"]))
        if k == "else":
            return self.st.elsephrase()
        raise ValueError(k)

    def _var(self, v):
        init = None if v.get("init") is None else self._val(v["init"], v["type"])
        return self.crep.cpp_variable(v["name"], None, self.ctyp.terminal(v["type"]), initial_value=init)

    def stack_ids(self, stack) -> List[int]:
        out = []
        for b in stack:
            hit = [i for i, o in enumerate(self.objs) if o is b]
            out.append(hit[0] if hit else -1)
        return out

    def _note_use(self, line: str):
        cur = self.g._scope_stack
        for dline, blocks in self.decls:
            if len(blocks) <= len(cur) and all(a is b for a, b in zip(blocks, cur)):
                self.uses.append((dline, line))

    # ---- one call
    def step(self, op: Op) -> Dict[str, Any]:
        try:
            return {"ok": self._step(op)}
        except _BadRef:
            return {"err": "BadRef"}
        except Exception as e:  # the class of the exception is the observable
            return {"err": type(e).__name__}

    def _tok(self, i):
        if not (0 <= i < len(self.tokens)):
            raise _BadRef()
        return self.tokens[i]

    def _new_tok(self, t):
        self.tokens.append(t)
        return {"tok": len(self.tokens) - 1}

    def _step(self, op: Op):
        g, o = self.g, op["o"]
        if o == "addPlain":
            s = self._plain(op["p"])
            g.add_statement(s)
            self.objs.append(s)
            line = expected_line(op["p"])
            self.expect.append({"text": line, "ord": len(self.objs), "decl": False})
            self._note_use(line)
            return {"id": len(self.objs) - 1}
        if o == "addBlock":
            b = self._block(op["kind"])
            g.add_statement(b)
            self.objs.append(b)
            self._note_block(op["kind"])
            return {"id": len(self.objs) - 1}
        if o == "addBelow":
            if not (0 <= op["target"] < len(self.objs)):
                raise _BadRef()
            st = op["st"]
            new = self._plain(st["plain"]) if "plain" in st else self._block(st["block"])
            g.add_statement(new, below=self.objs[op["target"]])
            self.objs.append(new)
            self._note_block(st["block"])
            return {"id": len(self.objs) - 1}
        if o == "pop":
            g.pop_scope()
            return None
        if o == "saveScope":
            return self._new_tok(g.current_scope())
        if o == "saveTop":
            return self._new_tok(self.us.top_level_scope())
        if o == "setScope":
            g.set_scope(self._tok(op["tok"]))
            return None
        if o == "setTop":
            g.set_scope(self.us.gc_scope_top_level())
            return None
        if o == "setScopeNone":
            g.set_scope(None)
            return None
        if o == "up":
            return self._new_tok(self._tok(op["tok"])[op["key"]])
        if o == "declareVar":
            v = self._var(op["v"])
            g.declare_variable(v)
            return self._declared(op["v"], tuple(g._scope_stack))
        if o == "declareAt":
            t = self._tok(op["tok"])
            v = self._var(op["v"])
            t.declare_variable(v)
            return self._declared(op["v"], tuple(t._scope_stack))
        if o == "declareClassVar":
            g.declare_class_variable(self._var(op["v"]))
            self.nvars += 1
            return {"id": self.nvars - 1}
        if o == "addInclude":
            g.add_include(op["p"])
            return None
        if o == "addLibrary":
            g.add_link_library(op["p"])
            return None
        if o == "setRep":
            g.set_rep(op["k"], op["v"])
            return None
        if o == "getRep":
            return {"rep": g.get_rep(op["k"])}
        if o == "startsWith":
            a, b = self._tok(op["a"]), self._tok(op["b"])
            return {"bool": bool(a.starts_with(b))}
        if o == "deepest":
            a, b = self._tok(op["a"]), self._tok(op["b"])
            v1 = self.crep.cpp_value("v1", a, None)
            v2 = self.crep.cpp_value("v2", b, None)
            r = self.us.deepest_scope(v1, v2)
            return {"which": 1 if r is v1 else 2}
        raise ValueError(o)

    def _note_block(self, kd, ordered=True):
        self.nblocks += 1
        h = expected_header(kd)
        if h is not None:
            # a block inserted with `below=` is created later than the statements it now precedes,
            # and `else` carries no name: both are outside the creation-order check
            unique = kd["k"] in ("loop", "if")
            self.expect.append({"text": h, "ord": len(self.objs) if (ordered and unique) else 0, "decl": False})

    def _declared(self, v, blocks):
        self.nvars += 1
        line = expected_decl(v)
        self.expect.append({"text": line, "ord": self.nvars, "decl": True})
        self.decls.append((line, blocks))
        return {"id": self.nvars - 1}

    # ---- the observables at the end
    def final(self) -> Dict[str, Any]:
        from func_adl_xAOD.common.executor import _cpp_source_emitter

        out: Dict[str, Any] = {}
        try:
            em = _cpp_source_emitter()
            self.g.emit_query_code(em)
            out["emit"] = list(em.lines_of_query_code())
        except RecursionError:
            out["emit"] = ["<RecursionError>"]
        except Exception as e:
            out["emit"] = [f"<{type(e).__name__}>"]
        out["includes"] = list(self.g.include_files())
        out["libs"] = list(self.g.link_libraries())
        try:
            out["classdecl"] = list(self.g.class_declaration_code())
        except Exception as e:
            out["classdecl"] = [f"<{type(e).__name__}>"]
        out["stack"] = self.stack_ids(self.g._scope_stack)
        out["tokens"] = [None if t.is_top_level() else self.stack_ids(t._scope_stack) for t in self.tokens]
        return out


class _BadRef(Exception):
    pass


def _cast(a: Optional[str], b: Optional[str]) -> Optional[str]:
    return a if (a is not None and b is not None and a != b) else None


def expected_line(p) -> str:
    """The line a one-line statement is documented to write (harness's own reading of statement.py)."""
    k = p["k"]
    if k == "arb":
        return p["line"] if p["line"].endswith(";") else p["line"] + ";"
    if k == "set":
        c = _cast(p.get("tt"), p.get("vt"))
        return f"{p['t']} = static_cast<{c}>({p['v']});" if c else f"{p['t']} = {p['v']};"
    if k == "push":
        c = _cast(p.get("et"), p.get("vt"))
        return f"{p['t']}.push_back(static_cast<{c}>({p['v']}));" if c else f"{p['t']}.push_back({p['v']});"
    if k == "clear":
        return f"{p['c']}.clear();"
    raise ValueError(k)


def expected_header(kd) -> Optional[str]:
    k = kd["k"]
    if k == "loop":
        return f"for (auto &&{kd['v']} : {kd['c']})"
    if k == "if":
        return f"if ({kd['e']})"
    if k == "else":
        return "else"
    return None


def expected_decl(v) -> str:
    init = "" if v.get("init") is None else f" ({v['init']})"
    return f"{v['type']} {v['name']}{init};"


def run_real(ops: List[Op]) -> Tuple[Dict[str, Any], Real]:
    r = Real()
    results = [r.step(op) for op in ops]
    out = r.final()
    out["results"] = results
    return out, r


# --------------------------------------------------------------------------------------------
# generator (drives a real object while generating, so that references are mostly valid)
# --------------------------------------------------------------------------------------------
TYPES = ["int", "double", "float", "bool"]
INCLUDES = ["cmath", "vector", "xAODJet/JetContainer.h", "algorithm", "numeric"]
LIBS = ["xAODJet", "xAODMuon", "TrkTrack"]
KEYS = ["ka", "kb", "kc", "kd"]


class Gen:
    def __init__(self, rng, error_rate: float = 0.06):
        self.rng = rng
        self.err = error_rate
        self.ops: List[Op] = []
        self.real = Real()
        self.n = 0
        self.keys: List[str] = []

    def emit(self, op: Op) -> Dict[str, Any]:
        self.ops.append(op)
        return self.real.step(op)

    def fresh(self, prefix: str) -> str:
        self.n += 1
        return f"{prefix}{self.n}"

    # ---- pieces
    def plain(self) -> Dict[str, Any]:
        r, k = self.rng, self.rng.random()
        if k < 0.55:
            line = self.fresh("s") + " = 1"
            if r.random() < 0.3:
                line += ";"
            return {"k": "arb", "line": line}
        if k < 0.75:
            return {"k": "set", "t": self.fresh("t"), "tt": r.choice(TYPES + [None]), "v": self.fresh("x"), "vt": r.choice(TYPES + [None])}
        if k < 0.9:
            return {"k": "push", "t": self.fresh("c"), "et": r.choice(TYPES + [None]), "v": self.fresh("x"), "vt": r.choice(TYPES + [None])}
        return {"k": "clear", "c": self.fresh("c")}

    def kind(self, which: Optional[str] = None) -> Dict[str, Any]:
        k = which or self.rng.choice(["loop", "loop", "if", "if", "block"])
        if k == "loop":
            return {"k": "loop", "v": self.fresh("i_obj"), "c": self.fresh("coll")}
        if k == "if":
            return {"k": "if", "e": self.fresh("b") + ">0"}
        if k == "else":
            return {"k": "else"}
        return {"k": "block"}

    def var(self) -> Dict[str, Any]:
        t = self.rng.choice(TYPES)
        return {"type": t, "name": self.fresh("v"), "init": self.rng.choice([None, None, "0", "true", self.fresh("seed")])}

    def depth(self) -> int:
        return len(self.real.g._scope_stack)

    def any_tok(self) -> Optional[int]:
        return self.rng.randrange(len(self.real.tokens)) if self.real.tokens else None

    def stack_tok(self) -> Optional[int]:
        c = [i for i, t in enumerate(self.real.tokens) if not t.is_top_level() and len(t._scope_stack) >= 1]
        return self.rng.choice(c) if c else None

    # ---- translator-like macros
    def m_aggregate(self):
        """open a loop, remember the iterator's scope, work inside, declare the accumulator at scope[-1], go back there"""
        self.emit({"o": "addBlock", "kind": self.kind("loop")})
        r = self.emit({"o": "saveScope"})
        if "ok" not in r:
            return
        it = r["ok"]["tok"]
        for _ in range(self.rng.randint(0, 2)):
            self.emit({"o": "addPlain", "p": self.plain()})
        if self.rng.random() < 0.4:
            self.emit({"o": "addBlock", "kind": self.kind("if")})
        r = self.emit({"o": "up", "tok": it, "key": -1})
        if "ok" not in r:
            return
        acc = r["ok"]["tok"]
        self.emit({"o": "declareAt", "tok": acc, "v": self.var()})
        self.emit({"o": "addPlain", "p": self.plain()})
        self.emit({"o": "setScope", "tok": acc})
        if self.rng.random() < 0.5:
            self.emit({"o": "addPlain", "p": self.plain()})

    def m_ifexp(self):
        self.emit({"o": "declareVar", "v": self.var()})
        r0 = self.emit({"o": "saveScope"})
        self.emit({"o": "addBlock", "kind": self.kind("if")})
        r1 = self.emit({"o": "saveScope"})
        if self.rng.random() < 0.3:
            self.emit({"o": "addBlock", "kind": self.kind("loop")})
        self.emit({"o": "addPlain", "p": self.plain()})
        if "ok" in r1:
            self.emit({"o": "setScope", "tok": r1["ok"]["tok"]})
        self.emit({"o": "pop"})
        self.emit({"o": "addBlock", "kind": self.kind("else")})
        self.emit({"o": "addPlain", "p": self.plain()})
        if "ok" in r0:
            self.emit({"o": "setScope", "tok": r0["ok"]["tok"]})

    def m_first(self):
        """declare a flag one level up, open `if (flag)` where we are and stay inside, add the check to the enclosing block"""
        r = self.emit({"o": "saveScope"})
        if "ok" not in r or self.depth() < 2:
            return
        here = r["ok"]["tok"]
        r = self.emit({"o": "up", "tok": here, "key": -1})
        if "ok" not in r:
            return
        upt = r["ok"]["tok"]
        self.emit({"o": "declareAt", "tok": upt, "v": self.var()})
        self.emit({"o": "addBlock", "kind": self.kind("if")})
        self.emit({"o": "addPlain", "p": self.plain()})
        inner = self.emit({"o": "saveScope"})
        self.emit({"o": "setScope", "tok": upt})
        self.emit({"o": "addBlock", "kind": self.kind("if")})
        self.emit({"o": "addPlain", "p": self.plain()})
        if "ok" in inner:
            self.emit({"o": "setScope", "tok": inner["ok"]["tok"]})

    def one(self):
        r = self.rng
        if r.random() < self.err:
            return self.error_op()
        w = r.random()
        if w < 0.22:
            self.emit({"o": "addPlain", "p": self.plain()})
        elif w < 0.34:
            self.emit({"o": "addBlock", "kind": self.kind()})
        elif w < 0.40:
            self.m_aggregate()
        elif w < 0.45:
            self.m_ifexp()
        elif w < 0.49:
            self.m_first()
        elif w < 0.56:
            if self.depth() > 1:
                self.emit({"o": "pop"})
            else:
                self.emit({"o": "addPlain", "p": self.plain()})
        elif w < 0.62:
            self.emit({"o": "saveScope"})
        elif w < 0.67:
            t = self.stack_tok()
            self.emit({"o": "setScope", "tok": t} if t is not None else {"o": "saveScope"})
        elif w < 0.71:
            t = self.stack_tok()
            if t is not None:
                n = len(self.real.tokens[t]._scope_stack)
                keys = [-k for k in range(1, n)] + [k for k in range(1, n + 2)]
                self.emit({"o": "up", "tok": t, "key": r.choice(keys or [1])})
            else:
                self.emit({"o": "saveScope"})
        elif w < 0.77:
            self.emit({"o": "declareVar", "v": self.var()})
        elif w < 0.81:
            t = self.stack_tok()
            self.emit({"o": "declareAt", "tok": t, "v": self.var()} if t is not None else {"o": "declareVar", "v": self.var()})
        elif w < 0.82:
            self.emit({"o": "declareClassVar", "v": self.var()})
        elif w < 0.85:
            self.emit({"o": "addInclude", "p": r.choice(INCLUDES)})
        elif w < 0.86:
            self.emit({"o": "addLibrary", "p": r.choice(LIBS)})
        elif w < 0.88:
            k = r.choice(KEYS) + str(r.randint(0, 4))
            self.keys.append(k)
            self.emit({"o": "setRep", "k": k, "v": self.fresh("rep")})
        elif w < 0.91:
            k = r.choice(self.keys) if (self.keys and r.random() < 0.75) else r.choice(KEYS) + str(r.randint(0, 4))
            self.emit({"o": "getRep", "k": k})
        elif w < 0.955:
            a, b = self.any_tok(), self.any_tok()
            if a is None:
                self.emit({"o": "saveScope"})
            else:
                self.emit({"o": r.choice(["startsWith", "deepest"]), "a": a, "b": b})
        elif w < 0.965:
            self.emit({"o": "saveTop"})
        elif w < 0.975:
            self.emit({"o": "setTop"})
        else:
            blocks = [i for i, o in enumerate(self.real.objs) if isinstance(o, self.real.st.block)]
            self.emit({"o": "addBelow", "target": r.choice(blocks), "st": {"block": self.kind(r.choice(["if", "loop", "block", "else"]))}})

    def error_op(self):
        r = self.rng
        k = r.randrange(9)
        if k == 0:
            for _ in range(self.depth() + r.randint(0, 1)):  # pop to (or past) the top
                self.emit({"o": "pop"})
            self.emit(self._after_empty())
        elif k == 1:
            self.emit({"o": "setScopeNone"})
        elif k == 2:
            t = self.stack_tok()
            if t is not None:
                n = len(self.real.tokens[t]._scope_stack)
                self.emit({"o": "up", "tok": t, "key": r.choice([0, -n, -n - 1])})
            else:
                self.emit({"o": "up", "tok": 0, "key": 0})
        elif k == 3:
            plains = [i for i, o in enumerate(self.real.objs) if not isinstance(o, self.real.st.block)]
            if plains:
                self.emit({"o": "addBelow", "target": r.choice(plains), "st": {"block": self.kind()}})
            else:
                self.emit({"o": "addBelow", "target": 0, "st": {"plain": self.plain()}})
        elif k == 4:
            self.emit({"o": "addBelow", "target": 0, "st": {"plain": self.plain()}})
        elif k == 5:
            r0 = self.emit({"o": "saveTop"})
            if "ok" in r0:
                self.emit({"o": r.choice(["declareAt", "up"]), "tok": r0["ok"]["tok"], "v": self.var(), "key": -1})
        elif k == 6:
            key = r.choice(KEYS) + "x"
            self.emit({"o": "setRep", "k": key, "v": "one"})
            self.emit({"o": "setRep", "k": key, "v": "two"})
        elif k == 7:
            self.emit({"o": r.choice(["setScope", "declareAt", "up"]), "tok": len(self.real.tokens) + r.randint(0, 2), "v": self.var(), "key": -1})
        else:
            self.emit({"o": "addBelow", "target": len(self.real.objs) + r.randint(0, 2), "st": {"block": self.kind()}})

    def _after_empty(self) -> Op:
        c = self.rng.randrange(5)
        if c == 0:
            return {"o": "addPlain", "p": self.plain()}
        if c == 1:
            return {"o": "declareVar", "v": self.var()}
        if c == 2:
            return {"o": "setRep", "k": "ka0", "v": "z"}
        if c == 3:
            return {"o": "saveScope"}
        return {"o": "setTop"}


def random_sequence(rng, error_rate: float = 0.06) -> List[Op]:
    g = Gen(rng, error_rate=error_rate if rng.random() < 0.6 else 0.0)
    target = rng.choice([3, 6, 10, 15, 25, 40])
    while len(g.ops) < target:
        g.one()
    # questions about random pairs of the tokens handed out (starts_with / deepest_scope)
    nt = len(g.real.tokens)
    if nt:
        for _ in range(rng.randint(0, 6)):
            g.emit({"o": rng.choice(["startsWith", "deepest"]), "a": rng.randrange(nt), "b": rng.randrange(nt)})
        for k in g.keys[:2]:
            g.emit({"o": "getRep", "k": k})
    return g.ops


# --------------------------------------------------------------------------------------------
# comparison, oracles, shrinking
# --------------------------------------------------------------------------------------------
FIELDS = ["results", "emit", "includes", "libs", "classdecl", "stack", "tokens"]


def strip_lines(lines: List[str]) -> List[str]:
    return [l.lstrip(" ") for l in lines]


def diff(model: Dict[str, Any], impl: Dict[str, Any]) -> Optional[str]:
    if "bad" in model:
        return "driver: " + str(model["bad"])
    for f in FIELDS:
        if model.get(f) != impl.get(f):
            if f == "results":
                for i, (a, b) in enumerate(zip(model[f], impl[f])):
                    if a != b:
                        return f"results[{i}]"
            return f
    return None


def spec_requests(impl: Dict[str, Any], real: Real) -> List[Dict[str, Any]]:
    lines = strip_lines(impl["emit"])
    pairs = real.uses[:40]
    return [
        {"op": "textNothingLost", "expect": real.expect, "nblocks": real.nblocks, "lines": lines},
        {"op": "textDeclEncloses", "lines": lines, "pairs": [list(p) for p in pairs]},
    ]


def spec_failure(ans_nl: Dict[str, Any], ans_de: Dict[str, Any], real: Real) -> Optional[str]:
    if "bad" in ans_nl or "bad" in ans_de:
        return None
    if not ans_nl.get("holds", False):
        return "nothing_lost: a statement, header or declaration that was added is missing, duplicated, out of insertion order, or a declaration follows a statement of its block"
    for ok, (d, s) in zip(ans_de.get("holds", []), real.uses[:40]):
        if not ok:
            return f"declared_encloses: statement `{s}` was added while the cursor was inside the scope where `{d}` was declared, but in the text it is not inside that block after the declaration"
    return None


def evaluate(ctx, seqs: List[List[Op]]):
    """Run real + model + oracles on a batch of sequences: list of (impl, model, diff, spec failure)."""
    reals = [run_real(ops) for ops in seqs]
    reqs: List[Dict[str, Any]] = []
    for ops, (impl, real) in zip(seqs, reals):
        reqs.append({"op": "run", "ops": ops})
        reqs.extend(spec_requests(impl, real))
    ans = ctx.driver(DRIVER, reqs)
    out = []
    for i, (impl, real) in enumerate(reals):
        m, nl, de = ans[3 * i], ans[3 * i + 1], ans[3 * i + 2]
        out.append((impl, m, diff(m, impl), spec_failure(nl, de, real)))
    return out


def delete_with_fixup(ops: List[Op], i: int, results: List[Dict[str, Any]]) -> Optional[List[Op]]:
    """Delete call `i` and renumber the references of the later calls to tokens / statements created after it
    (None when a later call names what call `i` created)."""
    r = results[i].get("ok") if i < len(results) else None
    tok = r.get("tok") if isinstance(r, dict) else None
    sid = r.get("id") if isinstance(r, dict) and ops[i]["o"] in ("addPlain", "addBlock", "addBelow") else None
    out = ops[:i]
    for op in ops[i + 1 :]:
        op = dict(op)
        if tok is not None:
            for f in ("tok", "a", "b"):
                if f in op and op["o"] in ("setScope", "up", "declareAt", "startsWith", "deepest"):
                    if op[f] == tok:
                        return None
                    if op[f] > tok:
                        op[f] -= 1
        if sid is not None and op["o"] == "addBelow":
            if op["target"] == sid:
                return None
            if op["target"] > sid:
                op["target"] -= 1
        out.append(op)
    return out


def shrink(ctx, ops: List[Op], failing) -> List[Op]:
    """Greedy deletion (chunks, then single calls — also with the later references renumbered) while
    `failing(result tuple)` stays true.  Every subsequence is a valid test (dangling references are
    `BadRef` on both sides)."""
    import time

    size = max(1, len(ops) // 2)
    rounds, t0 = 0, time.time()
    while size >= 1 and rounds < 60 and time.time() - t0 < SHRINK_BUDGET_S:
        rounds += 1
        cands = [ops[:i] + ops[i + size :] for i in range(0, len(ops), size)]
        if size == 1:
            results = run_real(ops)[0]["results"]
            cands += [c for c in (delete_with_fixup(ops, i, results) for i in range(len(ops))) if c is not None]
        uniq: List[List[Op]] = []
        for c in cands:
            if c and c != ops and c not in uniq:
                uniq.append(c)
        hit = None
        if uniq:
            for c, r in zip(uniq, evaluate(ctx, uniq)):
                if failing(r):
                    hit = c
                    break
        if hit is not None:
            ops = hit
            size = min(size, max(1, len(ops) // 2))
        elif size == 1:
            break
        else:
            size //= 2
    return ops


def shape(ops: List[Op]) -> Dict[str, int]:
    d: Dict[str, int] = {}
    for op in ops:
        d[op["o"]] = d.get(op["o"], 0) + 1
    return d


def run_stream(ctx, n_cases: int = 400, report: bool = True, extra: Optional[List[List[Op]]] = None) -> Dict[str, Any]:
    """Correspondence + Spec-on-implementation stream for the cursor model.

    Returns {"cases", "ops", "error_ops", "disagreements", "violations", "first_disagreement", "first_violation"};
    the `first_*` entries carry the op sequence SHRUNK to a minimal one, what differs, and both sides' outputs.
    With `report=True` (default) the evidence counters of `ctx` are fed (`ctx.case`, `ctx.count`) and findings are
    reported through `ctx.disagreement` / `ctx.violation`."""
    seqs = list(extra or []) + FIXED + [random_sequence(ctx.rng) for _ in range(n_cases)]
    res = evaluate(ctx, seqs)
    summary: Dict[str, Any] = {"cases": len(seqs), "ops": 0, "error_ops": 0, "disagreements": 0, "violations": 0, "first_disagreement": None, "first_violation": None}
    for ops, (impl, m, d, sf) in zip(seqs, res):
        nerr = sum(1 for r in impl["results"] if "err" in r)
        summary["ops"] += len(ops)
        summary["error_ops"] += nerr
        if report:
            ctx.count("cursor:sequences")
            ctx.count("cursor:calls", len(ops))
            ctx.count("cursor:calls-raising", nerr)
            ctx.count("cursor:lines-emitted", len(impl["emit"]))
            for k, v in shape(ops).items():
                ctx.count("cursor-op:" + k, v)
            ctx.case(("cursor", ops), len(ops) >= 5 and len(impl["emit"]) > 4, None)
        if "bad" in m:
            continue  # the driver failure is already recorded as a broken obligation
        if sf is not None:
            summary["violations"] += 1
            if summary["first_violation"] is None:
                small = shrink(ctx, ops, lambda r: r[3] is not None)
                (impl2, m2, d2, sf2) = evaluate(ctx, [small])[0]
                summary["first_violation"] = {"ops": small, "what": sf2 or sf, "emitted": impl2["emit"], "results": impl2["results"]}
                if report:
                    ctx.violation(
                        key="cursor:" + json.dumps(small, sort_keys=True),
                        what="code-generation cursor: " + (sf2 or sf),
                        case={"cursor_ops": small},
                        observed={"emitted": impl2["emit"], "results": impl2["results"]},
                        how="tools/c02_cursor.py: run_real(case['cursor_ops']) replays the calls on a fresh generated_code()",
                    )
        if d is not None:
            summary["disagreements"] += 1
            if summary["first_disagreement"] is None:
                small = shrink(ctx, ops, lambda r: r[2] is not None)
                (impl2, m2, d2, sf2) = evaluate(ctx, [small])[0]
                summary["first_disagreement"] = {"ops": small, "differs": d2 or d, "model": {f: m2.get(f) for f in FIELDS}, "implementation": {f: impl2.get(f) for f in FIELDS}}
                if report:
                    ctx.disagreement("cursor state machine", {"cursor_ops": small, "differs": d2 or d}, {f: m2.get(f) for f in FIELDS}, {f: impl2.get(f) for f in FIELDS})
    return summary


def replay(ops: List[Op]) -> Dict[str, Any]:
    """Re-run a stored op sequence on the real code (for replay files)."""
    impl, real = run_real(ops)
    return impl


# fixed sequences, always run first: the witnesses of the `_counterexample` theorems and the translator's idioms
FIXED: List[List[Op]] = [
    # cursor_path_counterexample: `below=` puts a block between two entries of the cursor
    [{"o": "addBlock", "kind": {"k": "if", "e": "a"}}, {"o": "addBlock", "kind": {"k": "loop", "v": "i", "c": "c"}},
     {"o": "addBelow", "target": 1, "st": {"block": {"k": "else"}}}, {"o": "addPlain", "p": {"k": "arb", "line": "x"}}],
    # popping past the top, then everything that touches `_scope_stack[-1]`
    [{"o": "pop"}, {"o": "addPlain", "p": {"k": "arb", "line": "x"}}, {"o": "declareVar", "v": {"type": "int", "name": "v", "init": None}},
     {"o": "setRep", "k": "k", "v": "v"}, {"o": "getRep", "k": "k"}, {"o": "saveScope"}, {"o": "up", "tok": 0, "key": -1},
     {"o": "declareAt", "tok": 0, "v": {"type": "int", "name": "w", "init": None}}, {"o": "setTop"}, {"o": "pop"}, {"o": "saveTop"},
     {"o": "startsWith", "a": 0, "b": 1}, {"o": "startsWith", "a": 1, "b": 0}, {"o": "deepest", "a": 0, "b": 1}, {"o": "deepest", "a": 1, "b": 0}],
    # python slicing of a token
    [{"o": "addBlock", "kind": {"k": "block"}}, {"o": "addBlock", "kind": {"k": "block"}}, {"o": "saveScope"}] +
    [{"o": "up", "tok": 0, "key": k} for k in (-4, -3, -2, -1, 0, 1, 2, 3, 4)],
]


class _MiniProp:
    ID = "C02"


def main(argv: List[str]) -> int:
    sys.path.insert(0, os.path.dirname(os.path.abspath(__file__)))
    import vlib

    n = int(argv[1]) if len(argv) > 1 else 400
    seed = int(argv[2]) if len(argv) > 2 else int(os.environ.get("VERIF_SEED", "0"))
    vlib.repo_on_path()
    ctx = vlib.Ctx(_MiniProp, "quick", seed)
    import time

    t0 = time.time()
    s = run_stream(ctx, n)
    s["wall_s"] = round(time.time() - t0, 2)
    s["repo"] = str(vlib.REPO)
    s["driver_broken"] = [b for b in ctx.broken if b.get("kind") == "driver"]
    print(json.dumps(s, indent=1, default=str))
    return 1 if (s["disagreements"] or s["violations"] or s["driver_broken"]) else 0


if __name__ == "__main__":
    sys.exit(main(sys.argv))
