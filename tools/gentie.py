"""Text tie between the Lean translator model `Gen.compile` (fragment F0-lite) and the real
translator: generate fragment queries, obtain the model's package text from the driver and the
implementation's from the pipeline, parse both with the same parser and compare the trees modulo a
bijective renaming of declared identifiers (first-occurrence numbering) and the value of floating
literals.
"""
from __future__ import annotations

import copy
from typing import Any, Dict, List, Optional, Tuple

import cparse
import qgen

METH_TY = {"i": "int", "j": "int", "f": "float", "d": "double", "g": "double", "b": "bool"}

# ---------------------------------------------------------------- generation of F0-lite


class LiteGen:
    def __init__(self, rng):
        self.rng = rng

    def const(self, ty):
        r = self.rng
        if ty == "int":
            return {"k": "int", "v": r.choice([0, 1, 2, 3, 5])}
        if ty == "double":
            return {"k": "dbl", "v": r.choice(["0.5", "1.5", "2.0", "2.5", "10.0", "0.25"])}
        return {"k": "bool", "v": r.random() < 0.5}

    def pe(self, cur: Optional[str], ty: str, depth: int) -> Dict[str, Any]:
        """cur: None = object element; else the numeric type of `it`."""
        r = self.rng
        if depth <= 0 or r.random() < 0.3:
            if cur is None:
                ms = {"int": ["i", "j"], "double": ["d", "g", "f", "i"], "bool": ["b"]}[ty]
                if r.random() < 0.8:
                    m = r.choice(ms)
                    return {"k": "meth", "n": m, "ty": METH_TY[m]}
                return self.const(ty)
            if ty in ("double", cur) and ty != "bool" and r.random() < 0.8:
                return {"k": "it"}
            return self.const(ty)
        if ty == "bool":
            c = r.choice(["cmp", "cmp", "cmp", "not"])
            if c == "cmp":
                t = r.choice(["int", "double"])
                return {"k": "cmp", "op": r.choice(["<", "<=", ">", ">=", "==", "!="]), "a": self.pe(cur, t, depth - 1), "b": self.pe(cur, t, depth - 1)}
            return {"k": "not", "a": self.pe(cur, "bool", depth - 1)}
        c = r.choice(["bin", "bin", "bin", "div", "neg"] if ty == "double" else ["bin", "bin", "neg"])
        if c == "bin":
            ta = ty if ty == "int" else r.choice(["int", "double"])
            tb = ty if ty == "int" else ("double" if ta == "int" else r.choice(["int", "double"]))
            return {"k": "bin", "op": r.choice(["+", "-", "*"]), "a": self.pe(cur, ta, depth - 1), "b": self.pe(cur, tb, depth - 1)}
        if c == "div":
            return {"k": "bin", "op": "/", "a": self.pe(cur, r.choice(["int", "double"]), depth - 1), "b": r.choice([{"k": "int", "v": 2}, {"k": "dbl", "v": "4.0"}, {"k": "int", "v": 4}])}
        return {"k": "neg", "a": self.pe(cur, ty, depth - 1)}

    def uses_it(self, e) -> bool:
        if isinstance(e, dict):
            if e.get("k") in ("it", "meth"):
                return True
            return any(self.uses_it(v) for v in e.values())
        return False

    def dep(self, e, cur, ty):
        """lambda bodies that ignore their variable are a listed defect class: make them use it"""
        if self.uses_it(e):
            return e
        leaf = {"k": "meth", "n": "i", "ty": "int"} if cur is None else {"k": "it"}
        if ty == "bool":
            return {"k": "cmp", "op": ">", "a": leaf, "b": {"k": "int", "v": 0}}
        if ty == "int" and cur not in (None, "int"):
            return None
        return {"k": "bin", "op": self.rng.choice(["+", "*"]), "a": e, "b": leaf}

    def chain(self, want: str) -> Tuple[Dict[str, Any], Optional[str]]:
        """want: 'obj' (elements stay objects), 'num' (ends numeric), 'any'"""
        r = self.rng
        coll = r.choice(["As", "Bs"])
        bank = r.choice({"As": ["ba", "ba2"], "Bs": ["bb"]}[coll])
        steps, cur = [], None
        n = r.choice([0, 1, 1, 2, 3])
        for _ in range(n):
            if cur is None and want != "obj" and r.random() < 0.4:
                ty = r.choice(["int", "double"])
                e = self.dep(self.pe(cur, ty, 2), cur, ty)
                steps.append({"k": "sel", "e": e})
                cur = ty
            elif cur is not None and r.random() < 0.4:
                e = self.dep(self.pe(cur, "double", 2), cur, "double")
                steps.append({"k": "sel", "e": e})
                cur = "double"
            else:
                steps.append({"k": "whr", "e": self.dep(self.pe(cur, "bool", 2), cur, "bool")})
        if want == "num" and cur is None:
            ty = r.choice(["int", "double"])
            steps.append({"k": "sel", "e": self.dep(self.pe(None, ty, 2), None, ty)})
            cur = ty
        return {"coll": coll, "bank": bank, "steps": steps}, cur

    def ee(self, ty: str, depth: int) -> Dict[str, Any]:
        r = self.rng
        if ty == "bool":
            t = r.choice(["int", "double"])
            return {"k": "cmp", "op": r.choice(["<", ">", ">=", "==", "!="]), "a": self.ee(t, depth - 1), "b": self.ee(t, depth - 1)}
        if depth <= 0 or r.random() < 0.35:
            c = r.choice(["count", "count", "sum", "const"])
            if c == "count":
                return {"k": "count", "c": self.chain("any")[0]}
            if c == "sum":
                ch, cur = self.chain("num")
                if ty == "int" and cur != "int":
                    return {"k": "count", "c": ch}
                return {"k": "sum", "c": ch}
            return self.const(ty)
        c = r.choice(["bin", "bin", "div", "neg"] if ty == "double" else ["bin", "neg"])
        if c == "bin":
            ta = ty if ty == "int" else r.choice(["int", "double"])
            tb = ty if ty == "int" else ("double" if ta == "int" else r.choice(["int", "double"]))
            return {"k": "bin", "op": r.choice(["+", "-", "*"]), "a": self.ee(ta, depth - 1), "b": self.ee(tb, depth - 1)}
        if c == "div":
            return {"k": "bin", "op": "/", "a": self.ee(r.choice(["int", "double"]), depth - 1), "b": r.choice([{"k": "int", "v": 2}, {"k": "dbl", "v": "4.0"}])}
        return {"k": "neg", "a": self.ee(ty, depth - 1)}

    def fq(self) -> Dict[str, Any]:
        r = self.rng
        names = lambda n: [f"c{i}_{r.choice(['pt', 'eta', 'n'])}" for i in range(n)]
        if r.random() < 0.6:
            n = r.randint(1, 3)
            cols = []
            for nm in names(n):
                u = r.random()
                if u < 0.5:
                    cols.append({"name": nm, "k": "scalar", "e": self.ee(r.choice(["int", "double", "double", "bool"]), 2)})
                elif u < 0.62:
                    cols.append({"name": nm, "k": "first", "c": self.chain("num")[0]})
                else:
                    cols.append({"name": nm, "k": "seq", "c": self.chain("num")[0]})
            return {"k": "eventRows", "cols": cols}
        ch, cur = self.chain(r.choice(["obj", "obj", "any"]))
        n = r.randint(1, 3)
        cols = [{"name": nm, "e": self.pe(cur, r.choice(["int", "double", "double", "bool"]) if cur is None else r.choice(["double", "bool"]), 2)} for nm in names(n)]
        return {"k": "elemRows", "c": ch, "cols": cols}


def valid(x) -> bool:
    if x is None:
        return False
    if isinstance(x, dict):
        return all(valid(v) for v in x.values())
    if isinstance(x, list):
        return all(valid(v) for v in x)
    return True


# ---------------------------------------------------------------- F0-lite -> user-level query JSON (mirror of Gen.FQ.toQuery)


def pe_q(x: str, e: Dict[str, Any]) -> Dict[str, Any]:
    k = e["k"]
    if k in ("int", "dbl", "bool"):
        return dict(e)
    if k == "it":
        return {"k": "var", "n": x}
    if k == "meth":
        return {"k": "meth", "o": {"k": "var", "n": x}, "n": e["n"]}
    if k in ("bin", "cmp"):
        return {"k": k, "op": e["op"], "a": pe_q(x, e["a"]), "b": pe_q(x, e["b"])}
    if k in ("neg", "not"):
        return {"k": k, "a": pe_q(x, e["a"])}
    raise ValueError(k)


def chain_q(ev: str, c: Dict[str, Any]) -> Dict[str, Any]:
    q = {"k": "coll", "e": {"k": "var", "n": ev}, "c": c["coll"], "bank": c["bank"]}
    for i, s in enumerate(c["steps"]):
        x = f"x{i}"
        q = {"k": "Select" if s["k"] == "sel" else "Where", "s": q, "x": x, "f": pe_q(x, s["e"])}
    return q


def ee_q(ev: str, e: Dict[str, Any]) -> Dict[str, Any]:
    k = e["k"]
    if k in ("int", "dbl", "bool"):
        return dict(e)
    if k == "count":
        return {"k": "Count", "s": chain_q(ev, e["c"])}
    if k == "sum":
        return {"k": "Sum", "s": chain_q(ev, e["c"])}
    if k in ("bin", "cmp"):
        return {"k": k, "op": e["op"], "a": ee_q(ev, e["a"]), "b": ee_q(ev, e["b"])}
    if k in ("neg", "not"):
        return {"k": k, "a": ee_q(ev, e["a"])}
    raise ValueError(k)


def fq_query(fq: Dict[str, Any]) -> Tuple[Dict[str, Any], List[str]]:
    names = [c["name"] for c in fq["cols"]]
    if fq["k"] == "eventRows":
        es = [ee_q("e", c["e"]) if c["k"] == "scalar" else ({"k": "First", "s": chain_q("e", c["c"])} if c["k"] == "first" else chain_q("e", c["c"])) for c in fq["cols"]]
        return {"k": "Select", "s": {"k": "ds"}, "x": "e", "f": {"k": "dict", "ks": names, "es": es}}, names
    es = [pe_q("r", c["e"]) for c in fq["cols"]]
    return {"k": "Select", "s": {"k": "SelectMany", "s": {"k": "ds"}, "x": "e", "f": chain_q("e", fq["c"])}, "x": "r", "f": {"k": "dict", "ks": names, "es": es}}, names


def colls_json(backend: str) -> List[Dict[str, str]]:
    return [{"name": c, "type": qgen.cont_type(backend, c), "elem": qgen.elem_type(backend, c)} for c in qgen.COLLS]


# ---------------------------------------------------------------- canonical form of a package


def canon_package(body_lines: List[str], class_decl: List[Any], branches: List[Dict[str, str]], tokens: List[Dict[str, str]], tree: str) -> Dict[str, Any]:
    body = cparse.parse_body(body_lines)
    qgen._attach_retrieve_types(body, {})
    cvs = cparse.parse_class_decl(class_decl)
    ren: Dict[str, str] = {}

    def name(n: str) -> str:
        if n == "result":
            return n
        if n not in ren:
            ren[n] = f"N{len(ren)}"
        return ren[n]

    # declaring positions, in text order: class variables, then the body
    for cv in cvs:
        name(cv["n"])

    def walk_decl(node):
        if isinstance(node, dict):
            k = node.get("k")
            if k == "decl":
                name(node["n"])
            if k == "for":
                name(node["x"])
            for key in ("body", "then", "else"):
                if node.get(key):
                    for s in node[key]:
                        walk_decl(s)

    walk_decl(body)

    def rn(node):
        if isinstance(node, dict):
            out = {}
            k = node.get("k")
            for key, v in node.items():
                if key in ("n", "x", "v", "token") and isinstance(v, str) and k in ("var", "decl", "for", "set", "push", "clear", "retrieve"):
                    out[key] = ren.get(v, v) if v else v
                elif k == "dbl" and key == "v":
                    out[key] = repr(float(v))
                elif k == "throw" and key == "msg":
                    out[key] = "<message>"  # the text quotes the normalised query; not part of the tie
                elif key == "arrow" or key == "call":
                    out[key] = v
                else:
                    out[key] = rn(v)
            return out
        if isinstance(node, list):
            return [rn(x) for x in node]
        return node

    return {
        "body": rn(body),
        "class_vars": [{"t": cv["t"], "n": ren.get(cv["n"], cv["n"])} for cv in cvs],
        "branches": [{"name": b["name"], "var": ren.get(b["var"], b["var"])} for b in branches],
        "tokens": [{"token": ren.get(t["token"], t["token"]), "type": t["type"].strip(), "bank": t["bank"]} for t in tokens],
        "tree": tree,
    }


def first_diff(a, b, path="") -> Optional[str]:
    if type(a) != type(b):
        return f"{path}: {a!r} vs {b!r}"
    if isinstance(a, dict):
        for k in sorted(set(a) | set(b)):
            if k not in a or k not in b:
                return f"{path}.{k}: present on one side only"
            d = first_diff(a[k], b[k], f"{path}.{k}")
            if d:
                return d
        return None
    if isinstance(a, list):
        if len(a) != len(b):
            return f"{path}: {len(a)} vs {len(b)} entries"
        for i, (x, y) in enumerate(zip(a, b)):
            d = first_diff(x, y, f"{path}[{i}]")
            if d:
                return d
        return None
    return None if a == b else f"{path}: {a!r} vs {b!r}"


def impl_canon(r: Dict[str, Any]) -> Dict[str, Any]:
    book = cparse.parse_book(r["book"])
    toks = [{"token": t["token"], "type": t["type"], "bank": qgen.bank_text(t["bank"])} for t in book["tokens"]]
    return canon_package(r["query"], r["class_decl"], book["branches"], toks, book["trees"][0] if book["trees"] else "")


def model_canon(m: Dict[str, Any]) -> Dict[str, Any]:
    return canon_package(m["body"], m["class_decl"], m["branches"], m["tokens"], m["tree"])
