"""C13: what CPython computes for a query lambda, on a tiny in-memory event model.

`Sum`/`Max`/`Min`/`Count` are func_adl's own definitions (`aggregate_node_transformer`): folds seeded with the
int 0 (`acc + v`, `acc if acc > v else v`, `acc if acc < v else v`, `acc + 1`)."""
from __future__ import annotations

from functools import reduce
from typing import Any, Dict, List, Optional, Tuple

from . import exprs as X


class Obj:
    def __init__(self, row: Tuple):
        self._v = dict(zip([n for n, _ in X.METHODS], row))

    def i(self): return int(self._v["i"])
    def f(self): return float(self._v["f"])
    def d(self): return float(self._v["d"])
    def b(self): return bool(self._v["b"])
    def i2(self): return int(self._v["i2"])
    def f2(self): return float(self._v["f2"])
    def d2(self): return float(self._v["d2"])
    def b2(self): return bool(self._v["b2"])


class Seq(list):
    def Select(self, f): return Seq(f(x) for x in self)
    def Where(self, f): return Seq(x for x in self if f(x))
    def First(self): return self[0]
    def Count(self): return reduce(lambda acc, v: acc + 1, self, 0)
    def Sum(self): return reduce(lambda acc, v: acc + v, self, 0)
    def Max(self): return reduce(lambda acc, v: acc if acc > v else v, self, 0)
    def Min(self): return reduce(lambda acc, v: acc if acc < v else v, self, 0)
    def Aggregate(self, seed, f): return reduce(f, self, seed)


class Event:
    def __init__(self, banks: Dict[str, List[Tuple]], ei: Optional[Tuple] = None):
        self._banks = {k: Seq(Obj(r) for r in v) for k, v in banks.items()}
        self._ei = Obj(ei) if ei is not None else None

    def Jets(self, name): return self._banks[name]
    def EventInfo(self, name): return self._ei


def pv(v: Any) -> Optional[Dict[str, str]]:
    """canonical Python value, same shape as the driver's pvJson"""
    if type(v) is bool:
        return {"k": "bool", "v": "1" if v else "0"}
    if type(v) is int:
        return {"k": "int", "v": str(v)}
    if type(v) is float:
        return {"k": "float", "v": X.f2bits(v)}
    return None


def evaluate(lambda_src: str, event: Event):
    """-> value, or None when Python raises (ZeroDivisionError, OverflowError) or leaves the reals (complex)"""
    try:
        r = eval(lambda_src, {"__builtins__": {}})(event)
    except (ZeroDivisionError, OverflowError):
        return None
    if isinstance(r, Seq):
        return [pv(x) for x in r]
    return pv(r)
