"""C13 thorough tier: the real `execute()` bodies of all accepted cases are compiled with g++ against a mock of the
declared event data model (a few translation units, built in parallel), run on the sample rows, and the value and
*type* of the column they fill are printed.  The Spec is then evaluated by the Lean driver on these observed values
("the compiled job computes what Python computes"), and the model's evalC is compared with g++ on every sample."""
from __future__ import annotations

import os
import re
import shutil
import subprocess
import tempfile
from concurrent.futures import ThreadPoolExecutor
from pathlib import Path
from typing import Any, Dict, List, Optional, Tuple

from . import exprs as X

PRELUDE = r"""
#include <vector>
#include <string>
#include <map>
#include <cstdio>
#include <cstring>
#include <cmath>
#include <cstdint>
#include <numeric>
#include <functional>
#include <stdexcept>
namespace xAOD {
  struct Jet {
    int vi; float vf; double vd; bool vb; int vi2; float vf2; double vd2; bool vb2;
    int i() const { return vi; } float f() const { return vf; } double d() const { return vd; } bool b() const { return vb; }
    int i2() const { return vi2; } float f2() const { return vf2; } double d2() const { return vd2; } bool b2() const { return vb2; }
  };
  typedef std::vector<const Jet*> JetContainer;
  struct EventInfo : Jet {};
}
struct Store {
  std::map<std::string, xAOD::JetContainer> banks; const xAOD::EventInfo* ei = nullptr;
  bool retrieve(const xAOD::JetContainer*& r, const std::string& n) { r = &banks[n]; return true; }
  bool retrieve(const xAOD::EventInfo*& r, const std::string&) { r = ei; return true; }
};
#define ANA_CHECK(x) x
inline void pv(int v) { printf(" int %d", v); }
inline void pv(bool v) { printf(" bool %d", v ? 1 : 0); }
inline void pv(float v) { double d = v; unsigned long long b; memcpy(&b, &d, 8); printf(" float %llu", b); }
inline void pv(double v) { unsigned long long b; memcpy(&b, &v, 8); printf(" double %llu", b); }
template <class T> void emit(int c, int ev, const std::vector<T>& col) { printf("ROW %d %d", c, ev); for (T x : col) pv(x); printf("\n"); }
template <class T> void emit(int c, int ev, const T& v) { printf("ROW %d %d", c, ev); pv(v); printf("\n"); }
struct Tree { std::function<void()> f; void Fill() { f(); } };
struct Base { Store* st; Tree tr; Store* evtStore() { return st; } Tree* tree(const char*) { return &tr; } };
static xAOD::EventInfo mkei(int i, float f, double d, bool b, int i2, float f2, double d2, bool b2) {
  xAOD::EventInfo e; e.vi = i; e.vf = f; e.vd = d; e.vb = b; e.vi2 = i2; e.vf2 = f2; e.vd2 = d2; e.vb2 = b2; return e; }
"""


def lit_row(row: Tuple) -> str:
    i, f, d, b, i2, f2, d2, b2 = row
    return f"{int(i)}, {float(f)!r}f, {float(d)!r}, {'true' if b else 'false'}, {int(i2)}, {float(f2)!r}f, {float(d2)!r}, {'true' if b2 else 'false'}"


def events_for(res, valid: List[int]) -> List[Tuple[int, Dict[str, List[Tuple]], Optional[Tuple]]]:
    """[(event id, banks, eventinfo row)] and, through the event id, which samples each output row belongs to"""
    form, level, desc = res["form"], res["level"], res["desc"]
    dummy = X.ROWS_GENERAL[0]
    if form["form"] == "agg":
        return [(k, {"J": list(desc[k][1])}, None) for k in valid]
    if level == "jet":
        return [(0, {"J": [desc[k][1] for k in valid]}, None)]
    return [(k, {"J1": [dummy] * desc[k][2][0], "J2": [dummy] * desc[k][2][1], "J": list(desc[k][3])}, desc[k][1]) for k in valid]


def case_code(idx: int, res, valid: List[int]) -> Tuple[str, str]:
    r = res["impl"]
    lines = r["body"][1:] if r["body"] and r["body"][0] == "{" else r["body"]  # the function's own brace
    body = "\n".join(lines)
    s = f"struct C{idx} : Base {{\n  {r['col_decl']}\n  void execute() {{\n{body}\n  }}\n"
    s += f"  void go(int ev) {{ tr.f = [this, ev] {{ emit({idx}, ev, {r['col_name']}); }}; execute(); }}\n}};\n"
    m = f"  {{ // {idx}\n"
    for ev, banks, ei in events_for(res, valid):
        m += "    { Store s; C%d c; c.st = &s;\n" % idx
        n = 0
        for bank, rows in banks.items():
            for row in rows:
                m += f"      static const xAOD::Jet j{idx}_{ev}_{n} = {{{lit_row(row)}}}; s.banks[\"{bank}\"].push_back(&j{idx}_{ev}_{n});\n"
                n += 1
        if ei is not None:
            m += f"      static const xAOD::EventInfo e{idx}_{ev} = mkei({lit_row(ei)}); s.ei = &e{idx}_{ev};\n"
        m += f"      c.go({ev}); }}\n"
    m += "  }\n"
    return s, m


def build_and_run(workdir: Path, name: str, chunk: List[Tuple[int, Any, List[int]]]) -> Dict[str, Any]:
    src = PRELUDE
    line_of: List[Tuple[int, int, int]] = []  # (first line, last line, case idx)
    mains = "int main() {\n"
    for idx, res, valid in chunk:
        s, m = case_code(idx, res, valid)
        start = src.count("\n") + 1
        src += s
        line_of.append((start, src.count("\n"), idx))
        mains += m
    src += mains + "  return 0;\n}\n"
    f = workdir / f"{name}.cpp"
    f.write_text(src)
    exe = workdir / name
    p = subprocess.run(["g++", "-std=c++17", "-O0", "-w", "-o", str(exe), str(f)], capture_output=True, text=True, timeout=1500)
    if p.returncode != 0:
        bad = []
        for m in re.finditer(rf"{re.escape(f.name)}:(\d+):\d+: error: (.*)", p.stderr):
            ln = int(m.group(1))
            for a, b, idx in line_of:
                if a <= ln <= b:
                    bad.append((idx, m.group(2)))
                    break
        return {"compile_error": p.stderr[-1500:], "bad": bad}
    q = subprocess.run([str(exe)], capture_output=True, text=True, timeout=600)
    return {"rc": q.returncode, "out": q.stdout}


def parse_rows(out: str) -> Dict[Tuple[int, int], List[Dict[str, str]]]:
    rows: Dict[Tuple[int, int], List[Dict[str, str]]] = {}
    lines = out.split("\n")
    for l in lines[:-1]:  # only complete lines
        if not l.startswith("ROW "):
            continue
        t = l.split()
        vals = [{"k": t[i], "v": ("0" if t[i + 1] == "9223372036854775808" and t[i] in ("float", "double") else t[i + 1])} for i in range(3, len(t), 2)]  # -0.0 == 0.0
        rows[(int(t[1]), int(t[2]))] = vals
    return rows


def run_compiled(ctx, results, accepted: List[int], spec_request, judge_spec, HOW: str, known_keys) -> None:
    """results: the evaluated cases of the run; accepted: indices of those the translator accepted, readable, outside the
    defect exclusions."""
    todo: List[Tuple[int, Any, List[int]]] = []

    def valid_of(res) -> set:
        rows = res["spec"].get("rows") or []
        return {k for k, row in enumerate(rows) if row.get("inq") and row.get("py") is not None}

    # a row's body computes all its columns: a sample is run only if it is valid for every column of the row, and a
    # row with a column inside a defect exclusion (or not accepted) is left to the text-level oracle
    row_valid: Dict[str, set] = {}
    row_bad: set = set()
    acc_set = set(accepted)
    for idx, res in enumerate(results):
        q = res["form"].get("_rowquery")
        if q is None:
            continue
        if idx not in acc_set:
            row_bad.add(q)
        else:
            row_valid[q] = row_valid[q] & valid_of(res) if q in row_valid else valid_of(res)
    for idx in accepted:
        res = results[idx]
        q = res["form"].get("_rowquery")
        if q is not None and q in row_bad:
            ctx.count("g++:row-with-excluded-column-skipped")
            continue
        valid = sorted(valid_of(res) if q is None else row_valid[q])
        if valid:
            todo.append((idx, res, valid))
    if not todo:
        return
    nchunks = max(1, min(12, len(todo) // 150 + 1))
    chunks = [todo[i::nchunks] for i in range(nchunks)]
    workdir = Path(tempfile.mkdtemp(prefix="c13cxx_"))
    try:
        with ThreadPoolExecutor(max_workers=min(nchunks, (os.cpu_count() or 4))) as ex:
            outs = list(ex.map(lambda a: build_and_run(workdir, f"t{a[0]}", a[1]), enumerate(chunks)))
    finally:
        shutil.rmtree(workdir, ignore_errors=True)
    ctx.check_time()
    reqs, metas = [], []
    for chunk, o in zip(chunks, outs):
        if "compile_error" in o:
            ctx.count("g++:chunks-not-compiling")
            seen = set()
            for idx, msg in o["bad"]:
                if idx in seen:
                    continue
                seen.add(idx)
                res = results[idx]
                key = X.form_key(res["form"], res["level"])
                if key not in known_keys:
                    ctx.violation(key=key, what=f"the generated code does not compile: {msg}", case={"level": res["level"], "form": res["form"], "query": X.form_src(res["form"], res["level"])}, observed={"emitted": res["impl"].get("leaf_decls", []) + res["impl"]["lines"] + [res["impl"]["fill"]], "g++": msg}, how=HOW)
            if not o["bad"]:
                raise RuntimeError("g++ failed on the mock harness itself:\n" + o["compile_error"])
            continue
        rows = parse_rows(o["out"])
        for idx, res, valid in chunk:
            form, level = res["form"], res["level"]
            nsamp = len(res["samples"])
            observed: List[Any] = [None] * nsamp
            missing = False
            if form["form"] != "agg" and level == "jet":
                vals = rows.get((idx, 0))
                if vals is None or len(vals) != len(valid):
                    missing = True
                else:
                    for k, v in zip(valid, vals):
                        observed[k] = v
            else:
                for k in valid:
                    vals = rows.get((idx, k))
                    if vals is None or len(vals) != 1:
                        missing = True
                    else:
                        observed[k] = vals[0]
            if missing:
                key = X.form_key(form, level)
                if o["rc"] != 0 and key not in known_keys:
                    ctx.violation(key=key, what=f"the compiled job stopped (exit status {o['rc']}) before filling this column", case={"level": level, "form": form, "query": X.form_src(form, level)}, observed={"emitted": res["impl"].get("leaf_decls", []) + res["impl"]["lines"] + [res["impl"]["fill"]]}, how=HOW)
                ctx.count("g++:no-output")
                continue
            reqs.append(spec_request(res, observed))
            metas.append((idx, res, valid, observed))
    ans = ctx.driver("FaxVerif/C13/Driver.lean", reqs)
    for (idx, res, valid, observed), s in zip(metas, ans):
        ctx.count("g++:cases-compiled-and-run")
        ctx.count("g++:samples", len(valid))
        if "bad" in s:
            continue
        judge_spec(ctx, res, s, observed)
        # the tie of the C++ semantics: what g++ computed against the model's evalC on the model's own output
        for k in valid:
            mv = (res["spec"]["rows"][k] or {}).get("model")
            if mv != observed[k]:
                ctx.disagreement("evalC-vs-g++", {"query": X.form_src(res["form"], res["level"]), "sample": k}, mv, observed[k])
                break
