"""C13: run the real translator on a query whose data model is declared through metadata, and read the pieces the
property talks about off the generated C++ *text* (query.cxx / query.h): the scalar declarations, the
conditional, the accumulator, the column fill and the declared column type.  Generated names are renamed
(whole tokens, found in declaring positions) to the canonical names the model uses."""
from __future__ import annotations

import re
import shutil
import tempfile
from pathlib import Path
from typing import Any, Dict, List, Optional

from . import exprs as X

_DS = None


def _dataset():
    global _DS
    if _DS is None:
        from func_adl import EventDataset

        class DS(EventDataset):
            async def execute_result_async(self, a, title):
                return a

        _DS = DS
    return _DS()


METADATA = [
    {"metadata_type": "add_method_type_info", "type_string": ts, "method_name": n, "return_type": t}
    for ts in ("xAOD::Jet", "xAOD::EventInfo")
    for n, t in X.METHODS
]


def translate_query(lambda_src: str) -> Dict[str, Any]:
    """-> {"cxx": text, "h": text} or {"err": exception class name, "msg": …}"""
    from func_adl_xAOD.atlas.xaod.executor import atlas_xaod_executor

    d = Path(tempfile.mkdtemp(prefix="c13_"))
    try:
        try:
            q = _dataset()
            for m in METADATA:
                q = q.MetaData(m)
            a = q.Select(lambda_src).value()
        except Exception as e:
            # raised by func_adl's own front end (its type follower rejects e.g. `True if c else 2` on a typed
            # stream) before /repo's code sees the query: not a statement about the translator
            return {"frontend": type(e).__name__, "msg": str(e)[:300]}
        exe = atlas_xaod_executor()
        a2 = exe.apply_ast_transformations(a)
        exe.write_cpp_files(a2, d)
        return {"cxx": (d / "query.cxx").read_text(), "h": (d / "query.h").read_text()}
    except Exception as e:  # a refusal
        # a failed translation leaves method types registered (C07's finding): harmless here, the same ones are re-declared
        return {"err": type(e).__name__, "msg": str(e)[:300]}
    finally:
        shutil.rmtree(d, ignore_errors=True)


def execute_body(cxx: str) -> List[str]:
    i = cxx.index("StatusCode query :: execute ()")
    j = cxx.index("return StatusCode::SUCCESS", i)
    lines = [l.strip() for l in cxx[i:j].split("\n")]
    lines = [l for l in lines[1:] if l and not l.startswith("//")]
    return lines


SCALAR_DECL = re.compile(r"^(int|float|double|bool) (\w+)(?: \((.*)\))?;$")
COL_DECL = re.compile(r"^(std::vector<(\w+)>|int|float|double|bool) (_\w+);$")
LOOP = re.compile(r"^for \(auto &&(\w+) : \*?(\w+)\)$")
EI_DECL = re.compile(r"^const xAOD::EventInfo \* (\w+);$")
ASSIGN = re.compile(r"^(\w+) = (.*);$")
PUSH = re.compile(r"^(\w+)\.push_back\((.*)\);$")
IFLINE = re.compile(r"^if \((.*)\)$")


class Unreadable(Exception):
    pass


# A Count() operand need not be an accumulator: the number of elements of a collection fetched from the event store
# can be read off the collection.  The C++ type of such an operand is the type of the EXPRESSION it is read from -
# `c->size()` is a std::size_t whatever the translator declares -, converted to int only where the text says so.
RETRIEVE = re.compile(r'^ANA_CHECK \(evtStore\(\)->retrieve\((\w+), "(\w+)"\)\);$')
SIZE_USE = r"(?:\(\*(?P<v1>\w+)\)\.size\(\)|(?P<v2>\w+)(?:->|\.)size\(\))"
SIZE_RE = re.compile(r"(?P<cast>static_cast<int>\()?" + SIZE_USE + r"(?(cast)\))")

SUM_UPD = re.compile(r"^(\w+)=\((\w+)\+(\w+)->(\w+)\(\)\);$")  # matched on the text without blanks


def read_query(gen: Dict[str, str], forms: List[Dict[str, Any]]) -> List[Dict[str, Any]]:
    """Read one generated query that fills len(forms) columns (column k of a row is `_c<k>…`; a single column is
    whatever the one column is called).  -> per column {"ty", "vector", "lines", "fill", "leaf_decls", "leaf_types", …}.
    Raises Unreadable when the text has not the expected shape."""
    body = execute_body(gen["cxx"])
    cols = [m for m in (COL_DECL.match(l.strip()) for l in gen["h"].split("\n")) if m]
    if len(cols) != len(forms):
        raise Unreadable(f"{len(cols)} column declarations in query.h for {len(forms)} columns")
    if len(forms) > 1:
        by_prefix = []
        for k in range(len(forms)):
            hit = [m for m in cols if re.match(rf"^_c{k}\d+$", m.group(3))]
            if len(hit) != 1:
                raise Unreadable(f"column c{k} not found in query.h")
            by_prefix.append(hit[0])
        cols = by_prefix
    col_names = [m.group(3) for m in cols]
    single = len(forms) == 1

    ren: Dict[str, str] = {}
    n_it = 0
    decls = []  # (type, name, init)
    for l in body:
        m = LOOP.match(l)
        if m and m.group(1) not in ren:
            ren[m.group(1)] = f"it{n_it}" if single else "itX"
            n_it += 1
        m = EI_DECL.match(l)
        if m and m.group(1) not in ren:
            ren[m.group(1)] = "ei0"  # every fetch of the singleton "EI" denotes the same object
        m = SCALAR_DECL.match(l)
        if m:
            decls.append((m.group(1), m.group(2), m.group(3)))
    # collections fetched from the event store: variable -> bank
    bank_of: Dict[str, str] = {}
    fetched: Dict[str, str] = {}
    for l in body:
        m = RETRIEVE.match(l)
        if m:
            fetched[m.group(1)] = m.group(2)
            continue
        m = ASSIGN.match(l)
        if m and m.group(2) in fetched:
            bank_of[m.group(1)] = fetched[m.group(2)]
    sized: Dict[str, str] = {}  # canonical count name -> C++ type of the expression it is read from

    def size_sub(s: str) -> str:
        def f(m):
            bank = bank_of.get(m.group("v1") or m.group("v2"))
            if bank is None or bank not in X.CNT_SLOTS:
                return m.group(0)
            cname, _ = X.agg_canon(["Count", bank])
            ty = "int" if m.group("cast") else "size_t"
            if sized.setdefault(cname, ty) != ty:
                raise Unreadable(f"the size of {bank} is used both converted to int and unconverted")
            return cname

        return SIZE_RE.sub(f, s)

    for l in body:
        if ASSIGN.match(l) or PUSH.match(l) or IFLINE.match(l):
            size_sub(l)
    # aggregate operands (Count of a bank, Sum of an accessor): the k-th accumulator declared is the k-th aggregate
    # of the source in evaluation order (those read off a collection's size aside); its declared type is READ here,
    # never assumed
    all_aggs = [a for f in forms for a in X.aggs_of(f)]
    aggs = [a for a in all_aggs if X.agg_canon(a)[0] not in sized]
    acc_decls = [d for d in decls if d[2] is not None]
    ifs = [d for d in decls if d[2] is None]
    form0 = forms[0]
    want_acc = 1 if (single and form0["form"] == "agg") else 0
    has_cond = single and (form0["form"] in ("cond", "condx") or (form0["form"] == "agg" and ("cond" in form0["upd"] or "condIn" in form0["upd"])))
    if len(acc_decls) != len(aggs) + want_acc or len(ifs) != (1 if has_cond else 0):
        raise Unreadable(f"declarations {decls} do not fit {len(aggs)} aggregate operands and the form {form0['form']}")
    leaf_decls: List[str] = []
    leaf_types: Dict[str, str] = {}
    leaf_names = set()
    for a in all_aggs:
        cname, _ = X.agg_canon(a)
        if cname in sized and cname not in leaf_types:
            leaf_types[cname] = sized[cname]
            # converted to int on the spot it is the model's int operand (theorem size_cast_int)
            leaf_decls.append(f"int {cname} (0);" if sized[cname] == "int" else f'size_t {cname} = size of "{a[1]}";')
    for a, (ty, name, init) in zip(aggs, acc_decls):
        cname, _ = X.agg_canon(a)
        upd = [l for l in body if l.startswith(name + " = ")]
        if a[0] == "Count":
            ok = [u.replace(" ", "") for u in upd] == [f"{name}=({name}+1);"]
        else:
            m = SUM_UPD.match(upd[0].replace(" ", "")) if len(upd) == 1 else None
            ok = bool(m) and m.group(2) == name and m.group(4) == a[1]
        if not ok:
            raise Unreadable(f"accumulator {name} is not updated like {a}: {upd}")
        if leaf_types.get(cname, ty) != ty:
            raise Unreadable(f"two accumulators for {cname} with different types")
        ren[name] = cname
        leaf_names.add(name)
        d = f"{ty} {cname} ({init});"
        if d not in leaf_decls:
            leaf_decls.append(d)
        leaf_types[cname] = ty
    others = [d for d in decls if d[1] not in leaf_names]
    if want_acc:
        ren[[d for d in others if d[2] is not None][0][1]] = "A"
    if ifs:
        ren[ifs[0][1]] = "R"
    for k, n in enumerate(col_names):
        ren[n] = "COL" if single else f"COL{k}"

    def canon(s: str) -> str:
        return re.sub(r"\b\w+\b", lambda m: ren.get(m.group(0), m.group(0)), size_sub(s))

    kept: List[str] = []
    fills: Dict[str, str] = {}
    scalar_names = {d[1] for d in others}
    for l in body:
        m = SCALAR_DECL.match(l)
        if m:
            if m.group(2) not in leaf_names:
                kept.append(canon(l))
            continue
        if IFLINE.match(l) or l == "else":
            kept.append(canon(l))
            continue
        m = PUSH.match(l)
        if m and m.group(1) in col_names:
            if m.group(1) in fills:
                raise Unreadable("two fills of a column")
            fills[m.group(1)] = canon(m.group(2))
            continue
        m = ASSIGN.match(l)
        if m:
            if m.group(1) in col_names:
                if m.group(1) in fills:
                    raise Unreadable("two fills of a column")
                fills[m.group(1)] = canon(m.group(2))
            elif m.group(1) in scalar_names:
                kept.append(canon(l))
            # everything else (jetsN = result; the accumulation of an aggregate operand) is not C13's subject here
    if not single and kept:
        raise Unreadable(f"unexpected statements in a multi-column row: {kept}")
    out = []
    for k, (m, f) in enumerate(zip(cols, forms)):
        if m.group(3) not in fills:
            raise Unreadable(f"no statement fills column {k}")
        mine = [X.agg_canon(a)[0] for a in X.aggs_of(f)]
        out.append({
            "ty": m.group(2) or m.group(1), "vector": m.group(2) is not None, "lines": kept, "fill": fills[m.group(3)],
            "leaf_decls": [d for d in leaf_decls if d.split()[1] in mine], "leaf_types": {n: t for n, t in leaf_types.items() if n in mine},
            "body": body, "col_decl": "\n  ".join(c.group(0) for c in cols), "col_name": m.group(3),
        })
    return out


def impl_for_spec(p: Dict[str, Any], form: Dict[str, Any]) -> Dict[str, Any]:
    """The implementation's pieces in the shape the driver's `spec` op reads."""
    lines = p["lines"]
    out: Dict[str, Any] = {"ty": p["ty"]}

    def cond_pieces(ls: List[str]):
        # [T R;] if (TEST) / R = THEN; / else / R = ELSE;
        d = SCALAR_DECL.match(ls[0])
        t = IFLINE.match(ls[1])
        a = ASSIGN.match(ls[2])
        b = ASSIGN.match(ls[4])
        if not (d and t and a and b and ls[3] == "else" and d.group(2) == "R" and a.group(1) == "R" and b.group(1) == "R"):
            raise Unreadable(f"conditional lines {ls}")
        return {"resTy": d.group(1), "test": t.group(1), "then": a.group(2), "else": b.group(2)}

    if form["form"] == "plain":
        if lines:
            raise Unreadable(f"unexpected statements {lines}")
        out["expr"] = p["fill"]
    elif form["form"] == "cond":
        if len(lines) != 5 or p["fill"] != "R":
            raise Unreadable(f"conditional lines {lines} fill {p['fill']}")
        out.update(cond_pieces(lines))
    elif form["form"] == "condx":
        if len(lines) != 5:
            raise Unreadable(f"conditional lines {lines}")
        out.update(cond_pieces(lines))
        out["expr"] = p["fill"]
    else:
        d = SCALAR_DECL.match(lines[0])
        if not d or d.group(2) != "A" or p["fill"] != "A":
            raise Unreadable(f"aggregate lines {lines} fill {p['fill']}")
        out["accTy"] = d.group(1)
        out["seed"] = d.group(3)
        rest = lines[1:]
        if "cond" in form["upd"] or "condIn" in form["upd"]:
            if len(rest) != 6:
                raise Unreadable(f"aggregate lines {lines}")
            out.update(cond_pieces(rest[:5]))
            rest = rest[5:]
        if len(rest) != 1:
            raise Unreadable(f"aggregate lines {lines}")
        a = ASSIGN.match(rest[0])
        if not a or a.group(1) != "A":
            raise Unreadable(f"aggregate update {rest}")
        out["upd"] = a.group(2)
        if out["accTy"] != p["ty"]:
            raise Unreadable(f"column type {p['ty']} differs from the accumulator's {out['accTy']}")
    return out


def run(form: Dict[str, Any], level: str) -> Dict[str, Any]:
    """Translate the form's query with the real code. -> {"err":cls} | {"unreadable":why, …} | pieces"""
    return run_row([form], level, X.form_src(form, level))[0]


def run_row(forms: List[Dict[str, Any]], level: str, q: str) -> List[Dict[str, Any]]:
    """One query, one result per column (all columns share a refusal / an unreadable text)."""
    gen = translate_query(q)
    if "frontend" in gen:
        return [{"frontend": gen["frontend"], "msg": gen["msg"], "query": q} for _ in forms]
    if "err" in gen:
        return [{"err": gen["err"], "msg": gen["msg"], "query": q} for _ in forms]
    try:
        ps = read_query(gen, forms)
        for p, f in zip(ps, forms):
            p["spec"] = impl_for_spec(p, f)
    except Unreadable as e:
        return [{"unreadable": str(e), "query": q, "body": execute_body(gen["cxx"]), "gen": gen} for _ in forms]
    for p in ps:
        p["query"] = q
        p["gen"] = gen
    return ps


def canon_impl(r: Dict[str, Any]) -> Dict[str, Any]:
    if "err" in r:
        return {"err": r["err"]}
    if "unreadable" in r:
        return {"unreadable": r["unreadable"]}
    return {"ty": r["ty"], "lines": sorted(r.get("leaf_decls", [])) + r["lines"] + [r["fill"]]}


def canon_model(m: Dict[str, Any], form: Dict[str, Any]) -> Dict[str, Any]:
    if "err" in m:
        return {"err": m["err"]}
    if "ok" not in m:
        return m
    # an aggregate operand is an accumulator of the type sum_correct / count_correct prove, seeded with the int 0
    lines = []
    for a in X.aggs_of(form):
        name, ty = X.agg_canon(a)
        d = f"{ty} {name} (0);"
        if d not in lines:
            lines.append(d)
    lines = sorted(lines) + list(m["ok"]["lines"])  # the order in which accumulators are declared is not C13's subject
    if form["form"] == "cond":
        lines.append("R")
    elif form["form"] == "agg":
        lines.append("A")
    return {"ty": m["ok"]["ty"], "lines": lines}
