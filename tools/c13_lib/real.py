"""C13: run the real translator on a query whose data model is declared through metadata, and read the pieces the
property talks about off the generated C++ *text* (query.cxx / query.h): the scalar declarations, the
conditional, the accumulator, the column fill and the declared column type.  Generated names are renamed
(whole tokens, found in declaring positions) to the canonical names the model uses."""
from __future__ import annotations

import re
import shutil
import tempfile
from pathlib import Path
from typing import Any, Dict, List, Optional

from . import exprs as X

_DS = None


def _dataset():
    global _DS
    if _DS is None:
        from func_adl import EventDataset

        class DS(EventDataset):
            async def execute_result_async(self, a, title):
                return a

        _DS = DS
    return _DS()


METADATA = [
    {"metadata_type": "add_method_type_info", "type_string": ts, "method_name": n, "return_type": t}
    for ts in ("xAOD::Jet", "xAOD::EventInfo")
    for n, t in X.METHODS
]


def translate_query(lambda_src: str) -> Dict[str, Any]:
    """-> {"cxx": text, "h": text} or {"err": exception class name, "msg": …}"""
    from func_adl_xAOD.atlas.xaod.executor import atlas_xaod_executor

    d = Path(tempfile.mkdtemp(prefix="c13_"))
    try:
        try:
            q = _dataset()
            for m in METADATA:
                q = q.MetaData(m)
            a = q.Select(lambda_src).value()
        except Exception as e:
            # raised by func_adl's own front end (its type follower rejects e.g. `True if c else 2` on a typed
            # stream) before /repo's code sees the query: not a statement about the translator
            return {"frontend": type(e).__name__, "msg": str(e)[:300]}
        exe = atlas_xaod_executor()
        a2 = exe.apply_ast_transformations(a)
        exe.write_cpp_files(a2, d)
        return {"cxx": (d / "query.cxx").read_text(), "h": (d / "query.h").read_text()}
    except Exception as e:  # a refusal
        # a failed translation leaves method types registered (C07's finding): harmless here, the same ones are re-declared
        return {"err": type(e).__name__, "msg": str(e)[:300]}
    finally:
        shutil.rmtree(d, ignore_errors=True)


def execute_body(cxx: str) -> List[str]:
    i = cxx.index("StatusCode query :: execute ()")
    j = cxx.index("return StatusCode::SUCCESS", i)
    lines = [l.strip() for l in cxx[i:j].split("\n")]
    lines = [l for l in lines[1:] if l and not l.startswith("//")]
    return lines


SCALAR_DECL = re.compile(r"^(int|float|double|bool) (\w+)(?: \((.*)\))?;$")
COL_DECL = re.compile(r"^(std::vector<(\w+)>|int|float|double|bool) (_\w+);$")
LOOP = re.compile(r"^for \(auto &&(\w+) : \*?(\w+)\)$")
EI_DECL = re.compile(r"^const xAOD::EventInfo \* (\w+);$")
ASSIGN = re.compile(r"^(\w+) = (.*);$")
PUSH = re.compile(r"^(\w+)\.push_back\((.*)\);$")
IFLINE = re.compile(r"^if \((.*)\)$")


class Unreadable(Exception):
    pass


def read_pieces(gen: Dict[str, str], form: Dict[str, Any], banks: List[str]) -> Dict[str, Any]:
    """-> {"ty": column type, "vector": bool, "lines": canonical kept lines, "fill": canonical fill rhs, "body": raw body
    lines, "col_decl": header line}.  Raises Unreadable when the text has not the expected shape."""
    body = execute_body(gen["cxx"])
    cols = [m for m in (COL_DECL.match(l.strip()) for l in gen["h"].split("\n")) if m]
    if len(cols) != 1:
        raise Unreadable(f"{len(cols)} column declarations in query.h")
    col_ty = cols[0].group(2) or cols[0].group(1)
    col_name = cols[0].group(3)
    is_vec = cols[0].group(2) is not None

    ren: Dict[str, str] = {col_name: "COL"}
    n_it = n_ei = 0
    decls = []  # (type, name, init)
    for l in body:
        m = LOOP.match(l)
        if m and m.group(1) not in ren:
            ren[m.group(1)] = f"it{n_it}"
            n_it += 1
        m = EI_DECL.match(l)
        if m and m.group(1) not in ren:
            ren[m.group(1)] = "ei0"  # every fetch of the singleton "EI" denotes the same object
            n_ei += 1
        m = SCALAR_DECL.match(l)
        if m:
            decls.append((m.group(1), m.group(2), m.group(3)))
    # count leaves: `int X (0);` whose only update is `X = (X+1);`, in order of declaration
    n_counts = len(banks)
    counts = []
    for ty, name, init in decls:
        if ty == "int" and init == "0" and f"{name} = ({name}+1);" in body and len(counts) < n_counts:
            counts.append(name)
    if len(counts) != n_counts:
        raise Unreadable(f"expected {n_counts} counting loops, found {len(counts)}")
    for bank, name in zip(banks, counts):  # k-th counting loop (evaluation order) = k-th Count() of the source
        ren[name] = f"cnt{list(X.CNT_SLOTS).index(bank)}"
    others = [(ty, name, init) for ty, name, init in decls if name not in counts]
    accs = [d for d in others if d[2] is not None]
    ifs = [d for d in others if d[2] is None]
    want_acc = 1 if form["form"] == "agg" else 0
    has_cond = form["form"] == "cond" or (form["form"] == "agg" and "cond" in form["upd"])
    if len(accs) != want_acc or len(ifs) != (1 if has_cond else 0):
        raise Unreadable(f"declarations {others} do not fit the form {form['form']}")
    if accs:
        ren[accs[0][1]] = "A"
    if ifs:
        ren[ifs[0][1]] = "R"

    def canon(s: str) -> str:
        return re.sub(r"\b\w+\b", lambda m: ren.get(m.group(0), m.group(0)), s)

    kept: List[str] = []
    fill: Optional[str] = None
    scalar_names = {d[1] for d in others}
    for l in body:
        m = SCALAR_DECL.match(l)
        if m:
            if m.group(2) in counts:
                continue
            kept.append(canon(l))
            continue
        if IFLINE.match(l) or l == "else":
            kept.append(canon(l))
            continue
        m = PUSH.match(l)
        if m and m.group(1) == col_name:
            if fill is not None:
                raise Unreadable("two fills of the column")
            fill = canon(m.group(2))
            continue
        m = ASSIGN.match(l)
        if m:
            if m.group(1) == col_name:
                if fill is not None:
                    raise Unreadable("two fills of the column")
                fill = canon(m.group(2))
            elif m.group(1) in scalar_names:
                kept.append(canon(l))
            # everything else (jetsN = result; cntK = (cntK+1);) is not C13's subject
    if fill is None:
        raise Unreadable("no statement fills the column")
    return {"ty": col_ty, "vector": is_vec, "lines": kept, "fill": fill, "body": body, "col_decl": cols[0].group(0), "col_name": col_name}


def impl_for_spec(p: Dict[str, Any], form: Dict[str, Any]) -> Dict[str, Any]:
    """The implementation's pieces in the shape the driver's `spec` op reads."""
    lines = p["lines"]
    out: Dict[str, Any] = {"ty": p["ty"]}

    def cond_pieces(ls: List[str]):
        # [T R;] if (TEST) / R = THEN; / else / R = ELSE;
        d = SCALAR_DECL.match(ls[0])
        t = IFLINE.match(ls[1])
        a = ASSIGN.match(ls[2])
        b = ASSIGN.match(ls[4])
        if not (d and t and a and b and ls[3] == "else" and d.group(2) == "R" and a.group(1) == "R" and b.group(1) == "R"):
            raise Unreadable(f"conditional lines {ls}")
        return {"resTy": d.group(1), "test": t.group(1), "then": a.group(2), "else": b.group(2)}

    if form["form"] == "plain":
        if lines:
            raise Unreadable(f"unexpected statements {lines}")
        out["expr"] = p["fill"]
    elif form["form"] == "cond":
        if len(lines) != 5 or p["fill"] != "R":
            raise Unreadable(f"conditional lines {lines} fill {p['fill']}")
        out.update(cond_pieces(lines))
    else:
        d = SCALAR_DECL.match(lines[0])
        if not d or d.group(2) != "A" or p["fill"] != "A":
            raise Unreadable(f"aggregate lines {lines} fill {p['fill']}")
        out["accTy"] = d.group(1)
        out["seed"] = d.group(3)
        rest = lines[1:]
        if "cond" in form["upd"]:
            if len(rest) != 6:
                raise Unreadable(f"aggregate lines {lines}")
            out.update(cond_pieces(rest[:5]))
            rest = rest[5:]
        if len(rest) != 1:
            raise Unreadable(f"aggregate lines {lines}")
        a = ASSIGN.match(rest[0])
        if not a or a.group(1) != "A":
            raise Unreadable(f"aggregate update {rest}")
        out["upd"] = a.group(2)
        if out["accTy"] != p["ty"]:
            raise Unreadable(f"column type {p['ty']} differs from the accumulator's {out['accTy']}")
    return out


def run(form: Dict[str, Any], level: str) -> Dict[str, Any]:
    """Translate the form's query with the real code. -> {"err":cls} | {"unreadable":why, …} | pieces"""
    q = X.form_src(form, level)
    gen = translate_query(q)
    if "frontend" in gen:
        return {"frontend": gen["frontend"], "msg": gen["msg"], "query": q}
    if "err" in gen:
        return {"err": gen["err"], "msg": gen["msg"], "query": q}
    try:
        p = read_pieces(gen, form, X.banks_of(form))
        p["spec"] = impl_for_spec(p, form)
    except Unreadable as e:
        return {"unreadable": str(e), "query": q, "body": execute_body(gen["cxx"]), "gen": gen}
    p["query"] = q
    p["gen"] = gen
    return p


def canon_impl(r: Dict[str, Any]) -> Dict[str, Any]:
    if "err" in r:
        return {"err": r["err"]}
    if "unreadable" in r:
        return {"unreadable": r["unreadable"]}
    return {"ty": r["ty"], "lines": r["lines"] + [r["fill"]]}


def canon_model(m: Dict[str, Any], form: Dict[str, Any]) -> Dict[str, Any]:
    if "err" in m:
        return {"err": m["err"]}
    if "ok" not in m:
        return m
    lines = list(m["ok"]["lines"])
    if form["form"] == "cond":
        lines.append("R")
    elif form["form"] == "agg":
        lines.append("A")
    return {"ty": m["ok"]["ty"], "lines": lines}
