"""C13: source expressions (the JSON the Lean driver reads), their Python source text, the operand catalogue and
the generators.  Everything random is drawn from the `rng` handed in (seeded by VERIF_SEED)."""
from __future__ import annotations

import struct
from typing import Any, Dict, List, Optional, Tuple

# ---------------------------------------------------------------------------------------------- operand catalogue
# slot 0 is the accumulator, 99 the conditional's result variable (driver constants)
ACC_SLOT, IF_SLOT = 0, 99

# jet level: inside e.Jets("J").Select(lambda j: …); primary accessors for a left operand, secondary for a right one
JET_LEAVES = {
    "i": ("int", 1), "f": ("float", 2), "d": ("double", 3), "b": ("bool", 4),
    "i2": ("int", 5), "f2": ("float", 6), "d2": ("double", 7), "b2": ("bool", 8),
}
# event level: Count() of two different banks and the accessors of the EventInfo singleton
EVT_LEAVES = {
    "i": ("int", 13), "f": ("float", 14), "d": ("double", 15), "b": ("bool", 16),
    "i2": ("int", 17), "f2": ("float", 18), "d2": ("double", 19), "b2": ("bool", 20),
}
CNT_SLOTS = {"J1": 11, "J2": 12, "J": 10}
# Sum() over the jets of bank "J" of an accessor, used as an operand of an event-level expression
SUM_SLOTS = {"i": 41, "f": 42, "d": 43}
# First() of the jets of bank "J" (through an accessor), used as an operand of an event-level expression: it needs
# STATEMENTS (a loop, an `is_first` flag, a throw on an empty sequence) wherever it is evaluated
FIRST_SLOTS = {"i": 51, "f": 52, "d": 53}
METHODS = [("i", "int"), ("f", "float"), ("d", "double"), ("b", "bool"), ("i2", "int"), ("f2", "float"), ("d2", "double"), ("b2", "bool")]

KINDS = ["intLit", "intCount", "float", "double", "bool"]
BIN_OPS = {"Add": "+", "Sub": "-", "Mult": "*", "Div": "/", "Mod": "%", "Pow": "**"}
OTHER_BIN_OPS = {"FloorDiv": "//", "LShift": "<<", "RShift": ">>", "BitOr": "|", "BitXor": "^", "BitAnd": "&", "MatMult": "@"}
UN_OPS = {"UAdd": "+", "USub": "-", "Not": "not ", "Invert": "~"}
CMP_OPS = {"Lt": "<", "LtE": "<=", "Gt": ">", "GtE": ">=", "Eq": "==", "NotEq": "!="}
OTHER_CMP_OPS = {"Is": "is", "IsNot": "is not"}


def leaf(level: str, name: str) -> Dict[str, Any]:
    """An operand read through a declared accessor: canonical C++ text `it0->name()` / `ei0->name()`."""
    if level == "jet":
        ty, slot = JET_LEAVES[name]
        return {"leaf": [ty, f"it0->{name}()", slot], "_src": f"j.{name}()"}
    ty, slot = EVT_LEAVES[name]
    return {"leaf": [ty, f"ei0->{name}()", slot], "_src": f'e.EventInfo("EI").{name}()'}


def count_leaf(bank: str) -> Dict[str, Any]:
    k = list(CNT_SLOTS).index(bank)
    return {"leaf": ["int", f"cnt{k}", CNT_SLOTS[bank]], "_src": f'e.Jets("{bank}").Count()', "_count": bank, "_agg": ["Count", bank]}


def sum_leaf(k: str) -> Dict[str, Any]:
    """`e.Jets("J").Select(lambda j: j.k()).Sum()` as an operand: an accumulator of k's type (theorem sum_correct)"""
    ty = JET_LEAVES[k][0]
    return {"leaf": [ty, f"sum_{k}", SUM_SLOTS[k]], "_src": f'e.Jets("J").Select(lambda j: j.{k}()).Sum()', "_agg": ["Sum", k]}


def first_leaf(k: str, inner: bool = False) -> Dict[str, Any]:
    """`e.Jets("J").First().k()` (or `…Select(lambda j: j.k()).First()`): the k of the first jet of bank "J" """
    ty = JET_LEAVES[k][0]
    s = f'e.Jets("J").Select(lambda j: j.{k}()).First()' if inner else f'e.Jets("J").First().{k}()'
    return {"leaf": [ty, f"first_{k}", FIRST_SLOTS[k]], "_src": s, "_first": k}


def has_first(e: Any) -> bool:
    if isinstance(e, dict):
        return "_first" in e or any(has_first(v) for v in e.values())
    if isinstance(e, list):
        return any(has_first(v) for v in e)
    return False


def acc_leaf() -> Dict[str, Any]:
    return {"leaf": ["int", "A", ACC_SLOT], "_src": "acc"}


def cond_leaf(t, a, b) -> Dict[str, Any]:
    """the value of `a if t else b` as an operand of a larger lambda body (the translator's `if_else_result`)"""
    return {"leaf": ["double", "R", IF_SLOT], "_src": f"({src(a)} if {src(t)} else {src(b)})"}


def int_lit(n: int) -> Dict[str, Any]:
    return {"int": n}


FLOAT_LITS = {2.5: 31, 0.5: 32, 2.0: 33, 4.0: 34, 1.5: 35, 3.0: 36, 1e-05: 37, 1.0: 38}


def flt_lit(x: float) -> Dict[str, Any]:
    return {"flt": [str(x), FLOAT_LITS[x]], "_val": x}


def bool_lit(b: bool) -> Dict[str, Any]:
    return {"bool": b}


def binop(op: str, l, r):
    return {"bin": [op, l, r]}


def unop(op: str, e):
    return {"un": [op, e]}


def cmpop(op: str, l, r):
    return {"cmp": [op, l, r]}


# ---------------------------------------------------------------------------------------------- rendering
def strip(e: Any) -> Any:
    """Remove the harness-only keys (those starting with '_') before sending to the driver."""
    if isinstance(e, dict):
        return {k: strip(v) for k, v in e.items() if not k.startswith("_")}
    if isinstance(e, list):
        return [strip(x) for x in e]
    return e


def src(e: Dict[str, Any]) -> str:
    """Python source of an expression (fully parenthesised)."""
    if "leaf" in e:
        return e["_src"]
    if "int" in e:
        return str(e["int"])
    if "flt" in e:
        return e["flt"][0]
    if "bool" in e:
        return "True" if e["bool"] else "False"
    if "bin" in e:
        op, l, r = e["bin"]
        return f"({src(l)} {({**BIN_OPS, **OTHER_BIN_OPS})[op]} {src(r)})"
    if "un" in e:
        op, x = e["un"]
        return f"({UN_OPS[op]}{src(x)})"
    if "cmp" in e:
        op, l, r = e["cmp"]
        return f"({src(l)} {({**CMP_OPS, **OTHER_CMP_OPS})[op]} {src(r)})"
    raise ValueError(e)


def leaves_of(e: Any, acc: Optional[List] = None) -> List[Tuple[str, str, int]]:
    """[text, type, slot] of every operand text the Lean parser has to recognise."""
    if acc is None:
        acc = []
    if isinstance(e, dict):
        if "leaf" in e:
            ty, text, slot = e["leaf"]
            if [text, ty, slot] not in acc:
                acc.append([text, ty, slot])
        elif "flt" in e:
            text, slot = e["flt"]
            if [text, "double", slot] not in acc:
                acc.append([text, "double", slot])
        else:
            for v in e.values():
                leaves_of(v, acc)
    elif isinstance(e, list):
        for v in e:
            leaves_of(v, acc)
    return acc


def banks_of(e: Any) -> List[str]:
    out: List[str] = []
    if isinstance(e, dict):
        if "_count" in e:
            out.append(e["_count"])
        for v in e.values():
            out += banks_of(v)
    elif isinstance(e, list):
        for v in e:
            out += banks_of(v)
    return out


def aggs_of(e: Any) -> List[List[str]]:
    """the aggregate operands (Count of a bank / Sum of an accessor) in evaluation order"""
    out: List[List[str]] = []
    if isinstance(e, dict):
        if "_agg" in e:
            out.append(list(e["_agg"]))
            return out
        if "_count" in e:  # entries written before aggregate operands were generalised
            out.append(["Count", e["_count"]])
            return out
        for k, v in e.items():
            if not k.startswith("_"):
                out += aggs_of(v)
    elif isinstance(e, list):
        for v in e:
            out += aggs_of(v)
    return out


def agg_canon(a: List[str]) -> Tuple[str, str]:
    """canonical variable name and expected declared type of an aggregate operand"""
    if a[0] == "Count":
        return f"cnt{list(CNT_SLOTS).index(a[1])}", "int"
    return f"sum_{a[1]}", JET_LEAVES[a[1]][0]


def ops_of(e: Any) -> List[str]:
    out: List[str] = []
    if isinstance(e, dict):
        for k in ("bin", "un", "cmp"):
            if k in e:
                out.append(e[k][0])
        for v in e.values():
            out += ops_of(v)
    elif isinstance(e, list):
        for v in e:
            out += ops_of(v)
    return out


def depth(e: Any) -> int:
    if isinstance(e, dict):
        if "bin" in e or "cmp" in e:
            k = "bin" if "bin" in e else "cmp"
            return 1 + max(depth(e[k][1]), depth(e[k][2]))
        if "un" in e:
            return 1 + depth(e["un"][1])
    return 0


def has_float32(e: Any) -> bool:
    return any(t == "float" for _, t, _ in leaves_of(e))


# ---------------------------------------------------------------------------------------------- forms
def form_plain(e):
    return {"form": "plain", "e": e}


def form_cond(t, a, b):
    return {"form": "cond", "t": t, "a": a, "b": b}


def form_condx(t, a, b, body_of):
    """`body_of(R)` where R is the value of `a if t else b`: a conditional used INSIDE arithmetic"""
    return {"form": "condx", "t": t, "a": a, "b": b, "body": body_of(cond_leaf(t, a, b))}


def form_agg(seed, upd, shortcut: Optional[str] = None, value=None):
    """upd: {"plain": e} | {"cond": [t, a, b]} over acc_leaf() and jet-level leaves; `shortcut`: Count/Sum/Max/Min
    written as the func_adl method (then `value` is the element expression)."""
    f = {"form": "agg", "seed": seed, "upd": upd}
    if shortcut:
        f["_shortcut"] = shortcut
        f["_value"] = value
    return f


def form_src(form: Dict[str, Any], level: str) -> str:
    """The func_adl query lambda (as a string) whose single column is the form."""
    if form["form"] == "plain":
        body = src(form["e"])
    elif form["form"] == "cond":
        body = f'({src(form["a"])} if {src(form["t"])} else {src(form["b"])})'
    elif form["form"] == "condx":
        body = src(form["body"])  # its conditional operand renders as the conditional's source
    else:
        if form.get("_shortcut"):
            sc = form["_shortcut"]
            if sc == "Count":
                return 'lambda e: e.Jets("J").Count()'
            return f'lambda e: e.Jets("J").Select(lambda j: {src(form["_value"])}).{sc}()'
        u = form["upd"]
        if "condIn" in u:
            ub = src(u["condIn"][3])  # the body; its conditional operand renders as the conditional's source
        else:
            ub = src(u["plain"]) if "plain" in u else f'({src(u["cond"][1])} if {src(u["cond"][0])} else {src(u["cond"][2])})'
        return f'lambda e: e.Jets("J").Aggregate({src(form["seed"])}, lambda acc, j: {ub})'
    if level == "jet":
        return f'lambda e: e.Jets("J").Select(lambda j: {body})'
    return f"lambda e: {body}"


def row_src(cols: List[Dict[str, Any]]) -> str:
    """one query, several columns: `lambda e: {'c0': …, 'c1': …}` (event level)"""
    return "lambda e: {" + ", ".join(f"'c{k}': {src(c['e'])}" for k, c in enumerate(cols)) + "}"


def row_forms(exprs_: List[Dict[str, Any]]) -> List[Dict[str, Any]]:
    """the columns of one multi-column event-level query, each a plain form that knows its row"""
    import copy

    plain = [form_plain(e) for e in exprs_]
    q = row_src(plain)
    out = []
    for k, f in enumerate(plain):
        g = dict(f)
        g["_rowquery"], g["_col"], g["_rowforms"] = q, k, copy.deepcopy(plain)
        out.append(g)
    return out


def query_src(form: Dict[str, Any], level: str) -> str:
    """the query the translator is given (a column of a multi-column row carries the row's query)"""
    return form["_rowquery"] if "_rowquery" in form else form_src(form, level)


def form_key(form: Dict[str, Any], level: str) -> str:
    if "_rowquery" in form:
        return f"{level}:{form['_rowquery']}#c{form['_col']}"
    return f"{level}:{form_src(form, level)}"


def form_agg_cond_in(seed, t, a, b, body_of) -> Dict[str, Any]:
    """Aggregate(seed, lambda acc, j: body) where body = body_of(R) contains the conditional `a if t else b` as operand R"""
    return form_agg(seed, {"condIn": [t, a, b, body_of(cond_leaf(t, a, b))]})


def shortcut_form(sc: str, k: Optional[str]) -> Dict[str, Any]:
    """Count()/Sum()/Max()/Min() over the jet accessor of kind k, as func_adl rewrites them."""
    if sc == "Count":
        return form_agg(int_lit(0), {"plain": binop("Add", acc_leaf(), int_lit(1))}, "Count", None)
    v = leaf("jet", k)
    if sc == "Sum":
        return form_agg(int_lit(0), {"plain": binop("Add", acc_leaf(), v)}, "Sum", v)
    cmp = "Gt" if sc == "Max" else "Lt"
    return form_agg(int_lit(0), {"cond": [cmpop(cmp, acc_leaf(), v), acc_leaf(), v]}, sc, v)


# ---------------------------------------------------------------------------------------------- operands by kind
def operand(kind: str, level: str, right: bool, rng=None, variant: int = 0) -> Dict[str, Any]:
    sfx = "2" if right else ""
    if kind == "intLit":
        return int_lit([2, 7, 1, 3][variant % 4] if right else [7, 3, 0, 1][variant % 4])
    if kind == "intCount":
        if level == "evt" and variant % 2 == 0:
            return count_leaf("J2" if right else "J1")
        return leaf(level, "i" + sfx)
    if kind == "float":
        return leaf(level, "f" + sfx)
    if kind == "double":
        if variant % 3 == 2:
            return flt_lit(2.0 if right else 2.5)  # a right operand is also used as divisor and exponent: keep it a power of two
        return leaf(level, "d" + sfx)
    if kind == "bool":
        if variant % 3 == 2:
            return bool_lit(not right)
        return leaf(level, "b" + sfx)
    raise ValueError(kind)


def random_expr(rng, level: str, d: int, allow_defect: bool = False, no_f32_inexact: bool = True, atoms=None) -> Dict[str, Any]:
    """Type-directed random scalar expression of depth ≤ d over the property's operators.  `atoms(rng, level)`, when
    given, supplies a third of the terms (the sign / literal-width families below)."""

    def term(right: bool):
        if atoms is not None and rng.random() < 0.34:
            return atoms(rng, level)
        if level == "evt" and rng.random() < 0.2:
            return rng.choice([sum_leaf("i"), sum_leaf("f"), sum_leaf("d"), count_leaf("J")])
        k = rng.choice(["intLit", "intCount", "intCount", "float", "double", "double", "bool"])
        return operand(k, level, right, variant=rng.randrange(6))

    def go(d: int, right: bool):
        if d == 0 or rng.random() < 0.2:
            return term(right)
        c = rng.random()
        if c < 0.62:
            op = rng.choice(["Add", "Sub", "Mult", "Div", "Div", "Mod", "Pow"])
            if op == "Pow" and rng.random() < 0.5:
                # a negative integer exponent: a constant, or a negated integer value
                ex = rng.choice([unop("USub", int_lit(1)), unop("USub", int_lit(2)), unop("USub", leaf(level, "i2"))])
                return binop(op, go(d - 1, False), ex)
            return binop(op, go(d - 1, False), go(d - 1, True))
        if c < 0.8:
            return unop(rng.choice(["UAdd", "USub", "Not"]), go(d - 1, right))
        return cmpop(rng.choice(list(CMP_OPS)), go(d - 1, False), go(d - 1, True))

    return go(d, False)


# ---------------------------------------------------------------------------------------------- signs and literal widths
# Two regions of "Python numerics on the declared value types" that the operator x kind table does not reach at depth
# one with small positive literals:
#  * SIGN.  An integer operand (a count, an integer accessor, a Sum of integers) is a *signed* Python int: a
#    subtraction or negation that goes below zero, a negative literal as partner of a comparison.  Whatever C++
#    expression the value is taken from has to behave like a signed integer in every consumer that can tell the
#    difference: `/`, a real partner, `**`, the six comparisons, a conditional's test and arms, a double column.
#  * WIDTH OF A LITERAL.  A Python int literal has no width; a C++ integer literal is `int` up to 2^31-1 and `long`
#    beyond.  Literals around and beyond 2^31 (and below -2^31) as operands of `/`, of comparisons, next to reals,
#    inside conditionals and folds.  (An int-typed *result* beyond 32 bits is outside the assumptions - signed
#    overflow -, so a wide literal is only generated where the stored value is real, a truth value, or a remainder.)
WIDE_LITS = [2**31 - 1, 2**31, 2**31 + 1, 2**32, 10**10, 2**40 + 1]


def neg_lit(n: int) -> Dict[str, Any]:
    """`-n` as Python parses it: unary minus on the constant n"""
    return unop("USub", int_lit(n))


def int_operands(level: str) -> List[Dict[str, Any]]:
    """every spelling of an integer-valued operand at this level"""
    if level == "jet":
        return [leaf("jet", "i"), leaf("jet", "i2")]
    return [count_leaf("J1"), count_leaf("J2"), count_leaf("J"), sum_leaf("i"), leaf("evt", "i")]


def negative_inners(x, y, k: int = 5) -> List[Dict[str, Any]]:
    """integer expressions over the operand x (and a second operand y) that are negative on some of the samples"""
    return [binop("Sub", x, int_lit(k)), binop("Sub", x, y), unop("USub", x), binop("Mult", x, neg_lit(1)), binop("Sub", int_lit(1), x)]


def sign_consumers(inner, x, level: str) -> List[Dict[str, Any]]:
    """forms in which the sign of `inner` (an integer expression over the operand x) is observable"""
    d = leaf(level, "d")
    return [
        form_plain(inner),  # stored in an int column
        form_plain(binop("Div", inner, int_lit(2))),
        form_plain(binop("Mult", inner, flt_lit(0.5))),
        form_plain(binop("Add", d, inner)),
        form_plain(binop("Pow", inner, int_lit(2))),
        form_plain(cmpop("Lt", inner, int_lit(0))),
        form_plain(cmpop("GtE", inner, neg_lit(2))),
        form_plain(cmpop("Gt", x, neg_lit(1))),
        form_plain(cmpop("Eq", inner, neg_lit(2))),
        form_plain(cmpop("Lt", neg_lit(3), inner)),
        form_cond(cmpop("Gt", d, int_lit(1)), inner, flt_lit(0.5)),
        form_cond(cmpop("Lt", inner, int_lit(0)), d, flt_lit(2.5)),
    ]


def wide_forms(x, lit, level: str) -> List[Dict[str, Any]]:
    """forms that put the literal `lit` (an expression: a wide constant or its negation) next to the integer operand x"""
    d = leaf(level, "d")
    return [
        form_plain(binop("Div", x, lit)),
        form_plain(binop("Div", lit, x)),
        form_plain(binop("Div", lit, int_lit(2))),
        form_plain(binop("Div", binop("Add", x, lit), int_lit(2))),
        form_plain(binop("Div", binop("Sub", x, lit), lit)),
        form_plain(cmpop("Lt", x, lit)),
        form_plain(cmpop("GtE", lit, x)),
        form_plain(cmpop("Eq", binop("Add", x, lit), lit)),
        form_plain(binop("Add", d, lit)),
        form_plain(binop("Mult", lit, d)),
        form_plain(binop("Sub", binop("Div", x, int_lit(2)), lit)),
        form_cond(cmpop("Gt", d, int_lit(1)), lit, flt_lit(0.5)),
        form_cond(cmpop("Lt", x, lit), d, flt_lit(2.5)),
    ]


def wide_mod_forms(x, n: int) -> List[Dict[str, Any]]:
    """remainders with a wide POSITIVE literal: integer results that fit an int"""
    return [form_plain(binop("Mod", int_lit(n), int_lit(7))), form_plain(binop("Mod", x, int_lit(n)))]


def sign_atoms(rng, level: str) -> Dict[str, Any]:
    xs = int_operands(level)
    x, y = rng.choice(xs), rng.choice(xs)
    c = rng.random()
    if c < 0.3:
        return neg_lit(rng.choice([1, 2, 3, 9]))
    if c < 0.85:
        return rng.choice(negative_inners(x, y, rng.choice([5, 9, 12])))
    return x


def wide_atoms(rng, level: str) -> Dict[str, Any]:
    n = rng.choice(WIDE_LITS)
    return neg_lit(n) if rng.random() < 0.3 else int_lit(n)


def is_wide(e) -> bool:
    """an integer literal of the WIDTH family: beyond 32 bits (a `long` in C++) or close to the limit (still an `int`)"""
    return isinstance(e, dict) and "int" in e and abs(e["int"]) >= 2**30


def is_cpp_int_literal(e) -> bool:
    """a (possibly signed) integer literal that C++ types `int`"""
    while "un" in e and e["un"][0] in ("USub", "UAdd"):
        e = e["un"][1]
    return "int" in e and e["int"] < 2**31


def has_wide(e: Any) -> bool:
    if isinstance(e, dict):
        return is_wide(e) or any(has_wide(v) for k, v in e.items() if not k.startswith("_"))
    if isinstance(e, list):
        return any(has_wide(v) for v in e)
    return False


def py_kind(e) -> str:
    """static Python kind of an expression (the Spec's `Expr.pyKind true`): int / bool / float"""
    if "leaf" in e:
        return {"int": "int", "bool": "bool"}.get(e["leaf"][0], "float")
    if "int" in e:
        return "int"
    if "flt" in e:
        return "float"
    if "bool" in e:
        return "bool"
    if "cmp" in e:
        return "bool"
    if "un" in e:
        return "bool" if e["un"][0] == "Not" else ("float" if py_kind(e["un"][1]) == "float" else "int")
    op, l, r = e["bin"]
    if op in ("Div", "Pow"):
        return "float"
    return "float" if "float" in (py_kind(l), py_kind(r)) else "int"


def wide_safe(form) -> bool:
    """A wide literal stays where the assumptions hold: no binary32 operand in the form (float op long is computed in
    binary32), never under `**` or `%`, under `*` only next to a real (no 64-bit overflow), a literal close to the limit
    that is still an `int` in C++ (2^31-1) not under `+`/`-` with an integer partner (int + int overflows; with a `long`
    literal the sum is a `long`), and the value that is STORED (plain column, conditional arm) is real or a truth value -
    an int column beyond 32 bits is out of scope."""
    if not has_wide(form):
        return True
    if has_float32(form):
        return False

    def strip_neg(e):
        while "un" in e and e["un"][0] in ("USub", "UAdd"):
            e = e["un"][1]
        return e

    def ok(e) -> bool:
        for k in ("bin", "cmp"):
            if k in e:
                op, l, r = e[k]
                if has_wide(l) or has_wide(r):
                    if op in ("Pow", "Mod"):
                        return False
                    if op == "Mult" and "float" not in (py_kind(l), py_kind(r)):
                        return False
                    if op in ("Add", "Sub") and "float" not in (py_kind(l), py_kind(r)):
                        if any(has_wide(x) and is_cpp_int_literal(x) for x in (l, r)):
                            return False
                return ok(l) and ok(r)
        if "un" in e:
            return ok(e["un"][1])
        return True

    def stored_ok(e) -> bool:
        return not has_wide(e) or py_kind(e) != "int"

    if form["form"] == "plain":
        return ok(form["e"]) and stored_ok(form["e"])
    if form["form"] == "cond":
        t, a, b = form["t"], form["a"], form["b"]
        # an arm that is a bare wide literal is stored in the double result variable: exact
        return all(ok(x) for x in (t, a, b)) and all(stored_ok(x) or is_wide(strip_neg(x)) for x in (a, b))
    return False


# ---------------------------------------------------------------------------------------------- sample values
def f2bits(x: float) -> str:
    if x == 0.0:
        x = 0.0  # -0.0 and +0.0 are the same number (Python's ==): one representative, as in the driver
    return str(struct.unpack("<Q", struct.pack("<d", x))[0])


def bits2f(s: str) -> float:
    return struct.unpack("<d", struct.pack("<Q", int(s)))[0]


# rows of (i, f, d, b, i2, f2, d2, b2); the reals are small dyadic numbers (exact in binary32 and under + - *);
# the secondary reals are powers of two (exact quotients) and small integers (exact powers)
ROWS_GENERAL = [
    (7, 1.5, 2.5, True, 2, 2.0, 4.0, False),
    (0, -2.5, 0.75, False, 4, 0.5, -2.0, True),
    (-3, 3.0, -1.25, True, 1, 4.0, 2.0, True),
    (2, 0.0, 6.0, False, 8, -2.0, 0.5, False),
    (1, 0.5, 0.0, True, 0, 2.0, 0.0, True),
    (5, 6.0, 1.5, False, 2, 1.0, 8.0, False),
]
ROWS_POW = [  # exponents small non-negative integers, bases with few bits: powers are exact (also in binary32)
    (7, 1.5, 2.5, True, 2, 2.0, 3.0, False),
    (3, -2.5, 0.5, False, 3, 3.0, 2.0, True),
    (2, 3.0, -1.5, True, 1, 1.0, 2.0, True),
    (1, 0.5, 6.0, False, 0, 2.0, 0.0, False),
    (5, 2.0, 1.5, True, 2, 0.0, 1.0, True),
]
ROWS_NONNEG = [  # for '%': the quantifier of the property says non-negative operands
    (7, 1.5, 2.5, True, 2, 2.0, 4.0, False),
    (0, 2.5, 0.75, False, 3, 0.5, 2.0, True),
    (3, 3.0, 1.25, True, 1, 4.0, 2.0, True),
    (12, 0.0, 6.0, False, 5, 2.0, 0.5, True),
    (1, 0.5, 0.0, True, 7, 2.0, 1.0, True),
]


def rows_for(form: Dict[str, Any]) -> List[Tuple]:
    # the columns of a row are evaluated on the same events: choose the rows by the operators of the whole row
    ops = set(ops_of(form.get("_rowforms", form)))
    if "Pow" in ops:
        return ROWS_POW
    if "Mod" in ops:
        return ROWS_NONNEG
    return ROWS_GENERAL


def cell(i=0, d=0.0, b=False) -> Dict[str, Any]:
    return {"i": int(i), "d": f2bits(float(d)), "b": bool(b)}


def jrows_for(rows: List[Tuple], k: int) -> List[Tuple]:
    """the jets of bank "J" of the k-th event-level sample"""
    # never empty: Python's Sum() of no jets is the int seed 0 whatever the accessor's type (dynamic typing), which
    # the typed operand of the model does not represent; empty banks are exercised through Count() of J1/J2 and the
    # aggregate forms
    return [rows[(k + j) % len(rows)] for j in range(k % 3 + 1)]


def env_from_row(row: Tuple, level: str, counts: Tuple[int, int] = (0, 0), jrows: Optional[List[Tuple]] = None) -> Dict[str, Any]:
    table = JET_LEAVES if level == "jet" else EVT_LEAVES
    env: Dict[str, Any] = {}
    for (name, _), v in zip(METHODS, row):
        ty, slot = table[name]
        env[str(slot)] = cell(i=v if ty == "int" else 0, d=v if ty in ("float", "double") else 0.0, b=v if ty == "bool" else False)
    for x, slot in FLOAT_LITS.items():
        env[str(slot)] = cell(d=x)
    env[str(CNT_SLOTS["J1"])] = cell(i=counts[0], d=counts[0])
    env[str(CNT_SLOTS["J2"])] = cell(i=counts[1], d=counts[1])
    jrows = jrows or []
    env[str(CNT_SLOTS["J"])] = cell(i=len(jrows), d=len(jrows))
    for k, slot in SUM_SLOTS.items():
        col = [n for n, _ in METHODS].index(k)
        tot = sum(r[col] for r in jrows)
        env[str(slot)] = cell(i=int(tot), d=float(tot))
    for k, slot in FIRST_SLOTS.items():
        col = [n for n, _ in METHODS].index(k)
        v = jrows[0][col] if jrows else 0
        env[str(slot)] = cell(i=int(v), d=float(v))
    return env


COUNTS = [(7, 2), (0, 4), (3, 1), (4, 4), (1, 0), (2, 8)]  # the second bank is used as divisor: powers of two (and a zero)
