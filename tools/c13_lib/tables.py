"""C13 tie "T": read the three operator tables of ast_to_cpp_translator.py and `_type_priority`
of common/utils.py with Python's `ast` module and write them as Lean *data*.

Anything that is not a literal `ast.<Name>: "<text>"` / `"<type>": <int>` entry becomes an explicit
`("unrecognised <text>", …)` row, so that the theorems over the generated constants stop building
(never a crash, never a silent pass)."""
from __future__ import annotations

import ast
from pathlib import Path
from typing import List, Tuple


def _find_assign(tree: ast.Module, name: str):
    for node in tree.body:
        if isinstance(node, ast.Assign) and any(isinstance(t, ast.Name) and t.id == name for t in node.targets):
            return node.value
        if isinstance(node, ast.AnnAssign) and isinstance(node.target, ast.Name) and node.target.id == name:
            return node.value
    return None


def op_table(tree: ast.Module, name: str) -> List[Tuple[str, str]]:
    v = _find_assign(tree, name)
    if not isinstance(v, ast.Dict):
        return [("unrecognised " + (ast.unparse(v) if v is not None else f"no assignment to {name}"), "")]
    rows = []
    for k, val in zip(v.keys, v.values):
        if (
            isinstance(k, ast.Attribute)
            and isinstance(k.value, ast.Name)
            and k.value.id == "ast"
            and isinstance(val, ast.Constant)
            and type(val.value) is str
        ):
            rows.append((k.attr, val.value))
        else:
            rows.append(("unrecognised " + (ast.unparse(k) if k is not None else "**") + ": " + ast.unparse(val), ""))
    return rows


def prio_table(tree: ast.Module, name: str) -> List[Tuple[str, int]]:
    v = _find_assign(tree, name)
    if not isinstance(v, ast.Dict):
        return [("unrecognised " + (ast.unparse(v) if v is not None else f"no assignment to {name}"), 0)]
    rows = []
    for k, val in zip(v.keys, v.values):
        if isinstance(k, ast.Constant) and type(k.value) is str and isinstance(val, ast.Constant) and type(val.value) is int and val.value >= 0:
            rows.append((k.value, val.value))
        else:
            rows.append(("unrecognised " + (ast.unparse(k) if k is not None else "**") + ": " + ast.unparse(val), 0))
    return rows


def read_tables(repo: Path):
    t = ast.parse((repo / "func_adl_xAOD/common/ast_to_cpp_translator.py").read_text())
    u = ast.parse((repo / "func_adl_xAOD/common/utils.py").read_text())
    # the order of a dict literal means nothing to the code that reads it: rows sorted by key
    return {
        "binaryOps": sorted(op_table(t, "_known_binary_operators")),
        "unaryOps": sorted(op_table(t, "_known_unary_operators")),
        "compareOps": sorted(op_table(t, "compare_operations")),
        "typePriority": sorted(prio_table(u, "_type_priority")),
    }


def render(tabs, lean_str) -> str:
    def pairs(rows, num=False):
        return "[" + ", ".join(f"({lean_str(a)}, {b if num else lean_str(b)})" for a, b in rows) + "]"

    return (
        "/- GENERATED on every run by tools/c13_lib/tables.py from /repo — do not edit.\n"
        "   func_adl_xAOD/common/ast_to_cpp_translator.py: _known_binary_operators, _known_unary_operators, compare_operations\n"
        "   func_adl_xAOD/common/utils.py: _type_priority -/\n"
        "namespace FaxVerif.Generated.C13Tables\n\n"
        "/-- `_known_binary_operators`: Python AST class name ↦ C++ operator text -/\n"
        f"def binaryOps : List (String × String) := {pairs(tabs['binaryOps'])}\n\n"
        "/-- `_known_unary_operators` -/\n"
        f"def unaryOps : List (String × String) := {pairs(tabs['unaryOps'])}\n\n"
        "/-- `compare_operations` -/\n"
        f"def compareOps : List (String × String) := {pairs(tabs['compareOps'])}\n\n"
        "/-- `_type_priority`: C++ type name ↦ priority -/\n"
        f"def typePriority : List (String × Nat) := {pairs(tabs['typePriority'], True)}\n\n"
        "end FaxVerif.Generated.C13Tables\n"
    )
