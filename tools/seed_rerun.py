"""Re-evaluate a stored seeded change against the current checks and /repo HEAD:

    python tools/seed_rerun.py C04-2 [check ids…]      (default: the property's own check)

Makes a scratch worktree of /repo's HEAD under /tmp, applies /verif/seeded/<name>/patch.diff,
re-runs the demonstration (must pass on the clean worktree, fail with the patch) and the unit tests,
runs the named checks with VERIF_REPO=<worktree> (evidence / replays redirected to scratch), merges
the results into seeded/<name>/meta.json under "checks" and removes the worktree.
"""
import json, os, shutil, subprocess, sys, tempfile, time
from pathlib import Path

name = sys.argv[1]
pid = name.split("-")[0]
checks = sys.argv[2:] or [pid]
tier = os.environ.get("SEED_TIER", "quick")
sd = Path("/verif/seeded") / name
PY = "/venv/bin/python"


def run(cmd, **kw):
    return subprocess.run(cmd, capture_output=True, text=True, **kw)


wt = Path(tempfile.mkdtemp(prefix=f"seedwt_{name}_"))
wt.rmdir()
r = run(["git", "-C", "/repo", "worktree", "add", "--detach", str(wt), "HEAD"])
assert r.returncode == 0, r.stderr
try:
    env = dict(os.environ, PYTHONPATH=str(wt))
    meta = json.loads((sd / "meta.json").read_text()) if (sd / "meta.json").exists() else {"property": pid, "mutant": name.split("-")[1], "checks": {}}
    demo = sd / "demo.py"
    r0 = run([PY, str(demo)], cwd=wt, env=env) if demo.exists() else None
    ap = run(["git", "-C", str(wt), "apply", str(sd / "patch.diff")])
    meta["apply_rc_at_head"] = ap.returncode
    if ap.returncode != 0:
        meta["apply_error"] = ap.stderr[-400:]
        print("patch does not apply to HEAD:", ap.stderr)
    else:
        tests = run([PY, "-m", "pytest", "-q", "-p", "no:cacheprovider", "-x"], cwd=wt, env=env)
        tline = [l for l in tests.stdout.splitlines() if "passed" in l or "failed" in l][-1:] or [tests.stdout[-200:]]
        r1 = run([PY, str(demo)], cwd=wt, env=env) if demo.exists() else None
        meta.update({"tests": tline[0].strip(), "demo_clean_exit": r0.returncode if r0 else None, "demo_mutant_exit": r1.returncode if r1 else None})
        meta["confirmed"] = bool(r0 and r1 and r0.returncode == 0 and r1.returncode != 0 and "failed" not in tline[0])
        scratch = Path(tempfile.mkdtemp(prefix="seedeval_"))
        for c in checks:
            e = dict(os.environ, VERIF_REPO=str(wt), VERIF_EVIDENCE_DIR=str(scratch / "ev"), VERIF_REPLAYS_DIR=str(scratch / "rp"))
            t0 = time.time()
            VR = os.environ.get("VERIF_ROOT", "/verif"); cr = run([VR + "/check", c, "--tier", tier], cwd=VR, env=e)
            viol = [l for l in cr.stdout.splitlines() if l.startswith("VIOLATION")]
            info = {"exit": cr.returncode, "violation_lines": [v.replace(str(scratch), "<scratch>") for v in viol], "wall_s": round(time.time() - t0, 1), "tier": tier}
            if viol:
                rp = viol[0].split("replay=")[1].split()[0]
                try:
                    rj = json.loads(Path(rp).read_text())
                    if rj.get("kind") == "failing-input" and rj.get("case") is not None:
                        # keep the failing input: it becomes a corpus case of that check (runs first on every run)
                        (sd / f"replay_{c}.json").write_text(json.dumps({"check": c, "key": rj.get("key"), "what": rj.get("what"), "case": rj.get("case")}, indent=1))
                    info["replay_kind"] = rj.get("kind")
                    info["replay_what"] = (rj.get("what") or "")[:300]
                    info["replay_case"] = json.dumps(rj.get("case"))[:600] if rj.get("case") else None
                    if rj.get("kind") == "no-failing-input-found":
                        info["no_longer_checks"] = [b.get("kind") + ":" + str(b.get("stream") or b.get("first_error") or b.get("theorem") or "")[:200] for b in rj.get("no_longer_checks", [])][:4]
                except Exception as ex:
                    info["replay_read_error"] = str(ex)
            if cr.returncode == 2:
                info["stderr"] = cr.stderr[-600:]
            meta.setdefault("checks", {})[c] = info
            print(c, json.dumps(info)[:700])
        shutil.rmtree(scratch, ignore_errors=True)
        meta["ran"] = "tools/seed_rerun.py: fresh worktree of /repo HEAD; demo clean; git apply patch.diff; pytest; demo with patch; VERIF_REPO=<worktree> ./check <id> --tier <tier>"
    (sd / "meta.json").write_text(json.dumps(meta, indent=1))
finally:
    run(["git", "-C", "/repo", "worktree", "remove", "--force", str(wt)])
    shutil.rmtree(wt, ignore_errors=True)
