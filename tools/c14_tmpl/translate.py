"""Source -> Lean data for C14 (and whoever else needs the templates).

Reads, from the working tree of the repository:
  * the file list and the template directory of each of the three executors (Python `ast`);
  * every template file named there (jinja subset parser);
  * the field list of the `InjectCodeBlock` dataclass (Python `ast`).
What is not recognised becomes an explicit `unrecognised` value.
"""
from __future__ import annotations

import ast
from pathlib import Path
from typing import Any, Dict, List, Optional, Tuple

from . import jinja_subset as js

BACKENDS = [
    ("atlas", "func_adl_xAOD/atlas/xaod/executor.py", "atlas_xaod_executor"),
    ("cms_aod", "func_adl_xAOD/cms/aod/executor.py", "cms_aod_executor"),
    ("cms_miniaod", "func_adl_xAOD/cms/miniaod/executor.py", "cms_miniaod_executor"),
]


def executor_files(repo: Path, rel: str, cls: str) -> Tuple[Optional[List[str]], Optional[str]]:
    """(file_names, template_dir) of one executor class, read from its `__init__`."""
    try:
        tree = ast.parse((repo / rel).read_text())
    except Exception:
        return None, None
    files: Optional[List[str]] = None
    tdir: Optional[str] = None
    for node in ast.walk(tree):
        if isinstance(node, ast.ClassDef) and node.name == cls:
            for fn in node.body:
                if isinstance(fn, ast.FunctionDef) and fn.name == "__init__":
                    for d in fn.args.defaults:
                        if isinstance(d, ast.Constant) and isinstance(d.value, str) and "template" in d.value:
                            tdir = d.value
                    for st in ast.walk(fn):
                        if isinstance(st, ast.Assign) and len(st.targets) == 1 and isinstance(st.targets[0], ast.Name):
                            nm = st.targets[0].id
                            if nm == "file_names" and isinstance(st.value, ast.List):
                                if all(isinstance(e, ast.Constant) and isinstance(e.value, str) for e in st.value.elts):
                                    files = [e.value for e in st.value.elts]  # type: ignore
                            if nm == "template_dir_name" and isinstance(st.value, ast.Constant) and isinstance(st.value.value, str):
                                tdir = st.value.value
    return files, tdir


def inject_fields(repo: Path) -> List[str]:
    """Fields of `InjectCodeBlock` other than `name`, in order; unrecognised shapes are marked."""
    try:
        tree = ast.parse((repo / "func_adl_xAOD/common/meta_data.py").read_text())
    except Exception as e:
        return [f"unrecognised: cannot parse meta_data.py ({type(e).__name__})"]
    for node in tree.body:
        if isinstance(node, ast.ClassDef) and node.name == "InjectCodeBlock":
            is_dc = any((isinstance(d, ast.Name) and d.id == "dataclass") or (isinstance(d, ast.Call) and getattr(d.func, "id", "") == "dataclass") for d in node.decorator_list)
            out: List[str] = []
            if not is_dc:
                out.append("unrecognised: InjectCodeBlock is not a @dataclass")
            first = True
            for st in node.body:
                if isinstance(st, ast.Expr) and isinstance(st.value, ast.Constant):
                    continue  # docstring
                if isinstance(st, ast.AnnAssign) and isinstance(st.target, ast.Name):
                    ann = ast.unparse(st.annotation)
                    if first:
                        first = False
                        if st.target.id == "name" and ann == "str" and st.value is None:
                            continue
                        out.append("unrecognised: first field is not `name: str`: " + ast.unparse(st))
                        continue
                    dflt = ast.unparse(st.value) if st.value is not None else ""
                    if ann == "List[str]" and dflt == "field(default_factory=list)":
                        out.append(st.target.id)
                    else:
                        out.append("unrecognised: " + ast.unparse(st))
                else:
                    out.append("unrecognised: " + ast.unparse(st)[:80])
            return out
    return ["unrecognised: class InjectCodeBlock not found"]


def ident(s: str) -> str:
    return "".join(c if c.isalnum() else "_" for c in s)


class Templates:
    """Everything the translator read; `.lean()` is the generated module."""

    def __init__(self, repo: Path):
        self.repo = repo
        self.fields = inject_fields(repo)
        self.backends: Dict[str, Dict[str, Any]] = {}
        for key, rel, cls in BACKENDS:
            files, tdir = executor_files(repo, rel, cls)
            entry: Dict[str, Any] = {"files": files, "dir": tdir, "strict": {}, "lenient": {}, "source": {}}
            if files is not None and tdir is not None:
                for f in files:
                    p = repo / tdir / f
                    try:
                        src = p.read_bytes().decode("utf-8")
                    except Exception as e:
                        entry["strict"][f] = [("unrec", f"cannot read {tdir}/{f}: {type(e).__name__}")]
                        entry["lenient"][f] = []
                        entry["source"][f] = None
                        continue
                    entry["source"][f] = src
                    entry["strict"][f] = js.parse(src)
                    entry["lenient"][f] = js.parse(src, lenient=True) if js.has_unrec(entry["strict"][f]) else entry["strict"][f]
            self.backends[key] = entry

    def lean(self) -> str:
        out = [
            "/- GENERATED on every run by tools/props/c14.py (tools/c14_tmpl/translate.py) from the",
            "   executors' file lists, the template files and the InjectCodeBlock dataclass of the",
            "   repository's working tree.  Data only.  Do not edit. -/",
            "import FaxVerif.C14.Model",
            "namespace FaxVerif.Generated.C14",
            "open FaxVerif.Tmpl",
            "",
            "/-- fields of `InjectCodeBlock` after `name` (common/meta_data.py) -/",
            "def injectFields : List String := [" + ", ".join(js.lean_string(f) for f in self.fields) + "]",
            "",
        ]
        for key, entry in self.backends.items():
            names = []
            lnames = []
            if entry["files"] is None or entry["dir"] is None:
                out.append(f"def {key}_unreadable : Template := [.unrecognised \"file list or template directory of the {key} executor not recognised\"]")
                out.append(f"def {key}Files : List (String × Template) := [(\"?\", {key}_unreadable)]")
                out.append(f"def {key}Lenient : List (String × Template) := []")
                out.append("")
                continue
            for f in entry["files"]:
                cname = f"{key}_{ident(f)}"
                out.append(f"/-- `{entry['dir']}/{f}` -/")
                out.append(f"def {cname} : Template :=\n" + js.lean_nodes(entry["strict"][f]))
                names.append((f, cname))
                if entry["lenient"][f] is not entry["strict"][f]:
                    out.append(f"/-- `{entry['dir']}/{f}` read leniently (filters dropped): search witness only -/")
                    out.append(f"def {cname}_lenient : Template :=\n" + js.lean_nodes(entry["lenient"][f]))
                    lnames.append((f, cname + "_lenient"))
                else:
                    lnames.append((f, cname))
                out.append("")
            out.append(f"/-- the `{key}` executor's `file_names`, in order, with their templates -/")
            out.append(f"def {key}Files : List (String × Template) := [" + ", ".join(f"({js.lean_string(f)}, {c})" for f, c in names) + "]")
            out.append(f"def {key}Lenient : List (String × Template) := [" + ", ".join(f"({js.lean_string(f)}, {c})" for f, c in lnames) + "]")
            out.append("")
        out.append("end FaxVerif.Generated.C14")
        return "\n".join(out) + "\n"
