"""Lexer/parser for the jinja2 subset used by func_adl_xAOD's templates, and its Lean rendering.

The AST mirrors `FaxVerif.Tmpl.Node` (lean/FaxVerif/C14/Model.lean):

    ("text", s) | ("var", v) | ("for", x, xs, body) | ("unrec", src)

Everything jinja2's *lexer* does with its default settings (trim_blocks=False, lstrip_blocks=False,
keep_trailing_newline=False, newline_sequence="\n") is done here: newline normalisation, removal of
one trailing newline, `{%- … -%}` / `{{- … -}}` / `{#- … -#}` whitespace control, comments dropped.
Anything else that jinja2 would interpret (filters, tests, `if`, `set`, `raw`, `loop.…`, calls, …)
becomes an explicit ("unrec", source) node, never a guess.

`parse(source, lenient=True)` is only used to build a *witness layout* for the failing-input search
when the strict parse has unrecognised nodes: `{{ name|filter }}` is read as `{{ name }}` and
unrecognised block tags are dropped, so that the Spec can still say on which inputs the real output
is wrong.  No theorem ever sees a lenient parse.
"""
from __future__ import annotations

import re
from typing import Any, List, Tuple

NAME = r"[A-Za-z_][A-Za-z0-9_]*"
RESERVED = {
    "true", "false", "none", "True", "False", "None", "loop", "self", "super", "varargs", "kwargs", "caller",
    "and", "or", "not", "in", "is", "if", "else", "elif", "for", "endfor", "endif", "recursive",
    "namespace", "range", "dict", "lipsum", "cycler", "joiner", "set", "block", "extends", "include", "import", "from",
    "macro", "call", "filter", "raw", "with", "autoescape", "do", "break", "continue", "trans", "pluralize", "debug",
}

VAR_RE = re.compile(r"\{\{(-|\+|)\s*(" + NAME + r")\s*(-?)\}\}")
FOR_RE = re.compile(r"\{%(-|\+|)\s*for\s+(" + NAME + r")\s+in\s+(" + NAME + r")\s*(-|\+|)%\}")
ENDFOR_RE = re.compile(r"\{%(-|\+|)\s*endfor\s*(-|\+|)%\}")
COMMENT_RE = re.compile(r"\{#(-|\+|)(.*?)(\+#\}|-#\}|#\})", re.S)
RAW_RE = re.compile(r"\{%(-|\+|)\s*raw\s*(?:-%\}\s*|%\})")
LENIENT_FOR_RE = re.compile(r"\{%(-|\+|)\s*for\s+(" + NAME + r")\s+in\s+(" + NAME + r")\b.*?(-|\+|)%\}", re.S)
LENIENT_VAR_RE = re.compile(r"\{\{(-|\+|)\s*(" + NAME + r")\b.*?(-?)\}\}", re.S)
BEGIN_RE = re.compile(r"\{\{|\{%|\{#")
WS_RE = re.compile(r"\s*")

Node = Tuple[Any, ...]


def preprocess(source: str) -> str:
    """jinja2.lexer.Lexer.tokeniter: newline normalisation and keep_trailing_newline=False."""
    lines = re.split(r"(\r\n|\r|\n)", source)[::2]
    if lines[-1] == "":
        del lines[-1]
    return "\n".join(lines)


def lex(source: str, lenient: bool = False) -> List[Node]:
    """Tokens: ("text", s) ("var", v) ("for", x, xs) ("endfor",) ("unrec", src)."""
    src = preprocess(source)
    toks: List[Node] = []
    pos = 0
    strip_next = False  # a preceding `-%}` / `-}}` / `-#}` eats the following whitespace

    def data(s: str):
        if s:
            if toks and toks[-1][0] == "text":
                toks[-1] = ("text", toks[-1][1] + s)
            else:
                toks.append(("text", s))

    while True:
        m = BEGIN_RE.search(src, pos)
        text = src[pos:] if m is None else src[pos : m.start()]
        if strip_next:  # the `\s*` after `-%}` / `-}}` / `-#}`
            text = text.lstrip()
        strip_next = False
        if m is None:
            data(text)
            break
        start = m.start()
        if src[start + 2 : start + 3] == "-":  # `{%-`, `{{-`, `{#-`: rstrip the preceding data
            text = text.rstrip()
        data(text)
        kind = m.group(0)
        tok = None
        end = None
        if kind == "{{":
            mm = VAR_RE.match(src, start)
            if mm and mm.group(2) not in RESERVED:
                tok, end, strip_next = ("var", mm.group(2)), mm.end(), mm.group(3) == "-"
            elif lenient:
                mm = LENIENT_VAR_RE.match(src, start)
                if mm and mm.group(2) not in RESERVED:
                    tok, end, strip_next = ("var", mm.group(2)), mm.end(), mm.group(3) == "-"
        elif kind == "{%":
            mm = None if RAW_RE.match(src, start) else FOR_RE.match(src, start)
            if mm is None and lenient and not RAW_RE.match(src, start):
                mm = LENIENT_FOR_RE.match(src, start)  # `for x in xs|filter`, `for x in xs if …`: read as `for x in xs`
            if mm and mm.group(2) not in RESERVED and mm.group(3) not in RESERVED:
                tok, end, strip_next = ("for", mm.group(2), mm.group(3)), mm.end(), mm.group(4) == "-"
            else:
                mm = ENDFOR_RE.match(src, start)
                if mm:
                    tok, end, strip_next = ("endfor",), mm.end(), mm.group(2) == "-"
        else:  # comment: dropped by the lexer
            mm = COMMENT_RE.match(src, start)
            if mm:
                tok, end, strip_next = ("comment",), mm.end(), mm.group(3) == "-#}"
        if tok is None:
            close = {"{{": "}}", "{%": "%}", "{#": "#}"}[kind]
            j = src.find(close, start + 2)
            end = len(src) if j < 0 else j + 2
            strip_next = j > start + 2 and src[j - 1] == "-"
            tok = ("comment",) if lenient else ("unrec", src[start:end])
        if tok[0] != "comment":
            toks.append(tok)
        pos = end
    return toks


def parse(source: str, lenient: bool = False) -> List[Node]:
    toks = lex(source, lenient)
    root: List[Node] = []
    stack: List[Tuple[str, str, List[Node], List[Node]]] = []  # (x, xs, body, parent)
    cur = root
    loopvars: List[str] = []
    for t in toks:
        if t[0] == "for":
            _, x, xs = t
            if xs in loopvars:  # iterating over a loop variable (a string): not in the subset
                cur.append(("unrec", "{% for " + x + " in " + xs + " %} (iterable is a loop variable)"))
                if lenient:
                    cur.pop()
                # still open a scope so that the matching endfor is consumed
            body: List[Node] = []
            stack.append((x, xs, body, cur))
            loopvars.append(x)
            cur = body
        elif t[0] == "endfor":
            if not stack:
                if not lenient:
                    cur.append(("unrec", "{% endfor %} (unmatched)"))
                continue
            x, xs, body, parent = stack.pop()
            loopvars.pop()
            parent.append(("for", x, xs, _merge(body)))
            cur = parent
        else:
            cur.append(t)
    while stack:  # unterminated for: jinja2 raises TemplateSyntaxError
        x, xs, body, parent = stack.pop()
        if not lenient:
            parent.append(("unrec", "{% for " + x + " in " + xs + " %} (no endfor)"))
        parent.extend(body)
        cur = parent
    return _merge(root)


def _merge(nodes: List[Node]) -> List[Node]:
    out: List[Node] = []
    for n in nodes:
        if n[0] == "text":
            if not n[1]:
                continue
            if out and out[-1][0] == "text":
                out[-1] = ("text", out[-1][1] + n[1])
                continue
        out.append(n)
    return out


def has_unrec(nodes: List[Node]) -> bool:
    for n in nodes:
        if n[0] == "unrec":
            return True
        if n[0] == "for" and has_unrec(n[3]):
            return True
    return False


def has_directive(nodes: List[Node]) -> bool:
    return any(n[0] != "text" for n in nodes)


# ------------------------------------------------------------------ Lean syntax

def lean_char(c: str) -> str:
    o = ord(c)
    if c == "\\":
        return "'\\\\'"
    if c == "'":
        return "'\\''"
    if c == "\n":
        return "'\\n'"
    if c == "\t":
        return "'\\t'"
    if c == "\r":
        return "'\\r'"
    if 32 <= o < 127:
        return "'" + c + "'"
    return "'\\u{%x}'" % o


def lean_chars(s: str) -> str:
    if not s:
        return "[]"
    return "[" + ", ".join(lean_char(c) for c in s) + "]"


def lean_string(s: str) -> str:
    out = ['"']
    for c in s:
        o = ord(c)
        if c == "\\":
            out.append("\\\\")
        elif c == '"':
            out.append('\\"')
        elif c == "\n":
            out.append("\\n")
        elif c == "\t":
            out.append("\\t")
        elif c == "\r":
            out.append("\\r")
        elif 32 <= o < 127:
            out.append(c)
        else:
            out.append("\\u{%x}" % o)
    out.append('"')
    return "".join(out)


def lean_nodes(nodes: List[Node], indent: str = "  ") -> str:
    items = []
    for n in nodes:
        if n[0] == "text":
            items.append(indent + ".text " + lean_chars(n[1]))
        elif n[0] == "var":
            items.append(indent + ".var " + lean_string(n[1]))
        elif n[0] == "for":
            items.append(indent + ".forIn " + lean_string(n[1]) + " " + lean_string(n[2]) + " " + lean_nodes(n[3], indent + "  ").strip())
        else:
            items.append(indent + ".unrecognised " + lean_string(n[1]))
    if not items:
        return indent + "[]"
    return indent + "[\n" + ",\n".join(items) + "\n" + indent + "]"


# ------------------------------------------------------------------ reference renderer (used only by `unrender`)

def layout(nodes: List[Node]):
    """The Python twin of `FaxVerif.Tmpl.flatten`: (head, [(xs, pre, post, static_after)]) or None."""
    head = ""
    rest = []
    cur = None
    statics = [""]
    slots = []
    for n in nodes:
        if n[0] == "text":
            statics[-1] += n[1]
        elif n[0] == "for":
            x, xs, body = n[1], n[2], n[3]
            kinds = [b[0] for b in body]
            if kinds == ["var"] and body[0][1] == x:
                pre, post = "", ""
            elif kinds == ["text", "var"] and body[1][1] == x:
                pre, post = body[0][1], ""
            elif kinds == ["var", "text"] and body[0][1] == x:
                pre, post = "", body[1][1]
            elif kinds == ["text", "var", "text"] and body[1][1] == x:
                pre, post = body[0][1], body[2][1]
            else:
                return None
            slots.append((xs, pre, post))
            statics.append("")
        else:
            return None
    return statics[0], [(s[0], s[1], s[2], st) for s, st in zip(slots, statics[1:])]
