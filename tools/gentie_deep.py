"""Text tie between the Lean translator model of nesting of ARBITRARY DEPTH (`Gen.compileD`,
lean/FaxVerif/Gen/Deep.lean) and the real translator.

Fragment (outer chain = an event collection filtered by pure `Where`s, elements stay objects):
  (a) ds.Select(e -> {name: e.Coll(bank).Where*.Select(y -> DE), ...})              vector column
  (c) ds.SelectMany(e -> e.Coll(bank).Where*).Select(r -> {name: DE, ...})           one row per outer element
  DE     = pure element expression | CH.Count() | CH.Sum() | + - * / comparisons, -, not over them
  CH     = x.m().Where(z -> DE)*[.Select(z -> DE)]      -- the lambdas are DE over the INNER element, to any depth
  m      = vs (collection of double: the lambdas are pure) | kids (collection of objects of the same type)
No reference to an outer variable inside an inner lambda.

For every generated query (nesting depth 1-4 drawn from the rng): the model's package text comes from the Lean
driver (`FaxVerif/Gen/DeepDriver.lean`, op `compileD`), the implementation's from the real pipeline
(`pipeline.translate_functional`); both are parsed with the same parser (`cparse`) and compared modulo a
bijective renaming of declared identifiers (first-occurrence numbering) and the value of floating literals
(`gentie.canon_package`). Additionally the model's package is EXECUTED in the Lean semantics on generated events
(objects nested as deep as the query) — event by event from the initial class state, and as ONE job — and
compared with the Lean denotation of the query: executable instances of `deepRows_correct_partial`.

    run_stream(ctx_or_rng, n) -> (agree, total, first_disagreement)

Standalone:  /venv/bin/python tools/gentie_deep.py [n] [seed]     |   --selftest (through tools/props/c01_deep.py)
"""
from __future__ import annotations

import json
import os
import random
import re
import subprocess
import sys
from pathlib import Path
from typing import Any, Dict, List, Optional, Tuple

sys.path.insert(0, str(Path(__file__).resolve().parent))

import gentie  # noqa: E402
import qgen  # noqa: E402
import pipeline as P  # noqa: E402

DRIVER = "FaxVerif/Gen/DeepDriver.lean"
DRIVER_IMPORTS = ["FaxVerif.Cpp.Json", "FaxVerif.Cpp.Check", "FaxVerif.Gen.Render", "FaxVerif.Gen.Deep"]
LEAN = Path(__file__).resolve().parent.parent / "lean"
OUTER = "y"  # Gen.outerVar

LAST_STATS: Dict[str, int] = {}

# ---------------------------------------------------------------- generation


class DeepGen:
    """Type-directed generator of the deep fragment. `depth` = number of loops inside one another that the
    expression must reach (exactly, along at least one path). Lambda bodies always use their variable."""

    def __init__(self, rng):
        self.rng = rng
        self.lite = gentie.LiteGen(rng)

    # -- pure lambda bodies
    def pure(self, cur: Optional[str], ty: str, d: int = 2):
        for _ in range(20):
            e = self.lite.dep(self.lite.pe(cur, ty, d), cur, ty)
            if e is not None and e.get("k") != "it":
                return e
        leaf = {"k": "it"} if cur is not None else {"k": "meth", "n": "i", "ty": "int"}
        if ty == "bool":
            return {"k": "cmp", "op": ">", "a": leaf, "b": {"k": "int", "v": 0}}
        return {"k": "bin", "op": "*", "a": leaf, "b": {"k": "int", "v": 2}}

    # -- outer chain: objects stay objects -> Where steps only
    def outer(self) -> Dict[str, Any]:
        r = self.rng
        coll = r.choice(["As", "Bs"])
        bank = r.choice({"As": ["ba", "ba2"], "Bs": ["bb"]}[coll])
        steps = [{"k": "whr", "e": self.pure(None, "bool")} for _ in range(r.choice([0, 0, 0, 1, 2]))]
        return {"coll": coll, "bank": bank, "steps": steps}

    # -- inner chains
    def chain_vs(self, want_num: bool) -> Tuple[Dict[str, Any], str]:
        """x.vs(): elements are doubles, the lambdas are pure"""
        r = self.rng
        whrs = [{"k": "pure", "p": self.pure("double", "bool")} for _ in range(r.choice([0, 0, 1, 1, 2]))]
        sel = None
        if r.random() < 0.4:
            sel = {"k": "pure", "p": self.pure("double", "double")}
        return {"meth": "vs", "elem": "double", "whrs": whrs, "sel": sel}, "double"

    def chain_kids(self, depth: int, want: str) -> Tuple[Dict[str, Any], Optional[str]]:
        """x.kids(): elements are objects; lambdas are DE over the kid. `depth` >= 0: how many further levels the
        lambdas must reach. want: 'any' | 'int' | 'double' (type of a final Select)."""
        r = self.rng
        nw = r.choice([0, 1, 1, 2, 3])
        ns = 1 if want != "any" or r.random() < 0.4 else 0
        if depth > 0 and nw + ns == 0:
            nw = 1
        # which lambda carries the required depth
        carrier = r.randrange(nw + ns) if depth > 0 else -1
        whrs = []
        for i in range(nw):
            whrs.append(self.de("bool", depth if i == carrier else r.choice([0, 0, max(0, depth - 1)]), 1, exact=(i == carrier)))
        sel, cur = None, None
        if ns:
            ty = want if want != "any" else r.choice(["int", "double"])
            sel = self.de(ty, depth if carrier == nw else r.choice([0, 0, max(0, depth - 1)]), 1, exact=(carrier == nw))
            cur = ty
        return {"meth": "kids", "elem": "obj", "whrs": whrs, "sel": sel}, cur

    def agg(self, ty: str, depth: int) -> Dict[str, Any]:
        """an aggregate of type `ty` reaching exactly `depth` (>= 1) nested loops"""
        r = self.rng
        if depth == 1 and ty == "double" and r.random() < 0.5:
            return {"k": "sum", "c": self.chain_vs(True)[0]}
        if depth == 1 and ty == "int" and r.random() < 0.3:
            return {"k": "count", "c": self.chain_vs(False)[0]}
        if ty == "int":
            if r.random() < 0.6:
                return {"k": "count", "c": self.chain_kids(depth - 1, "any")[0]}
            return {"k": "sum", "c": self.chain_kids(depth - 1, "int")[0]}
        return {"k": "sum", "c": self.chain_kids(depth - 1, r.choice(["double", "double", "int"]) if ty == "double" else "int")[0]}

    def de(self, ty: str, depth: int, size: int, exact: bool = True) -> Dict[str, Any]:
        """a DE over an OBJECT element of type `ty` whose deepest aggregate nests `depth` loops"""
        r = self.rng
        if depth <= 0:
            return {"k": "pure", "p": self.pure(None, ty, 1 + size)}
        if ty == "bool":
            t = r.choice(["int", "double"])
            da, db = (depth, r.choice([0, depth - 1, depth])) if r.random() < 0.6 else (r.choice([0, depth - 1]), depth)
            e = {"k": "cmp", "op": r.choice(["<", "<=", ">", ">=", "==", "!="]), "a": self.de(t, da, size - 1), "b": self.de(t, db, 0)}
            return {"k": "not", "a": e} if r.random() < 0.15 else e
        if size <= 0 or r.random() < 0.45:
            return self.agg(ty, depth)
        c = r.choice(["bin", "bin", "div", "neg"] if ty == "double" else ["bin", "neg"])
        if c == "bin":
            ta = ty if ty == "int" else r.choice(["int", "double"])
            tb = ty if ty == "int" else ("double" if ta == "int" else r.choice(["int", "double"]))
            da, db = (depth, r.choice([0, depth - 1, depth])) if r.random() < 0.5 else (r.choice([0, depth - 1, depth]), depth)
            return {"k": "bin", "op": r.choice(["+", "-", "*"]), "a": self.de(ta, da, size - 1), "b": self.de(tb, db, size - 1)}
        if c == "div":
            b = r.choice([{"k": "pure", "p": {"k": "int", "v": 2}}, {"k": "pure", "p": {"k": "dbl", "v": "4.0"}},
                          {"k": "bin", "op": "+", "a": self.agg("int", 1), "b": {"k": "pure", "p": {"k": "int", "v": 1}}}])
            return {"k": "bin", "op": "/", "a": self.de(r.choice(["int", "double"]), depth, size - 1), "b": b}
        return {"k": "neg", "a": self.de(ty, depth, size - 1)}

    def dq(self, depth: int) -> Dict[str, Any]:
        r = self.rng
        names = lambda n: [f"c{i}_{r.choice(['pt', 'eta', 'n'])}" for i in range(n)]
        ncols = r.choice([1, 1, 2]) if depth >= 3 else r.choice([1, 1, 2, 3])
        depths = [depth] + [r.randint(1, depth) for _ in range(ncols - 1)]
        r.shuffle(depths)
        mk = lambda d: self.de(r.choice(["int", "double", "double", "bool"]), d, r.choice([0, 1, 2]) if d <= 2 else r.choice([0, 1]))
        if r.random() < 0.6:
            return {"k": "eventRows", "cols": [{"name": nm, "c": self.outer(), "e": mk(d)} for nm, d in zip(names(ncols), depths)]}
        return {"k": "elemRows", "c": self.outer(), "cols": [{"name": nm, "e": mk(d)} for nm, d in zip(names(ncols), depths)]}


def depth_of(e) -> int:
    """nesting depth of a DE / DCHAIN json (mirror of Gen.depthDE)"""
    if not isinstance(e, dict):
        return 0
    k = e.get("k")
    if k in ("count", "sum"):
        c = e["c"]
        return 1 + max([depth_of(w) for w in c["whrs"]] + [depth_of(c["sel"]) if c["sel"] else 0] + [0])
    if k in ("bin", "cmp"):
        return max(depth_of(e["a"]), depth_of(e["b"]))
    if k in ("neg", "not"):
        return depth_of(e["a"])
    return 0


def count_ops(e, acc: Dict[str, int]):
    if isinstance(e, dict):
        k = e.get("k")
        if k in ("count", "sum") and "c" in e and "whrs" in e["c"]:
            c = e["c"]
            acc[k] = acc.get(k, 0) + 1
            acc["inner:" + c["meth"]] = acc.get("inner:" + c["meth"], 0) + 1
            acc[f"wheres:{min(len(c['whrs']), 3)}"] = acc.get(f"wheres:{min(len(c['whrs']), 3)}", 0) + 1
            if c["sel"] is not None:
                acc["inner-select"] = acc.get("inner-select", 0) + 1
            if any(depth_of(w) > 0 for w in c["whrs"]):
                acc["where-with-loop"] = acc.get("where-with-loop", 0) + 1
            if c["sel"] is not None and depth_of(c["sel"]) > 0:
                acc["select-with-loop"] = acc.get("select-with-loop", 0) + 1
        for v in e.values():
            count_ops(v, acc)
    elif isinstance(e, list):
        for v in e:
            count_ops(v, acc)


# ---------------------------------------------------------------- DQ -> python source text (mirror of Gen.DQ.toQuery)

_pe_src = None


def pe_src(x: str, e: Dict[str, Any]) -> str:
    k = e["k"]
    R = lambda a: pe_src(x, a)
    if k == "int":
        return str(e["v"])
    if k == "dbl":
        return e["v"]
    if k == "bool":
        return "True" if e["v"] else "False"
    if k == "it":
        return x
    if k == "meth":
        return f"{x}.{e['n']}()"
    if k in ("bin", "cmp"):
        return f"({R(e['a'])} {e['op']} {R(e['b'])})"
    if k == "neg":
        return f"(-{R(e['a'])})"
    if k == "not":
        return f"(not {R(e['a'])})"
    raise ValueError(k)


def dchain_src(d: int, x: str, c: Dict[str, Any]) -> str:
    z = f"z{d}"  # Gen.deepVar
    s = f"{x}.{c['meth']}()"
    for w in c["whrs"]:
        s = f"{s}.Where(lambda {z}: {de_src(d + 1, z, w)})"
    if c["sel"] is not None:
        s = f"{s}.Select(lambda {z}: {de_src(d + 1, z, c['sel'])})"
    return s


def de_src(d: int, x: str, e: Dict[str, Any]) -> str:
    k = e["k"]
    R = lambda a: de_src(d, x, a)
    if k == "pure":
        return pe_src(x, e["p"])
    if k == "count":
        return dchain_src(d, x, e["c"]) + ".Count()"
    if k == "sum":
        return dchain_src(d, x, e["c"]) + ".Sum()"
    if k in ("bin", "cmp"):
        return f"({R(e['a'])} {e['op']} {R(e['b'])})"
    if k == "neg":
        return f"(-{R(e['a'])})"
    if k == "not":
        return f"(not {R(e['a'])})"
    raise ValueError(k)


def chain_src(ev: str, c: Dict[str, Any]) -> str:
    src = f"{ev}.{c['coll']}({json.dumps(c['bank'])})"
    for i, st in enumerate(c["steps"]):
        x = f"x{i}"
        src = f"{src}.{'Select' if st['k'] == 'sel' else 'Where'}(lambda {x}: {pe_src(x, st['e'])})"
    return src


def dq_source(dq: Dict[str, Any], mds: List[Dict[str, Any]]) -> str:
    """the call tree the backend receives"""
    s = "ds0"
    for d in mds:
        s = f"MetaData({s}, {d!r})"
    if dq["k"] == "eventRows":
        items = [f"{json.dumps(col['name'])}: {chain_src('e', col['c'])}.Select(lambda {OUTER}: {de_src(0, OUTER, col['e'])})" for col in dq["cols"]]
        return f"Select({s}, lambda e: {{{', '.join(items)}}})"
    row = "{" + ", ".join(f"{json.dumps(col['name'])}: {de_src(0, 'r', col['e'])}" for col in dq["cols"]) + "}"
    return f"Select(SelectMany({s}, lambda e: {chain_src('e', dq['c'])}), lambda r: {row})"


# ---------------------------------------------------------------- events


def banks_of(dq: Dict[str, Any]) -> Dict[str, str]:
    if dq["k"] == "eventRows":
        return {col["c"]["bank"]: col["c"]["coll"] for col in dq["cols"]}
    return {dq["c"]["bank"]: dq["c"]["coll"]}


def gen_obj(rng, ty: str, depth: int) -> Dict[str, Any]:
    """an object of the synthetic data model whose kids nest `depth` more levels (few kids per level)"""
    o = qgen.gen_obj(rng, ty, 0)
    if depth > 0:
        for a in o["o"]["a"]:
            if a["k"] == "kids":
                a["v"] = {"v": [gen_obj(rng, ty, depth - 1) for _ in range(rng.choice([0, 1, 2, 2, 3]))]}
    return o


def gen_event(rng, backend: str, dq: Dict[str, Any], depth: int) -> Dict[str, Any]:
    bs = []
    for bank, coll in sorted(banks_of(dq).items()):
        n = 0 if rng.random() < 0.15 else rng.choice([1, 2, 2, 3])
        objs = [gen_obj(rng, qgen.elem_type(backend, coll), depth) for _ in range(n)]
        bs.append({"bank": bank, "type": qgen.cont_type(backend, coll), "content": {"v": objs}})
    return {"banks": bs}


# ---------------------------------------------------------------- the stream


def _run_driver(reqs: List[Dict[str, Any]]) -> List[Dict[str, Any]]:
    if not reqs:
        return []
    inp = "\n".join(json.dumps(r, ensure_ascii=False) for r in reqs) + "\n"
    p = subprocess.run(["lake", "env", "lean", "--run", DRIVER], cwd=str(LEAN), capture_output=True, text=True, input=inp, timeout=1800)
    lines = [l for l in p.stdout.split("\n") if l.strip()]
    if p.returncode != 0 or len(lines) != len(reqs):
        return [{"bad": f"driver failed rc={p.returncode}: {p.stderr[-500:]}"} for _ in reqs]
    out = []
    for l in lines:
        try:
            out.append(json.loads(l))
        except Exception:
            out.append({"bad": "unparsable: " + l[:200]})
    return out


def _fault_class(r):
    f = r.get("fault")
    if f is None:
        return "ok"
    return f.split(":")[0] if f.startswith("stuck") else f


def _norm_num(x):
    """-0.0 and 0.0 are the same number (IEEE ==): an empty floating Sum negated is -0.0 in C++ and 0 in Python"""
    if isinstance(x, list):
        return [_norm_num(y) for y in x]
    if isinstance(x, str):
        return re.sub(r"(?<![\d.])-0\.000000(?!\d)", "0.000000", x)
    return x


def _same_outcome(ex, de) -> Tuple[bool, str]:
    """Proved direction: the query denotes rows -> the code writes exactly them. Values are compared numerically:
    an EMPTY floating Sum is 0.0 in C++ and the integer 0 in Python (hypothesis `DSumNonEmpty`)."""
    fe, fd = _fault_class(ex), _fault_class(de)
    if fd != "ok":
        return True, "query-faults"
    if fe != "ok":
        return False, f"exec {ex.get('fault')} / query defined"
    return _norm_num(ex["num"]) == _norm_num(de["num"]), "rows"


def run_stream(ctx_or_rng, n: int, events_per_query: int = 2) -> Tuple[int, int, Optional[Dict[str, Any]]]:
    """Generate `n` queries of the deep fragment (backends in rotation, nesting depth 1..4), compare model text
    with the real translator's, and the executed model (per event and as a job) with the query's denotation.
    Returns (agree, total, first_disagreement)."""
    ctx = ctx_or_rng if hasattr(ctx_or_rng, "driver") and hasattr(ctx_or_rng, "rng") else None
    rng = ctx.rng if ctx is not None else ctx_or_rng
    stats: Dict[str, int] = {}

    def count(name, k=1):
        stats[name] = stats.get(name, 0) + k
        if ctx is not None:
            ctx.count("deep-tie:" + name, k)

    reqs, meta = [], []
    for i in range(n):
        b = P.BACKENDS[i % 3]
        depth = [1, 2, 2, 3, 3, 4][(i // 3) % 6]
        dq = DeepGen(rng).dq(depth)
        for _ in range(20):
            if _valid(dq):
                break
            count("regenerated")
            dq = DeepGen(rng).dq(depth)
        if not _valid(dq):
            continue
        src = dq_source(dq, qgen.metadata(b))
        r = P.translate_functional(b, src)
        evs = [gen_event(rng, b, dq, depth) for _ in range(events_per_query)]
        reqs.append({"op": "compileD", "backend": b, "colls": gentie.colls_json(b), "dq": dq, "events": evs})
        meta.append((b, dq, dq_source(dq, []), r, depth))
    outs = ctx.driver(DRIVER, reqs) if ctx is not None else _run_driver(reqs)
    agree, total, first = 0, 0, None
    for (b, dq, src, r, depth), o in zip(meta, outs):
        total += 1
        count("total")
        count("backend:" + b)
        count("shape:" + dq["k"])
        count(f"depth:{max(depth_of(c['e']) for c in dq['cols'])}")
        ops: Dict[str, int] = {}
        count_ops(dq, ops)
        for k, v in ops.items():
            count("op:" + k, v)
        if ctx is not None:
            ctx.case(f"deep|{b}|{src}", True, {"backend": b, "fragment_query": src})
        bad = None
        if "bad" in o:
            bad = {"kind": "driver", "what": o["bad"]}
        elif not r["ok"]:
            bad = {"kind": "refused", "what": f"a query of the modelled fragment is refused ({r['error']}: {r.get('message', '')[:200]})"}
        else:
            if o.get("wt"):
                count("inside-proved-fragment")
            if o.get("wf"):
                count("model-package-wellformed")
            if o.get("eventlocal"):
                count("model-package-eventlocal")
            if o.get("depth") != max(depth_of(c["e"]) for c in dq["cols"]):
                bad = {"kind": "driver", "what": f"depth: lean {o.get('depth')} / python {max(depth_of(c['e']) for c in dq['cols'])}"}
            if bad is None and not (o.get("wf") and o.get("eventlocal")):
                bad = {"kind": "model-instance", "what": f"Gen.compileD's package: WellFormed={o.get('wf')} EventLocal={o.get('eventlocal')}", "model_body": o.get("body")}
            d = gentie.first_diff(gentie.model_canon(o), gentie.impl_canon(r)) if bad is None else None
            if bad is not None:
                pass
            elif d is not None:
                bad = {"kind": "text", "first_difference": d, "model_body": o.get("body"), "impl_body": r["query"]}
            else:
                count("text-agree")
                all_ok = True
                for ex, de in zip(o["exec"], o["denote"]):
                    if _fault_class(de) != "ok":
                        count("event:query-faults")
                        all_ok = False
                    else:
                        count("event:rows")
                        if ex.get("rows") == de.get("rows"):
                            count("event:rows-typed-equal")
                        if any(row for row in de.get("num", [])):
                            count("event:non-empty")
                    ok, why = _same_outcome(ex, de)
                    if not ok:
                        bad = {"kind": "model-instance", "what": f"Gen.compileD executed vs denote: {why}", "exec": ex, "denote": de, "model_body": o.get("body")}
                        break
                if bad is None and all_ok:
                    want = _norm_num([row for de in o["denote"] for row in de["num"]])
                    job = o.get("job", {})
                    count("job:checked")
                    if _fault_class(job) != "ok" or _norm_num(job.get("num")) != want:
                        bad = {"kind": "model-instance", "what": "Gen.compileD run as ONE job vs the per-event denotations", "job": job, "want": want, "model_body": o.get("body")}
        if bad is None:
            agree += 1
            count("backend-agree:" + b)
        else:
            count("disagree:" + bad["kind"])
            bad.update({"backend": b, "source": src, "dq": dq})
            if first is None:
                first = bad
            if os.environ.get("DEEP_TIE_ALL"):
                print("DISAGREE", bad["kind"], b, src, bad.get("first_difference") or bad.get("what"))
    LAST_STATS.clear()
    LAST_STATS.update(stats)
    return agree, total, first


def _valid(x) -> bool:
    """no `None` where an expression is required (`sel: None` = no Select is legitimate)"""
    if isinstance(x, dict):
        return all((k == "sel" and v is None) or (v is not None and _valid(v)) for k, v in x.items())
    if isinstance(x, list):
        return all(v is not None and _valid(v) for v in x)
    return True


class _SelfCtx:
    """stand-in for the vlib check context (selftest of `tools/props/c01_deep.stream`)"""

    def __init__(self, seed):
        self.rng = random.Random(f"deep-tie:{seed}")
        self.tier = "quick"
        self.counts: Dict[str, int] = {}
        self.cases = 0
        self.nontrivial = 0
        self.violations: List[Any] = []
        self.disagreements: List[Any] = []

    def count(self, name, k=1):
        self.counts[name] = self.counts.get(name, 0) + k

    def case(self, key, nontrivial, sample=None):
        self.cases += 1
        self.nontrivial += bool(nontrivial)

    def driver(self, rel, reqs, timeout=1200):
        assert rel == DRIVER
        return _run_driver(reqs)

    def violation(self, key, what, case, observed=None, how=""):
        self.violations.append({"key": key, "what": what, "case": case})

    def disagreement(self, stream, case, model, impl):
        self.disagreements.append({"stream": stream, "case": case, "model": model, "impl": impl})


def _print_first(first):
    print("FIRST DISAGREEMENT:")
    print(json.dumps({k: v for k, v in first.items() if k not in ("model_body", "impl_body")}, indent=1)[:3000])
    if first.get("model_body"):
        print("--- model")
        print("\n".join(first["model_body"]))
    if first.get("impl_body"):
        print("--- implementation")
        print("\n".join(first["impl_body"]))


if __name__ == "__main__":
    if "--selftest" in sys.argv:
        sys.path.insert(0, str(Path(__file__).resolve().parent / "props"))
        import c01_deep

        ctx = _SelfCtx(int(os.environ.get("VERIF_SEED", "1")))
        c01_deep.stream(ctx)
        for k in sorted(ctx.counts):
            print(f"  {k}: {ctx.counts[k]}")
        print(f"cases {ctx.cases} (non-trivial {ctx.nontrivial}), violations {len(ctx.violations)}, disagreements {len(ctx.disagreements)}")
        for v in ctx.violations[:2] + ctx.disagreements[:2]:
            print(json.dumps(v, indent=1, default=str)[:3000])
        sys.exit(1 if ctx.violations or ctx.disagreements else 0)
    n = int(sys.argv[1]) if len(sys.argv) > 1 else 120
    seed = int(sys.argv[2]) if len(sys.argv) > 2 else int(os.environ.get("VERIF_SEED", "1"))
    a, t, first = run_stream(random.Random(f"deep-tie:{seed}"), n)
    print(f"deep tie: {a}/{t} agree (seed {seed})")
    for k in sorted(LAST_STATS):
        print(f"  {k}: {LAST_STATS[k]}")
    if first is not None:
        _print_first(first)
        sys.exit(1)
