"""Parser of the line language the translator emits (per-event body, booking code, class
declarations) into a JSON AST that the Lean side decodes (lean/FaxVerif/Cpp/Json.lean).

Expressions are parsed with real C++ precedence, so a dropped parenthesis changes the tree.
Anything not recognised becomes {"k":"line","t":text} / {"k":"opaque","t":text} — the Lean
semantics gives those no meaning (reading them is the fault `stuck`), so an unparsable emission
surfaces as a disagreement, never as a silent pass.  This parser is part of the trusted base of
the tie (DESIGN §7); it is not part of any theorem.
"""
from __future__ import annotations

import re
from typing import Any, Dict, List, Optional, Tuple

TOK_RE = re.compile(
    r"""\s*(?:
      (?P<num>(?:\d+\.\d*|\.\d+|\d+)(?:[eE][+-]?\d+)?)
    | (?P<id>[A-Za-z_][A-Za-z_0-9]*(?:::[A-Za-z_][A-Za-z_0-9]*)*)
    | (?P<str>"(?:[^"\\]|\\.)*")
    | (?P<op>->|<=|>=|==|!=|&&|\|\||[-+*/%<>!&().,\[\]=:?])
    )""",
    re.X,
)


class ParseError(Exception):
    pass


def tokenize(s: str) -> List[Tuple[str, str]]:
    pos, out = 0, []
    s = s.rstrip()
    while pos < len(s):
        m = TOK_RE.match(s, pos)
        if not m or m.end() == pos:
            raise ParseError(f"cannot tokenise at {s[pos:pos+20]!r}")
        pos = m.end()
        for k in ("num", "id", "str", "op"):
            if m.group(k) is not None:
                out.append((k, m.group(k)))
                break
    return out


def unescape_c(s: str) -> str:
    body = s[1:-1]
    out, i = [], 0
    esc = {"n": "\n", "t": "\t", "r": "\r", "\\": "\\", '"': '"', "'": "'", "0": "\0"}
    while i < len(body):
        c = body[i]
        if c == "\\" and i + 1 < len(body):
            out.append(esc.get(body[i + 1], body[i + 1]))
            i += 2
        else:
            out.append(c)
            i += 1
    return "".join(out)


class P:
    def __init__(self, toks):
        self.t = toks
        self.i = 0

    def peek(self, k=0):
        return self.t[self.i + k] if self.i + k < len(self.t) else ("eof", "")

    def eat(self, val=None):
        tk = self.peek()
        if val is not None and tk[1] != val:
            raise ParseError(f"expected {val!r}, got {tk[1]!r}")
        self.i += 1
        return tk

    def at(self, val):
        return self.peek()[1] == val and self.peek()[0] in ("op", "id")

    # precedence climbing
    def expr(self):
        return self.p_or()

    def binlevel(self, sub, ops):
        a = sub()
        while self.peek()[0] == "op" and self.peek()[1] in ops:
            op = self.eat()[1]
            b = sub()
            a = {"k": "bin", "op": op, "a": a, "b": b}
        return a

    def p_or(self):
        return self.binlevel(self.p_and, ("||",))

    def p_and(self):
        return self.binlevel(self.p_eq, ("&&",))

    def p_eq(self):
        return self.binlevel(self.p_rel, ("==", "!="))

    def p_rel(self):
        return self.binlevel(self.p_add, ("<", "<=", ">", ">="))

    def p_add(self):
        return self.binlevel(self.p_mul, ("+", "-"))

    def p_mul(self):
        return self.binlevel(self.p_unary, ("*", "/", "%"))

    def p_unary(self):
        k, v = self.peek()
        if k == "op" and v in ("-", "+", "!"):
            self.eat()
            return {"k": "un", "op": v, "a": self.p_unary()}
        if k == "op" and v == "*":
            self.eat()
            return {"k": "deref", "a": self.p_unary()}
        if k == "op" and v == "&":
            self.eat()
            return {"k": "addr", "a": self.p_unary()}
        return self.p_postfix()

    def args(self):
        self.eat("(")
        res = []
        if not self.at(")"):
            res.append(self.expr())
            while self.at(","):
                self.eat()
                res.append(self.expr())
        self.eat(")")
        return res

    def p_postfix(self):
        a = self.p_primary()
        while True:
            k, v = self.peek()
            if k == "op" and v in (".", "->"):
                self.eat()
                name = self.eat()
                if name[0] != "id":
                    raise ParseError("member name expected")
                if self.at("("):
                    a = {"k": "mem", "o": a, "arrow": v == "->", "n": name[1], "args": self.args(), "call": True}
                else:
                    a = {"k": "mem", "o": a, "arrow": v == "->", "n": name[1], "args": [], "call": False}
            elif k == "op" and v == "[":
                self.eat()
                i = self.expr()
                self.eat("]")
                a = {"k": "index", "a": a, "i": i}
            else:
                return a

    def p_type_in_angles(self) -> str:
        # after 'static_cast' : '<' type '>'
        self.eat("<")
        depth, parts = 1, []
        while True:
            k, v = self.eat()
            if k == "eof":
                raise ParseError("unterminated <")
            if v == "<":
                depth += 1
            elif v == ">":
                depth -= 1
                if depth == 0:
                    break
            parts.append(v)
        return " ".join(parts).replace(" :: ", "::").replace(" *", "*")

    def p_primary(self):
        k, v = self.peek()
        if k == "num":
            self.eat()
            if re.fullmatch(r"\d+", v):
                return {"k": "int", "v": int(v)}
            return {"k": "dbl", "v": v}
        if k == "str":
            self.eat()
            return {"k": "str", "v": unescape_c(v)}
        if k == "id":
            self.eat()
            if v == "true":
                return {"k": "bool", "v": True}
            if v == "false":
                return {"k": "bool", "v": False}
            if v == "static_cast":
                t = self.p_type_in_angles()
                self.eat("(")
                e = self.expr()
                self.eat(")")
                return {"k": "cast", "t": t, "a": e}
            if self.at("("):
                return {"k": "call", "f": v, "args": self.args()}
            return {"k": "var", "n": v}
        if k == "op" and v == "(":
            self.eat()
            e = self.expr()
            self.eat(")")
            return e
        raise ParseError(f"unexpected token {v!r}")


def parse_expr(s: str) -> Dict[str, Any]:
    try:
        p = P(tokenize(s))
        e = p.expr()
        if p.peek()[0] != "eof":
            raise ParseError(f"trailing {p.peek()[1]!r}")
        return e
    except ParseError:
        return {"k": "opaque", "t": s}


TYPE_RE = r"(?:const\s+)?[A-Za-z_][\w:]*(?:<[^;=()]*>)?(?:::[A-Za-z_]\w*)*(?:\s*\*+)?"
DECL_RE = re.compile(rf"^(?P<t>{TYPE_RE})\s+(?P<n>[A-Za-z_]\w*)\s*(?:\((?P<init>.*)\)|=\s*(?P<init2>.*))?;$")
ASSIGN_RE = re.compile(r"^(?P<x>[A-Za-z_]\w*)\s*=\s*(?P<e>.*);$")
PUSH_RE = re.compile(r"^(?P<x>[A-Za-z_]\w*)\.push_back\((?P<e>.*)\);$")
CLEAR_RE = re.compile(r"^(?P<x>[A-Za-z_]\w*)\.clear\(\);$")
FOR_RE = re.compile(r"^for \(auto &&(?P<x>[A-Za-z_]\w*) : (?P<c>.*)\)$")
IF_RE = re.compile(r"^if \((?P<c>.*)\)$")
THROW_RE = re.compile(r'^throw std::runtime_error\((?P<m>".*")\);$')
FILL_ATLAS_RE = re.compile(r'^tree\((?P<t>"(?:[^"\\]|\\.)*")\)->Fill\(\);$')
FILL_CMS_RE = re.compile(r"^myTree->Fill\(\);$")
RETR_ATLAS_RE = re.compile(r"^ANA_CHECK \(evtStore\(\)->retrieve\((?P<v>\w+), (?P<b>.*)\)\);$")
RETR_LABEL_RE = re.compile(r"^iEvent\.getByLabel\((?P<b>.*), (?P<v>\w+)\);$")
RETR_TOKEN_RE = re.compile(r"^iEvent\.getByToken\((?P<tok>\w+), (?P<v>\w+)\);$")

KEYWORDS = {"return", "throw", "if", "for", "else", "while", "delete", "new"}


def norm_type(t: str) -> str:
    return re.sub(r"\s+", " ", t.strip()).replace(" *", "*")


def parse_line(l: str) -> Dict[str, Any]:
    m = THROW_RE.match(l)
    if m:
        return {"k": "throw", "msg": unescape_c(m.group("m"))}
    m = FILL_ATLAS_RE.match(l)
    if m:
        return {"k": "fill", "tree": unescape_c(m.group("t"))}
    if FILL_CMS_RE.match(l):
        return {"k": "fill", "tree": ""}
    m = RETR_ATLAS_RE.match(l)
    if m:
        return {"k": "retrieve", "how": "atlas", "v": m.group("v"), "bank": parse_expr(m.group("b")), "token": ""}
    m = RETR_LABEL_RE.match(l)
    if m:
        return {"k": "retrieve", "how": "label", "v": m.group("v"), "bank": parse_expr(m.group("b")), "token": ""}
    m = RETR_TOKEN_RE.match(l)
    if m:
        return {"k": "retrieve", "how": "token", "v": m.group("v"), "bank": {"k": "opaque", "t": ""}, "token": m.group("tok")}
    m = PUSH_RE.match(l)
    if m:
        return {"k": "push", "x": m.group("x"), "e": parse_expr(m.group("e"))}
    m = CLEAR_RE.match(l)
    if m:
        return {"k": "clear", "x": m.group("x")}
    m = DECL_RE.match(l)
    if m and m.group("t").split()[0] not in KEYWORDS and m.group("t") not in KEYWORDS:
        init = m.group("init") if m.group("init") is not None else m.group("init2")
        return {"k": "decl", "t": norm_type(m.group("t")), "n": m.group("n"), "init": parse_expr(init) if init is not None else None}
    m = ASSIGN_RE.match(l)
    if m:
        return {"k": "set", "x": m.group("x"), "e": parse_expr(m.group("e"))}
    return {"k": "line", "t": l}


def parse_block(lines: List[str], i: int) -> Tuple[Dict[str, Any], int]:
    """lines[i] must be '{'; returns (block, index after the matching '}')."""
    if lines[i] != "{":
        raise ParseError(f"expected '{{' at line {i}: {lines[i]!r}")
    i += 1
    body: List[Dict[str, Any]] = []
    while True:
        if i >= len(lines):
            raise ParseError("unterminated block")
        l = lines[i]
        if l == "}":
            return {"k": "block", "body": body}, i + 1
        if l == "{":
            b, i = parse_block(lines, i)
            body.append(b)
            continue
        m = FOR_RE.match(l)
        if m:
            b, i = parse_block(lines, i + 1)
            body.append({"k": "for", "x": m.group("x"), "c": parse_expr(m.group("c")), "body": b["body"]})
            continue
        m = IF_RE.match(l)
        if m:
            b, i = parse_block(lines, i + 1)
            node = {"k": "if", "c": parse_expr(m.group("c")), "then": b["body"], "else": None}
            if i < len(lines) and lines[i] == "else":
                eb, i = parse_block(lines, i + 1)
                node["else"] = eb["body"]
            body.append(node)
            continue
        if l == "else":
            raise ParseError("else without if")
        body.append(parse_line(l))
        i += 1


def parse_body(lines: List[str]) -> Dict[str, Any]:
    """The per-event code (or the booking code): a single top-level block."""
    ls = [l.strip() for l in lines if l.strip() != ""]
    try:
        if not ls:
            return {"k": "block", "body": []}
        b, j = parse_block(ls, 0)
        if j != len(ls):
            raise ParseError("text after the top-level block")
        return b
    except ParseError as e:
        return {"k": "line", "t": "PARSE-ERROR: " + str(e)}


# ---------------------------------------------------------------- class declarations and booking

CLASS_DECL_RE = re.compile(rf"^(?P<t>{TYPE_RE})\s+(?P<n>[A-Za-z_]\w*);$")


def parse_class_decl(cd: List[Any]) -> List[Dict[str, str]]:
    res = []
    for x in cd:
        s = x if isinstance(x, str) else " ".join(x)
        s = s.strip()
        m = CLASS_DECL_RE.match(s)
        if m:
            res.append({"t": norm_type(m.group("t")), "n": m.group("n")})
        else:
            res.append({"t": "?", "n": "?", "raw": s})
    return res


BRANCH_RE = re.compile(r'^myTree->Branch\((?P<n>"(?:[^"\\]|\\.)*"), &(?P<v>[A-Za-z_]\w*)\);$')
BOOK_ATLAS_RE = re.compile(r'^ANA_CHECK \(book \(TTree \((?P<t>"(?:[^"\\]|\\.)*"), "My analysis ntuple"\)\)\);$')
MYTREE_ATLAS_RE = re.compile(r'^auto myTree = tree \((?P<t>"(?:[^"\\]|\\.)*")\);$')
BOOK_CMS_RE = re.compile(r'^myTree = fs->make<TTree>\((?P<t>"(?:[^"\\]|\\.)*"), "My analysis ntuple"\);$')
TOKEN_INIT_RE = re.compile(r"^(?P<tok>[A-Za-z_]\w*) = consumes<(?P<t>[^>]*)>\(edm::InputTag\((?P<b>.*)\)\);$")


def parse_book(lines: List[str]) -> Dict[str, Any]:
    """Booking code: tree name(s), (branch, variable) pairs in order, token initialisations, leftovers."""
    trees, branches, tokens, other = [], [], [], []
    for raw in lines:
        l = raw.strip()
        if l in ("{", "}", "", "edm::Service<TFileService> fs;"):
            continue
        m = BRANCH_RE.match(l)
        if m:
            branches.append({"name": unescape_c(m.group("n")), "var": m.group("v")})
            continue
        m = BOOK_ATLAS_RE.match(l) or MYTREE_ATLAS_RE.match(l) or BOOK_CMS_RE.match(l)
        if m:
            trees.append(unescape_c(m.group("t")))
            continue
        m = TOKEN_INIT_RE.match(l)
        if m:
            tokens.append({"token": m.group("tok"), "type": m.group("t"), "bank": parse_expr(m.group("b"))})
            continue
        other.append(l)
    return {"trees": trees, "branches": branches, "tokens": tokens, "other": other}
