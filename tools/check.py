"""Entry point: ./check C15 --tier quick|thorough [--replay F]"""
import argparse
import importlib
import os
import sys
from pathlib import Path

sys.path.insert(0, str(Path(__file__).resolve().parent))
import vlib  # noqa: E402


def main() -> int:
    ap = argparse.ArgumentParser()
    ap.add_argument("prop")
    ap.add_argument("--tier", default=os.environ.get("VERIF_TIER", "quick"), choices=["quick", "thorough"])
    ap.add_argument("--replay", default=None)
    a = ap.parse_args()
    seed = int(os.environ.get("VERIF_SEED", "0") or 0)
    mod = importlib.import_module(f"props.{a.prop.lower()}")
    return vlib.run_check(mod, a.tier, seed, a.replay)


if __name__ == "__main__":
    sys.exit(main())
