"""C11, both tiers — what the supplied code of the BUILT-IN injected functions means (executed-artefact oracle).

A call of a built-in "becomes the supplied code"; for a built-in that code is part of the package, so the check has
to judge what it computes.  Two families of cases, decided by ONE g++ compile per run:

  builtin  the code lines of every built-in, as probed out of the source on this run (tables of c11.py: DeltaR,
           getAttributeFloat, getAttributeVectorFloat, isNonnull), are wrapped exactly as the translator injects them
           (a declared variable of the declared type, a block with the lines, the final assignment) into a function
           whose formal parameters are the specification's parameter names, and compiled with the specification's
           own include files — ROOT's TVector2.h / TMath.h resolve to stand-in headers (STANDINS, `Phi_mpi_pi`
           written as ROOT does, tied to Lean's `Angle.phiMpiPi` on a grid on every run).
           DeltaR is run on the grid  eta = e/8, phi = k·π/16  for ALL pairs (k1, k2) in [-2π, 2π]², so both argument
           orders of every pair on either side of the seam phi = ±π; the Lean driver evaluates `Angle.DeltaRGridSpec`
           (exact integer wrap of k1-k2, proved canonical/symmetric/periodic) on the number the code printed.
           getAttribute* / isNonnull are run on mock objects whose attributes are generated.
  bquery   generated queries over the built-ins (DeltaR with argument trees over j.pt()/eta()/phi()/m(), constants,
           negations, sums, nested DeltaR, getAttributeFloat; getAttributeVectorFloat consumed by Count()/Sum();
           isNonnull(j.globalTrack()) on the CMS back ends) go through the real pipeline; the loop body of the
           generated source file is compiled against mock objects whose values are drawn around the seam and
           compared with the meaning of the query, computed here on the Python source of the column.
"""
from __future__ import annotations

import ast
import json
import math
import re
import shutil
import subprocess
import tempfile
from pathlib import Path
from typing import Any, Dict, List, Optional, Tuple

import vlib
from c11_lib import impl

H, DEN = 16, 8  # the grid: phi = k*pi/H, eta = e/DEN
TOL = 1e-9

# Stand-ins for the ROOT headers the built-ins include.  Phi_0_2pi / Phi_mpi_pi are ROOT's (math/physics/src/
# TVector2.cxx: kPI = TMath::Pi(), kTWOPI = 2.*kPI; NaN is handed back).
STANDINS = {
    "TMath.h": """#pragma once
#include <cmath>
namespace TMath {
  inline constexpr double Pi() { return 3.14159265358979323846; }
  inline constexpr double TwoPi() { return 2.0 * Pi(); }
  inline constexpr double PiOver2() { return Pi() / 2.0; }
  inline double Sqrt(double x) { return std::sqrt(x); }
  inline double Abs(double x) { return std::fabs(x); }
  inline bool IsNaN(double x) { return std::isnan(x); }
}
""",
    "TVector2.h": """#pragma once
#include "TMath.h"
class TVector2 {
public:
  static double Phi_0_2pi(double x) {
    if (TMath::IsNaN(x)) return x;
    const double kPI = TMath::Pi(); const double kTWOPI = 2. * kPI;
    while (x >= kTWOPI) x -= kTWOPI;
    while (x < 0.) x += kTWOPI;
    return x;
  }
  static double Phi_mpi_pi(double x) {
    if (TMath::IsNaN(x)) return x;
    const double kPI = TMath::Pi(); const double kTWOPI = 2. * kPI;
    while (x >= kPI) x -= kTWOPI;
    while (x < -kPI) x += kTWOPI;
    return x;
  }
};
""",
}

MOCKS = r"""#include <cstdio>
#include <string>
#include <vector>
#include <utility>
#include <stdexcept>
struct TrkRef { bool ok; bool isNonnull() const { return ok; } bool isNull() const { return !ok; } bool isAvailable() const { return ok; } };
template <class T> struct AttrConv;
struct Obj {
  double pt_, eta_, phi_, m_; bool trk_;
  std::vector<std::pair<std::string, double>> fattr;
  std::vector<std::pair<std::string, std::vector<double>>> vattr;
  double pt() const { return pt_; } double eta() const { return eta_; } double phi() const { return phi_; } double m() const { return m_; }
  TrkRef globalTrack() const { return TrkRef{trk_}; }
  template <class T> T getAttribute(const std::string &n) const { return AttrConv<T>::get(*this, n); }
};
template <class T> struct AttrConv {
  static T get(const Obj &o, const std::string &n) {
    for (auto &p : o.fattr) if (p.first == n) return static_cast<T>(p.second);
    throw std::runtime_error("no scalar attribute " + n);
  }
};
template <class U> struct AttrConv<std::vector<U>> {
  static std::vector<U> get(const Obj &o, const std::string &n) {
    for (auto &p : o.vattr) if (p.first == n) return std::vector<U>(p.second.begin(), p.second.end());
    throw std::runtime_error("no vector attribute " + n);
  }
};
static void show(double v) { std::printf(" %.17g", v); }
static void show(const std::vector<double> &v) { std::printf(" %d", (int)v.size()); for (double x : v) std::printf(" %.17g", x); }
static void show(const std::vector<float> &v) { std::printf(" %d", (int)v.size()); for (double x : v) std::printf(" %.17g", x); }
"""

HOW = {
    "builtin": "tools/c11_lib/builtin_exec.py: the built-in's code lines (from the source) wrapped as the translator injects them, "
               "compiled with g++ against the stand-in headers, called with the case's arguments  (./check C11 --replay <this file>)",
    "bquery": "tools/c11_lib/builtin_exec.py: SelectMany(e -> collection).Select(lambda j: <cols>) through apply_ast_transformations + "
              "write_cpp_files, loop body compiled with g++ against the case's mock objects  (./check C11 --replay <this file>)",
}


def hx(v: float) -> str:
    return float(v).hex() if math.isfinite(v) else "0.0"


def key_of(case: Dict[str, Any]) -> str:
    return case["kind"] + ":" + json.dumps({k: v for k, v in case.items() if k != "kind"}, sort_keys=True)


# ------------------------------------------------------------------------------------------------ built-in units

def unit_of(h: Any) -> Optional[Dict[str, Any]]:
    """table entry (probed handler JSON) -> what is injected: parameters, receiver word, lines, result, declared type"""
    if isinstance(h, dict) and "spec" in h:
        s = h["spec"]
        return {"args": list(s["args"]), "recv": s["methodObject"], "code": list(s["code"]), "result": s["result"],
                "decl": f"std::vector<{s['retType']}>" if s["isCollection"] else s["retType"], "includes": list(s["includes"]),
                "coll": bool(s["isCollection"])}
    if isinstance(h, dict) and "arityonly" in h:
        c = h["arityonly"]
        return {"args": list(c["args"]), "recv": None, "code": list(c["code"]), "result": c["result"], "decl": c["declType"],
                "includes": list(c["includes"]), "coll": bool(c["isCollection"])}
    return None


# C++ types of the actual arguments the harness calls a built-in with (receiver first)
CALL_TYPES = {"DeltaR": ["double", "double", "double", "double"], "getAttributeFloat": ["const Obj *", "const char *"],
              "getAttributeVectorFloat": ["const Obj *", "const char *"], "isNonnull": ["TrkRef"]}


def unit_cpp(name: str, f: str, u: Dict[str, Any]) -> str:
    ps = ([u["recv"]] if u["recv"] else []) + u["args"]
    sig = ", ".join(f"{t} {p}" for t, p in zip(CALL_TYPES[f], ps))
    body = "\n".join("    " + l for l in u["code"])
    return f"{u['decl']} {name}({sig}) {{\n  {u['decl']} out_;\n  {{\n{body}\n    out_ = {u['result']};\n  }}\n  return out_;\n}}\n"


def obj_cpp(o: Dict[str, Any]) -> str:
    fa = ", ".join('{"%s", %s}' % (k, hx(v)) for k, v in o.get("fattr", {}).items())
    va = ", ".join('{"%s", {%s}}' % (k, ", ".join(hx(x) for x in v)) for k, v in o.get("vattr", {}).items())
    return "{%s, %s, %s, %s, %s, {%s}, {%s}}" % (hx(o.get("pt", 0.0)), hx(o.get("eta", 0.0)), hx(o.get("phi", 0.0)), hx(o.get("m", 0.0)),
                                                   "true" if o.get("trk") else "false", fa, va)


def builtin_args(case: Dict[str, Any]) -> List[float]:
    return [case["e1"] / case["den"], case["k1"] * math.pi / case["h"], case["e2"] / case["den"], case["k2"] * math.pi / case["h"]]


# ------------------------------------------------------------------------------------------------ meaning of a column

class NoMeaning(Exception):
    pass


def wrap_angle(x: float) -> float:
    return math.remainder(x, 2.0 * math.pi)


def meaning(src: str, o: Dict[str, Any]) -> Any:
    return _ev(ast.parse(src, mode="eval").body, o)


def _ev(n: ast.AST, o: Dict[str, Any]) -> Any:
    if isinstance(n, ast.Constant) and isinstance(n.value, (int, float, str)) and not isinstance(n.value, bool):
        return n.value
    if isinstance(n, ast.UnaryOp) and isinstance(n.op, ast.USub):
        return -_ev(n.operand, o)
    if isinstance(n, ast.BinOp) and isinstance(n.op, (ast.Add, ast.Sub, ast.Mult)):
        a, b = _ev(n.left, o), _ev(n.right, o)
        return a + b if isinstance(n.op, ast.Add) else a - b if isinstance(n.op, ast.Sub) else a * b
    if isinstance(n, ast.Call) and isinstance(n.func, ast.Name):
        args = [_ev(a, o) for a in n.args]
        if n.func.id == "DeltaR" and len(args) == 4:
            e1, p1, e2, p2 = (float(x) for x in args)
            return math.hypot(e1 - e2, wrap_angle(p1 - p2))
        if n.func.id == "isNonnull" and len(args) == 1 and isinstance(args[0], tuple) and args[0][0] == "ref":
            return 1.0 if args[0][1] else 0.0
    if isinstance(n, ast.Call) and isinstance(n.func, ast.Attribute):
        f, recv = n.func.attr, n.func.value
        if isinstance(recv, ast.Name) and recv.id == "j":
            if f in ("pt", "eta", "phi", "m") and not n.args:
                return float(o[f])
            if f == "globalTrack" and not n.args:
                return ("ref", bool(o.get("trk")))
            if f == "getAttributeFloat" and len(n.args) == 1:
                return float(o["fattr"][_ev(n.args[0], o)])
            if f == "getAttributeVectorFloat" and len(n.args) == 1:
                return [float(x) for x in o["vattr"][_ev(n.args[0], o)]]
        else:
            v = _ev(recv, o)
            if isinstance(v, list) and f == "Count" and not n.args:
                return float(len(v))
            if isinstance(v, list) and f == "Sum" and not n.args:
                t = 0.0
                for x in v:
                    t += x
                return t
    raise NoMeaning(ast.dump(n))


def close(a: float, b: float) -> bool:
    return math.isfinite(a) and math.isclose(a, b, rel_tol=TOL, abs_tol=TOL)


# ------------------------------------------------------------------------------------------------ generators

ANGLE_CONSTS = ["0.0", "1.5", "-1.5", "3.0", "-3.0", "3.1", "-3.1", "3.14", "-3.14", "2", "-1", "6.0", "0.25"]
FATTR = ["emf", "width", "jvf"]
VATTR = ["w", "trkpt"]


def gen_angle(rng) -> float:
    r = rng.random()
    if r < 0.35:
        return rng.randint(-2 * H, 2 * H) * math.pi / H
    if r < 0.5:
        return rng.choice([1, -1]) * (math.pi - 10.0 ** (-rng.randint(1, 12)))
    if r < 0.65:
        return rng.choice([3.0, -3.0, 3.1, -3.1, 3.14, -3.14, 3.2, -3.2, 6.2, 0.1, -0.1, 0.0])
    return rng.uniform(-2 * math.pi, 2 * math.pi)


def gen_value(rng) -> float:
    return gen_angle(rng) if rng.random() < 0.7 else rng.randint(-40, 40) / DEN


def gen_object(rng) -> Dict[str, Any]:
    return {"pt": gen_value(rng), "eta": gen_value(rng), "phi": gen_angle(rng), "m": gen_value(rng), "trk": rng.random() < 0.5,
            "fattr": {k: rng.randint(-64, 64) / DEN for k in FATTR},
            "vattr": {k: [rng.randint(-64, 64) / DEN for _ in range(rng.choice([0, 1, 2, 3, 5]))] for k in VATTR}}


def gen_num(rng, be: str, d: int = 0) -> str:
    leaves = ["j.pt()", "j.eta()", "j.phi()"] + (["j.m()"] if be == "atlas" else [])
    r = rng.random()
    if r < 0.5:
        return rng.choice(leaves)
    if r < 0.68:
        return rng.choice(ANGLE_CONSTS)
    if r < 0.74:
        return "-" + rng.choice(leaves)
    if r < 0.84:
        a, b = rng.choice(leaves), rng.choice(leaves + ANGLE_CONSTS[:8])
        return rng.choice([f"({a}+{b})", f"({a}-{b})", f"{a}*2", f"{a}-{b}", f"{a}+{b}"])
    if r < 0.9 and be == "atlas":
        return f'j.getAttributeFloat("{rng.choice(FATTR)}")'
    if d < 2:
        return gen_deltar(rng, be, d + 1)
    return rng.choice(leaves)


def gen_deltar(rng, be: str, d: int = 0) -> str:
    r = rng.random()
    if d == 0 and r < 0.3:  # the two objects' coordinates in either order
        a = ["j.eta()", "j.phi()"]
        b = rng.choice([["j.m()", "j.pt()"], ["j.pt()", "j.m()"]]) if be == "atlas" else ["j.pt()", rng.choice(ANGLE_CONSTS)]
        x, y = (a, b) if rng.random() < 0.5 else (b, a)
        return f"DeltaR({x[0]}, {x[1]}, {y[0]}, {y[1]})"
    return "DeltaR(" + ", ".join(gen_num(rng, be, d) for _ in range(4)) + ")"


def gen_col(rng, be: str) -> str:
    r = rng.random()
    if be == "atlas":
        if r < 0.72:
            return gen_deltar(rng, be)
        if r < 0.82:
            return f'j.getAttributeFloat("{rng.choice(FATTR)}")'
        return f'j.getAttributeVectorFloat("{rng.choice(VATTR)}").{rng.choice(["Count", "Sum"])}()'
    return gen_deltar(rng, be) if r < 0.7 else "isNonnull(j.globalTrack())"


def gen_bquery(rng, be: str) -> Dict[str, Any]:
    return {"kind": "bquery", "backend": be, "cols": [gen_col(rng, be) for _ in range(rng.choice([1, 2, 2, 3]))],
            "objects": [gen_object(rng) for _ in range(rng.choice([6, 8, 10]))]}


def builtin_cases(rng, tables: Dict[str, List[List[Any]]]) -> List[Dict[str, Any]]:
    """every distinct built-in once (the back end named is the first that has it)"""
    out, seen = [], set()
    for be in impl.BACKENDS:
        for k, h in tables[be]:
            u = unit_of(h)
            sig = json.dumps(u, sort_keys=True)
            if u is None or (k, sig) in seen:
                continue
            seen.add((k, sig))
            if k == "DeltaR" and len(u["args"]) == 4 and u["recv"] is None and not u["coll"]:
                for k1 in range(-2 * H, 2 * H + 1):
                    for k2 in range(-2 * H, 2 * H + 1):
                        e1, e2 = rng.randint(-24, 24), rng.randint(-24, 24)
                        if rng.random() < 0.3:
                            e2 = e1
                        out.append({"kind": "builtin", "backend": be, "f": k, "h": H, "den": DEN, "e1": e1, "k1": k1, "e2": e2, "k2": k2})
            elif k in ("getAttributeFloat", "getAttributeVectorFloat") and len(u["args"]) == 1 and u["recv"]:
                for _ in range(12):
                    o = gen_object(rng)
                    out.append({"kind": "builtin", "backend": be, "f": k, "object": {"fattr": o["fattr"], "vattr": o["vattr"]},
                                "name": rng.choice(VATTR if u["coll"] else FATTR)})
            elif k == "isNonnull" and len(u["args"]) == 1:
                for t in (True, False):
                    out.append({"kind": "builtin", "backend": be, "f": k, "object": {"trk": t}})
    return out


# ------------------------------------------------------------------------------------------------ one compile

def loop_body(text: str, marker: str) -> Tuple[str, List[str], List[str]]:
    lines = [l.strip() for l in text[text.index(marker):].split("\n") if l.strip()]
    k = next(i for i, l in enumerate(lines) if impl.FOR_RE.match(l) and lines[i + 1] == "{")
    var = impl.FOR_RE.match(lines[k]).group(1)
    depth, out, i = 0, [], k + 1
    while True:
        l = lines[i]
        depth += 1 if l == "{" else -1 if l == "}" else 0
        out.append(l)
        i += 1
        if depth == 0:
            break
    out = [l for l in out if "->Fill()" not in l]
    cols = [m.group(1) for l in out for m in [re.match(r"^(_col\w*) = ", l)] if m]
    return var, out, cols


def select_src(case: Dict[str, Any]) -> str:
    c = case["cols"]
    return "lambda j: " + (c[0] if len(c) == 1 else "(" + ", ".join(c) + ")")


class Program:
    """the translation unit for a list of cases"""

    def __init__(self, tables: Dict[str, List[List[Any]]]):
        self.tables = tables
        self.units: Dict[str, Tuple[str, str, Dict[str, Any]]] = {}  # signature -> (function name, built-in, unit)
        self.includes: List[str] = []
        self.stmts: List[str] = []  # statements of main(), each prints one line "<id> ..."
        self.funcs: List[str] = []
        self.grids: Dict[str, List[Tuple[int, Dict[str, Any]]]] = {}
        self.pre: Dict[int, Any] = {}  # case index -> outcome decided without running (translation refused ...)

    def unit_for(self, be: str, f: str, call: bool = True) -> Optional[Tuple[str, Dict[str, Any]]]:
        """the include files of the built-in join the program; with `call` also a function holding its code"""
        h = dict((k, v) for k, v in self.tables[be]).get(f)
        u = unit_of(h)
        if u is None:
            return None
        for inc in u["includes"]:
            if inc not in self.includes:
                self.includes.append(inc)
        if not call:
            return None
        if f not in CALL_TYPES or len(CALL_TYPES[f]) != len(u["args"]) + (1 if u["recv"] else 0):
            return None
        sig = json.dumps([f, u], sort_keys=True)
        if sig not in self.units:
            self.units[sig] = (f"bi_{len(self.units)}", f, u)
        return self.units[sig][0], u

    def add(self, i: int, case: Dict[str, Any]):
        if case["kind"] == "builtin":
            got = self.unit_for(case["backend"], case["f"])
            if got is None:
                self.pre[i] = {"err": f"no built-in {case['f']} on {case['backend']} with the documented signature"}
                return
            fn, u = got
            if case["f"] == "DeltaR":
                self.grids.setdefault(fn, []).append((i, case))
            elif case["f"] == "isNonnull":
                self.stmts.append(f'std::printf("{i}"); show((double){fn}(TrkRef{{{"true" if case["object"]["trk"] else "false"}}})); std::printf("\\n");')
            else:
                self.funcs.append(f"static Obj o_{i} = {obj_cpp(case['object'])};\n")
                self.stmts.append(f'std::printf("{i}"); show({fn}((const Obj *)&o_{i}, "{case["name"]}")); std::printf("\\n");')
        else:
            for s in set(re.findall(r"\b(DeltaR|getAttributeFloat|getAttributeVectorFloat|isNonnull)\b", " ".join(case["cols"]))):
                self.unit_for(case["backend"], s, call=False)  # their include files
            r = impl.translate_query(case["backend"], [], select_src(case))
            if "text" not in r:
                self.pre[i] = {"err": r["err"], "msg": r.get("msg", "")}
                return
            try:
                var, body, cols = loop_body(r["text"], r["marker"])
            except Exception as e:  # noqa
                self.pre[i] = {"unparsed": f"{type(e).__name__}: {e}"}
                return
            if len(cols) != len(case["cols"]):
                self.pre[i] = {"unparsed": f"{len(cols)} column assignments for {len(case['cols'])} columns", "body": body}
                return
            ptr = re.search(r"\b%s->" % re.escape(var), " ".join(body)) is not None
            bind = f"Obj *{var} = &objs[oi_];" if ptr else f"Obj &{var} = objs[oi_];"
            decl = "".join(f"    double {c} = 0;\n" for c in cols)
            pr = "".join(f"    show((double){c});\n" for c in cols)
            objs = ",\n    ".join(obj_cpp(o) for o in case["objects"])
            self.funcs.append(
                f"void case_{i}() {{\n  static Obj objs[] = {{\n    {objs}\n  }};\n  for (int oi_ = 0; oi_ < {len(case['objects'])}; ++oi_) {{\n"
                f"    {bind} (void){var};\n{decl}" + "\n".join("    " + l for l in body) + f'\n    std::printf("{i} %d", oi_);\n{pr}    std::printf("\\n");\n  }}\n}}\n')
            self.stmts.append(f"case_{i}();")
            self.pre[i] = {"body": body}

    def source(self, only_units: bool = False) -> str:
        src = MOCKS + "".join(f'#include "{inc}"\n' for inc in self.includes)
        src += "".join(unit_cpp(fn, f, u) for fn, f, u in self.units.values())
        if only_units:
            return src + "int main() { return 0; }\n"
        src += "".join(self.funcs)
        for fn, pts in self.grids.items():  # the arguments are computed as builtin_args does: e/den, (k*pi)/h
            rows = ",\n  ".join("{%d, %d, %d, %d, %d, %d, %d}" % (i, c["den"], c["h"], c["e1"], c["k1"], c["e2"], c["k2"]) for i, c in pts)
            src += f"static const int grid_{fn}[][7] = {{\n  {rows}\n}};\n"
            self.stmts.append(f'for (int g_ = 0; g_ < {len(pts)}; ++g_) {{ const int *p_ = grid_{fn}[g_]; std::printf("%d", p_[0]); '
                              f"show((double){fn}((double)p_[3] / (double)p_[1], (double)p_[4] * {hx(math.pi)} / (double)p_[2], "
                              f"(double)p_[5] / (double)p_[1], (double)p_[6] * {hx(math.pi)} / (double)p_[2])); std::printf(\"\\n\"); }}")
        if "TVector2.h" in self.includes:  # the stand-in itself, on the grid (tied to Lean's Angle.phiMpiPi)
            self.stmts.append(f'for (int k_ = {-4 * H}; k_ <= {4 * H}; ++k_) {{ std::printf("S %d", k_); '
                              f"show(TVector2::Phi_mpi_pi(k_ * {hx(math.pi)} / {H})); std::printf(\"\\n\"); }}")
        src += "int main() {\n  try {\n" + "".join("    " + s + "\n" for s in self.stmts) + '  } catch (const std::exception &e) { std::printf("\\nEXC %s\\n", e.what()); return 3; }\n  return 0;\n}\n'
        return src


def gxx(src: str, d: Path, run: bool = True) -> Tuple[bool, str, str]:
    for name, text in STANDINS.items():
        (d / name).write_text(text)
    (d / "t.cpp").write_text(src)
    p = subprocess.run(["g++", "-std=c++17", "-O0", "-w", "-I", str(d), "-o", str(d / "t"), str(d / "t.cpp")], capture_output=True, text=True, timeout=600)
    if p.returncode != 0:
        return False, "", p.stderr
    if not run:
        return True, "", ""
    r = subprocess.run([str(d / "t")], capture_output=True, text=True, timeout=300)
    return True, r.stdout, ("" if r.returncode == 0 else f"exit {r.returncode}")


def first_error(err: str) -> str:
    ls = [l for l in err.splitlines() if "error" in l]
    return (ls[0] if ls else err[-300:])[-400:]


def evaluate(ctx, tables, cases: List[Dict[str, Any]]) -> List[Tuple[Dict[str, Any], Any, Optional[str]]]:
    """-> per case (case, observed, why the Spec fails | None).  Broken machinery (the built-in code does not compile
    against the stand-ins, the stand-in disagrees with the Lean model) is recorded in ctx.broken / raised."""
    prog = Program(tables)
    for i, c in enumerate(cases):
        prog.add(i, c)
    d = Path(tempfile.mkdtemp(prefix="c11b_"))
    vals: Dict[int, List[List[float]]] = {}
    standin: Dict[int, float] = {}
    nocompile: Dict[int, str] = {}
    try:
        ok, out, err = gxx(prog.source(), d)
        if not ok:
            oku, _, erru = gxx(prog.source(only_units=True), d, run=False)
            if not oku:
                ctx.broken.append({"kind": "builtin-code-does-not-compile", "detail": "the code lines of a built-in injected function, wrapped as the "
                                   "translator injects them, do not compile with their own include files against the stand-in headers",
                                   "units": {f: u for _, f, u in prog.units.values()}, "g++": first_error(erru)})
                return [(c, {"err": "not compiled"}, None) for c in cases]
            out, err = "", ""  # `err` was g++'s diagnostics of the whole program; from here on it means "a RUN failed"
            for i, c in enumerate(cases):  # which case is it
                if c["kind"] != "bquery" or "body" not in prog.pre.get(i, {}):
                    continue
                p1 = Program(tables)
                p1.add(i, c)
                ok1, out1, err1 = gxx(p1.source(), d)
                if ok1:
                    out += out1
                    err = err or err1
                else:
                    nocompile[i] = first_error(err1)
            rest = [i for i, c in enumerate(cases) if c["kind"] == "builtin"]
            if rest:
                p2 = Program(tables)
                for i in rest:
                    p2.add(i, cases[i])
                ok2, out2, err2 = gxx(p2.source(), d)
                if not ok2:
                    raise vlib.InternalError("C11 builtin_exec: the driver program does not compile: " + first_error(err2))
                out += out2
                err = err or err2
        if err and "EXC" not in out:
            raise vlib.InternalError("C11 builtin_exec: compiled program failed: " + err)
    finally:
        shutil.rmtree(d, ignore_errors=True)
    exc = None
    for l in out.splitlines():
        t = l.split()
        if not t:
            continue
        if t[0] == "EXC":
            exc = l
        elif t[0] == "S":
            standin[int(t[1])] = float(t[2])
        else:
            vals.setdefault(int(t[0]), []).append([float(x) for x in t[1:]])
    if exc is not None:
        raise vlib.InternalError("C11 builtin_exec: the compiled program threw: " + exc)
    # ---- the Lean driver: the grid Spec on what the code printed; the stand-in against the model
    reqs, owner = [], []
    for k, v in sorted(standin.items()):
        reqs.append({"op": "wrapgrid", "h": H, "k": k, "obs": v})
        owner.append(("S", k))
    for i, c in enumerate(cases):
        if c["kind"] == "builtin" and c["f"] == "DeltaR" and i in vals and math.isfinite(vals[i][0][0]):
            reqs.append({"op": "deltar", "h": c["h"], "den": c["den"], "e1": c["e1"], "k1": c["k1"], "e2": c["e2"], "k2": c["k2"], "obs": vals[i][0][0]})
            owner.append(("D", i))
    ans = ctx.driver("FaxVerif/C11/Driver.lean", reqs)
    verdict: Dict[int, Dict[str, Any]] = {}
    for (kind, i), a in zip(owner, ans):
        if "bad" in a:
            continue
        if kind == "S" and not a["holds"]:
            raise vlib.InternalError(f"C11 builtin_exec: the stand-in TVector2::Phi_mpi_pi({i}*pi/{H}) = {standin[i]} is not the model's wrap ({a['w']}*pi/{H})")
        if kind == "D":
            verdict[i] = a
    res = []
    for i, c in enumerate(cases):
        pre = prog.pre.get(i, {})
        if c["kind"] == "builtin":
            if "err" in pre:
                res.append((c, pre, pre["err"]))
            elif i not in vals:
                res.append((c, {"err": "no output"}, None))
            elif c["f"] == "DeltaR":
                v = vals[i][0][0]
                a1 = builtin_args(c)
                want = math.hypot(a1[0] - a1[2], wrap_angle(a1[1] - a1[3]))
                obs = {"value": v, "called_with": dict(zip(["eta1", "phi1", "eta2", "phi2"], a1)), "expected": want}
                why = None
                if not math.isfinite(v):
                    why = f"the built-in DeltaR computes {v} for {obs['called_with']}"
                elif i in verdict and not verdict[i]["holds"]:
                    why = (f"the supplied code of the built-in DeltaR computes {v!r} for (eta1, phi1, eta2, phi2) = ({c['e1']}/{c['den']}, {c['k1']}π/{c['h']}, "
                           f"{c['e2']}/{c['den']}, {c['k2']}π/{c['h']}); the distance with the azimuth difference taken on the circle is {want!r} "
                           f"(phi1-phi2 = {c['k1'] - c['k2']}π/{c['h']} wraps to {verdict[i]['w']}π/{c['h']})")
                res.append((c, obs, why))
            elif c["f"] == "isNonnull":
                v, want = vals[i][0][0], (1.0 if c["object"]["trk"] else 0.0)
                res.append((c, {"value": v, "expected": want}, None if v == want else
                            f"the supplied code of the built-in isNonnull gives {v} for a reference that is {'non-' if want else ''}null"))
            else:
                row = vals[i][0]
                if c["f"] == "getAttributeVectorFloat":
                    want, got = [float(x) for x in c["object"]["vattr"][c["name"]]], row[1:]
                    okv = int(row[0]) == len(want) and all(close(a, b) for a, b in zip(got, want))
                else:
                    want, got = float(c["object"]["fattr"][c["name"]]), row[0]
                    okv = close(got, want)
                res.append((c, {"value": got, "expected": want}, None if okv else
                            f"the supplied code of the built-in {c['f']} gives {got} for the attribute '{c['name']}' whose value is {want}"))
            continue
        # ---- bquery
        if "err" in pre:
            res.append((c, pre, f"a query over the built-ins with the documented arity and call style is refused: {pre['err']}: {pre.get('msg', '')}"))
        elif "unparsed" in pre:
            res.append((c, pre, "the generated loop body could not be read: " + pre["unparsed"]))
        elif i in nocompile:
            res.append((c, {"body": pre["body"], "g++": nocompile[i]}, "the generated loop body does not compile against the mock objects: " + nocompile[i]))
        elif i not in vals:
            res.append((c, {"err": "no output"}, None))
        else:
            why, rows = None, []
            for row in vals[i]:
                oi, got = int(row[0]), row[1:]
                try:
                    want = [float(meaning(s, c["objects"][oi])) for s in c["cols"]]
                except NoMeaning as e:
                    raise vlib.InternalError(f"C11 builtin_exec: no meaning for a generated column: {e}")
                rows.append({"object": oi, "values": got, "expected": want})
                for ci, (g, w) in enumerate(zip(got, want)):
                    if why is None and not close(g, w):
                        why = (f"column {ci} `{c['cols'][ci]}` evaluates to {g!r} on object {oi} {_short(c['objects'][oi])}; "
                               f"the query means {w!r}")
                        rows[-1]["failing_column"] = ci
            res.append((c, {"body": pre["body"], "rows": rows}, why))
    return res


def _short(o: Dict[str, Any]) -> str:
    return "{" + ", ".join(f"{k}={o[k]!r}" for k in ("pt", "eta", "phi", "m", "trk") if k in o) + "}"


# ------------------------------------------------------------------------------------------------ shrink / run / replay

def shrink(ctx, tables, case: Dict[str, Any], obs: Any) -> Dict[str, Any]:
    """a failing bquery case reduced to its failing column and object, then to failing sub-calls"""
    if case["kind"] != "bquery" or not isinstance(obs, dict) or "rows" not in obs:
        return case
    row = next((r for r in obs["rows"] if "failing_column" in r), None)
    if row is None:
        return case

    def fails(c) -> bool:
        try:
            return evaluate(ctx, tables, [c])[0][2] is not None
        except Exception:
            return False

    best = case
    col, o = case["cols"][row["failing_column"]], case["objects"][row["object"]]
    if "getAttribute" not in col:
        o = {k: v for k, v in o.items() if k not in ("fattr", "vattr")}
    if "globalTrack" not in col:
        o = {k: v for k, v in o.items() if k != "trk"}
    small = {**case, "cols": [col], "objects": [o]}
    if fails(small):
        best = small
        changed = True
        while changed:
            changed = False
            tree = ast.parse(best["cols"][0], mode="eval").body
            for sub in ast.walk(tree):
                if sub is not tree and isinstance(sub, ast.Call) and isinstance(sub.func, ast.Name) and sub.func.id == "DeltaR":
                    cand = {**best, "cols": [ast.unparse(sub)]}
                    if fails(cand):
                        best, changed = cand, True
                        break
    return best


def run(ctx, tables, n_queries: int, backends: Optional[List[str]] = None, extra: Optional[List[Dict[str, Any]]] = None):
    rng = ctx.rng
    backends = list(impl.BACKENDS) if backends is None else backends
    cases = list(extra or []) + builtin_cases(rng, {be: (tables[be] if be in backends else []) for be in impl.BACKENDS})
    pool = [be for be in ["atlas"] * 6 + ["cms_aod", "cms_miniaod"] * 2 if be in backends]
    for _ in range(n_queries if pool else 0):
        cases.append(gen_bquery(rng, rng.choice(pool)))
    # one translation unit for the built-ins and the first queries, further queries 100 at a time
    fixed = [c for c in cases if c["kind"] == "builtin"]
    qs = [c for c in cases if c["kind"] == "bquery"]
    res = evaluate(ctx, tables, fixed + qs[:60])
    for i in range(60, len(qs), 100):
        ctx.check_time()
        res += evaluate(ctx, tables, qs[i:i + 100])
    failing = []
    for c, obs, why in res:
        if c["kind"] == "builtin":
            ctx.count("builtin:" + c["f"])
            if c["f"] == "DeltaR":
                d = c["k1"] - c["k2"]
                ctx.count("builtin:DeltaR:" + ("phi1-phi2 below -pi" if d < -c["h"] else "phi1-phi2 above +pi" if d > c["h"] else
                                               "phi1-phi2 at the seam" if abs(d) == c["h"] else "phi1-phi2 inside (-pi, pi)"))
            ctx.case(key_of(c), True, None)
        else:
            ctx.count("bquery:" + c["backend"])
            ctx.count("bquery:" + ("translated" if isinstance(obs, dict) and "rows" in obs else "not-run"))
            for s in c["cols"]:
                ctx.count("bquery:column:" + ("DeltaR" if s.startswith("DeltaR") else re.sub(r"\(.*", "", s.replace("j.", ""))))
                ctx.count("bquery:DeltaR-nesting:%d" % min(s.count("DeltaR("), 4))
            if isinstance(obs, dict) and "rows" in obs:
                ctx.count("bquery:rows", len(obs["rows"]))
            ctx.case(key_of(c), True, {"case": {**c, "objects": c["objects"][:2]}, "implementation": {"rows": (obs.get("rows") or [])[:2]} if isinstance(obs, dict) else obs})
        if why is not None:
            failing.append((c, obs, why))
    if not failing:
        return
    # the simplest failing grid point first (azimuths inside [-pi, pi], equal pseudorapidities), then the first failing
    # query reduced to its failing column / object / sub-call, then the rest
    grid = [x for x in failing if x[0]["kind"] == "builtin" and "k1" in x[0]]
    grid.sort(key=lambda x: (sum(1 for k in (x[0]["k1"], x[0]["k2"]) if abs(k) > x[0]["h"]), abs(x[0]["e1"] - x[0]["e2"]) != 0,
                             abs((x[0]["k1"] - x[0]["k2"] + x[0]["h"]) % (2 * x[0]["h"]) - x[0]["h"]),
                             abs(x[0]["k1"]) + abs(x[0]["k2"]), abs(x[0]["e1"]) + abs(x[0]["e2"])))
    first: List[Tuple[Dict[str, Any], Any, Optional[str]]] = []
    if grid and not ctx.violations:
        c, obs, why = grid[0]
        again = evaluate(ctx, tables, [{**c, "e1": 0, "e2": 0}])[0]
        first.append(again if again[2] is not None else grid[0])
    bq = [x for x in failing if x[0]["kind"] == "bquery"]
    if bq and not ctx.violations:
        c, obs, why = bq[0]
        small = shrink(ctx, tables, c, obs)
        again = evaluate(ctx, tables, [small])[0] if small is not c else bq[0]
        first.append(again if again[2] is not None else bq[0])
    done = set()
    for c, obs, why in first + [x for x in failing if x[0]["kind"] == "builtin" and "k1" not in x[0]] + grid[:3] + bq[:3]:
        if key_of(c) not in done:
            done.add(key_of(c))
            ctx.violation(key=key_of(c), what=why, case=c, observed=_brief(obs), how=HOW[c["kind"]])


def _brief(o: Any) -> Any:
    s = json.dumps(o, default=str)
    return o if len(s) < 4000 else s[:4000] + "…"


def replay(ctx, tables, case: Dict[str, Any]) -> int:
    c, obs, why = evaluate(ctx, tables, [case])[0]
    if case["kind"] == "bquery":
        print("select:", select_src(case))
    print("implementation:", json.dumps(obs, default=str)[:6000])
    for b in ctx.broken:
        print("broken:", json.dumps(b, default=str)[:3000])
    print("spec:", "HOLDS" if why is None and not ctx.broken else "FAILS: " + str(why))
    return 0 if why is None and not ctx.broken else 1
