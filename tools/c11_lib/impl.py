"""C11 — running the REAL code of /repo (or $VERIF_REPO) in-process and turning what it returns
into the JSON shapes the Lean driver understands.  Nothing here predicts behaviour."""
from __future__ import annotations

import ast
import contextlib
import io
import logging
import re
import tempfile
from pathlib import Path
from typing import Any, Dict, List, Optional, Tuple


@contextlib.contextmanager
def quiet():
    logging.disable(logging.CRITICAL)
    try:
        with contextlib.redirect_stdout(io.StringIO()), contextlib.redirect_stderr(io.StringIO()):
            yield
    finally:
        logging.disable(logging.NOTSET)


# ------------------------------------------------------------------ unit level

def replace_whole_words(line: str, repl: List[List[str]]) -> Dict[str, Any]:
    from func_adl_xAOD.common.cpp_ast import _replace_whole_words

    try:
        return {"ok": _replace_whole_words(line, [(a, b) for a, b in repl])}
    except Exception as e:  # noqa
        return {"err": type(e).__name__}


def word_classes(texts: List[str]) -> Tuple[str, str]:
    """For the non-ASCII characters of a case: which ones Python's `re` classes as \\w and which ones may
    occur inside an identifier (asked of Python itself, character by character)."""
    chars = sorted({c for t in texts for c in t if ord(c) >= 128})
    re_w = "".join(c for c in chars if re.fullmatch(r"\w", c))
    id_w = "".join(c for c in chars if ("a" + c).isidentifier())
    return re_w, id_w


def mk_spec(s: Dict[str, Any]):
    from func_adl_xAOD.common.cpp_ast import CPPCodeSpecification
    from func_adl_xAOD.common.cpp_types import parse_type

    return CPPCodeSpecification(
        s["name"], list(s["includes"]), list(s["args"]), list(s["code"]), s["result"], parse_type(s["retType"]),
        bool(s["isCollection"]), s.get("methodObject"), instance_object_of(s),
    )


def instance_object_of(s: Dict[str, Any]) -> Optional[str]:
    """The optional key `instance_object` of a specification.  Cases written before the key was varied do not carry
    it: they keep what the harness always did then (present exactly when `method_object` is)."""
    if "instanceObject" in s:
        return s["instanceObject"]
    return "xAOD::Jet_v1" if s.get("methodObject") else None


def cv_json(cv) -> Dict[str, Any]:
    """Observable content of a CPPCodeValue."""
    import func_adl_xAOD.common.cpp_vars as cpp_vars
    from func_adl_xAOD.common.cpp_representation import cpp_collection
    from func_adl_xAOD.common.generated_code import generated_code

    idx = cpp_vars.unique_var_index
    rep = cv.result_rep(generated_code().current_scope())
    name = rep.as_cpp()
    suffix = str(idx)
    prefix = name[: -len(suffix)] if name.endswith(suffix) else name
    is_coll = isinstance(rep, cpp_collection)
    t = rep.cpp_type()
    ret = str(t.element_type) if is_coll else str(t)
    decl = str(t)
    inst = cv.replacement_instance_obj
    return {
        "varPrefix": prefix, "includes": list(cv.include_files), "args": list(cv.args), "code": list(cv.running_code),
        "result": cv.result, "retType": ret, "isCollection": is_coll, "declType": decl,
        "instance": [inst[0], inst[1]] if inst is not None else None,
    }


def to_ast(e: Dict[str, Any]) -> ast.AST:
    if "name" in e:
        return ast.Name(id=e["name"], ctx=ast.Load())
    if "const" in e:
        return ast.Constant(value=ast.literal_eval(e["const"]))
    if "attr" in e:
        return ast.Attribute(value=to_ast(e["attr"][0]), attr=e["attr"][1], ctx=ast.Load())
    if "call" in e:
        return ast.Call(func=to_ast(e["call"][0]), args=[to_ast(a) for a in e["call"][1]], keywords=[])
    if "binop" in e:
        op = {"+": ast.Add(), "*": ast.Mult(), "-": ast.Sub()}[e["binop"][0]]
        return ast.BinOp(left=to_ast(e["binop"][1]), op=op, right=to_ast(e["binop"][2]))
    raise ValueError(e)


def from_ast(n: ast.AST) -> Dict[str, Any]:
    from func_adl_xAOD.common.cpp_ast import CPPCodeValue

    if isinstance(n, ast.Name):
        return {"name": n.id}
    if isinstance(n, ast.Constant):
        return {"const": repr(n.value)}
    if isinstance(n, ast.Attribute):
        return {"attr": [from_ast(n.value), n.attr]}
    if isinstance(n, ast.BinOp):
        op = {ast.Add: "+", ast.Mult: "*", ast.Sub: "-"}[type(n.op)]
        return {"binop": [op, from_ast(n.left), from_ast(n.right)]}
    if isinstance(n, ast.Call):
        if isinstance(n.func, CPPCodeValue):
            return {"cpp": [cv_json(n.func), [from_ast(a) for a in n.args]]}
        return {"call": [from_ast(n.func), [from_ast(a) for a in n.args]]}
    raise ValueError(ast.dump(n))


def build(spec: Dict[str, Any], func: Dict[str, Any], args: List[Dict[str, Any]]) -> Dict[str, Any]:
    from func_adl_xAOD.common.cpp_ast import CPPCodeValue, build_CPPCodeValue

    call = ast.Call(func=to_ast(func), args=[to_ast(a) for a in args], keywords=[])
    try:
        r = build_CPPCodeValue(mk_spec(spec), call)
    except Exception as e:  # noqa
        return {"err": type(e).__name__}
    if not isinstance(r, ast.Call) or not isinstance(r.func, CPPCodeValue):
        return {"err": "not-a-cpp-call"}
    if [ast.dump(a) for a in r.args] != [ast.dump(to_ast(a)) for a in args]:
        return {"err": "arguments-changed"}
    return {"ok": cv_json(r.func)}


def handler_of(h: Any):
    """table entry (JSON) -> the callable the real table would hold"""
    from func_adl_xAOD.common.cpp_ast import build_CPPCodeValue

    if h == "nonnull":
        from func_adl_xAOD.cms.aod.cms_functions import isNonnullAst

        return isNonnullAst
    if h == "refuse":
        from func_adl_xAOD.atlas.xaod.jets import getAttribute

        return getAttribute
    spec = mk_spec(h["spec"])
    return lambda call_node, spec=spec: build_CPPCodeValue(spec, call_node)


def find(table: List[List[Any]], expr: Dict[str, Any]) -> Dict[str, Any]:
    from func_adl_xAOD.common.cpp_ast import cpp_ast_finder

    names: Dict[str, Any] = {}
    for k, h in reversed(table):  # the first entry of the association list wins, as in the model
        names[k] = handler_of(h)
    try:
        r = cpp_ast_finder(names).visit(to_ast(expr))
    except Exception as e:  # noqa
        return {"err": type(e).__name__}
    return {"ok": from_ast(r)}


# ------------------------------------------------------------------ built-in tables (tie T)

def _probe_call(style: str, n: int) -> ast.Call:
    args = [ast.Constant(value=i) for i in range(n)]
    if style == "func":
        return ast.Call(func=ast.Name(id="probe", ctx=ast.Load()), args=args, keywords=[])
    return ast.Call(func=ast.Attribute(value=ast.Name(id="recv", ctx=ast.Load()), attr="probe", ctx=ast.Load()), args=args, keywords=[])


def probe_handler(fn) -> Any:
    """Recover what a table entry does from its behaviour on function-style / method-style calls with 0..6
    arguments.  Returns a handler in driver JSON, or {"unrecognised": text}."""
    from func_adl_xAOD.common.cpp_ast import CPPCodeValue

    accepted, errs = [], set()
    for style in ("func", "meth"):
        for n in range(7):
            try:
                r = fn(_probe_call(style, n))
                if r is None or not isinstance(r.func, CPPCodeValue):
                    return {"unrecognised": "handler returned something that is not a CPPCodeValue call"}
                accepted.append((style, n, cv_json(r.func)))
            except Exception as e:  # noqa
                errs.add(type(e).__name__)
    if not accepted:
        return "refuse" if errs == {"RuntimeError"} else {"unrecognised": f"never accepts; raises {sorted(errs)}"}
    if len(accepted) == 1:
        style, n, cv = accepted[0]
        if len(cv["args"]) != n or (style == "meth") != (cv["instance"] is not None):
            return {"unrecognised": f"accepts {style}/{n} but carries args={cv['args']} instance={cv['instance']}"}
        return {"spec": {"name": cv["varPrefix"], "includes": cv["includes"], "args": cv["args"], "code": cv["code"],
                         "result": cv["result"], "retType": cv["retType"], "isCollection": cv["isCollection"],
                         "methodObject": cv["instance"][0] if cv["instance"] else None}}
    if sorted((s, n) for s, n, _ in accepted) == [("func", 1), ("meth", 1)] and accepted[0][2] == accepted[1][2] and accepted[0][2]["instance"] is None:
        return {"arityonly": accepted[0][2]}
    return {"unrecognised": f"accepts {[(s, n) for s, n, _ in accepted]}"}


BUILTIN_NAMES = ["DeltaR", "getAttribute", "getAttributeFloat", "getAttributeVectorFloat", "isNonnull"]


def builtin_tables() -> Dict[str, List[List[Any]]]:
    """backend -> association list (name, handler JSON) for the built-in injected functions."""
    from func_adl_xAOD.atlas.xaod.jets import get_jet_methods
    from func_adl_xAOD.cms.aod.cms_functions import get_cms_functions as aod_f
    from func_adl_xAOD.cms.miniaod.cms_functions import get_cms_functions as mini_f
    from func_adl_xAOD.common.math_utils import get_math_methods

    src = {
        "atlas": {**get_jet_methods(), **get_math_methods()},
        "cms_aod": {**get_math_methods(), **aod_f()},
        "cms_miniaod": {**get_math_methods(), **mini_f()},
    }
    out: Dict[str, List[List[Any]]] = {}
    for be, d in src.items():
        out[be] = [[k, probe_handler(d[k])] for k in sorted(d)]
    return out


# ------------------------------------------------------------------ full pipeline

_DS = None


def dataset():
    global _DS
    if _DS is None:
        from func_adl import EventDataset

        class DS(EventDataset):
            async def execute_result_async(self, a, title):
                return a

        _DS = DS
    return _DS()


BACKENDS = {
    "atlas": ("func_adl_xAOD.atlas.xaod.executor", "atlas_xaod_executor", "query.cxx", ":: execute", 'e.Jets("J")'),
    "cms_aod": ("func_adl_xAOD.cms.aod.executor", "cms_aod_executor", "Analyzer.cc", "::analyze", 'e.Muons("muons")'),
    "cms_miniaod": ("func_adl_xAOD.cms.miniaod.executor", "cms_miniaod_executor", "Analyzer.cc", "::analyze", 'e.Muons("muons")'),
}


def metadata_of(s: Dict[str, Any]) -> Dict[str, Any]:
    md = {"metadata_type": "add_cpp_function", "name": s["name"], "include_files": list(s["includes"]),
          "arguments": list(s["args"]), "code": list(s["code"]), "result_name": s["result"], "return_type": s["retType"]}
    if s["isCollection"]:
        md["return_is_collection"] = True
    if s.get("methodObject") is not None:
        md["method_object"] = s["methodObject"]
    if instance_object_of(s) is not None:
        md["instance_object"] = instance_object_of(s)
    return md


ELEMENT_TYPE = {"atlas": "xAOD::Jet", "cms_aod": "reco::Muon", "cms_miniaod": "pat::Muon"}


def chain_metadata(backend: str, chain: List[str]) -> List[Dict[str, Any]]:
    """`add_method_type_info` for the methods a receiver chain goes through: each returns a pointer to the element type"""
    ty = ELEMENT_TYPE[backend]
    return [{"metadata_type": "add_method_type_info", "type_string": ty, "method_name": m, "return_type": ty + "*"}
            for m in dict.fromkeys(chain)]


def translate_query(backend: str, specs: List[Dict[str, Any]], select_src: str, second_select: Optional[str] = None,
                    first_stage: Optional[str] = None, recv_chain: Optional[List[str]] = None) -> Dict[str, Any]:
    """Public path only: metadata -> apply_ast_transformations -> write_cpp_files; returns the text of the
    generated source file or the exception class."""
    import importlib

    mod, cls, fname, marker, coll = BACKENDS[backend]
    exe_cls = getattr(importlib.import_module(mod), cls)
    try:
        with quiet():
            q = dataset()
            for s in specs:
                q = q.MetaData(metadata_of(s))
            if recv_chain:
                # the receiver of the call sites is a lambda parameter that stands for `j.m1().m2()…`: the elements of
                # a Select'ed sequence consumed by Aggregate (`select_src` is the two-parameter lambda `acc, j`)
                for md in chain_metadata(backend, recv_chain):
                    q = q.MetaData(md)
                steps = "".join(f".{m}()" for m in recv_chain)
                q = q.Select(f"lambda e: {coll}.Select(lambda j0: j0{steps}).Aggregate(0.0, {select_src})")
                select_src = None
            elif first_stage is not None:
                q = q.Select(first_stage)
            else:
                q = q.SelectMany(f"lambda e: {coll}")
            if select_src is not None:
                q = q.Select(select_src)
            if second_select:
                q = q.Select(second_select)
            a = q.value()
            exe = exe_cls()
            a2 = exe.apply_ast_transformations(a)
            d = tempfile.mkdtemp(prefix="c11_")
            try:
                exe.write_cpp_files(a2, Path(d))
                text = (Path(d) / fname).read_text()
            finally:
                import shutil

                shutil.rmtree(d, ignore_errors=True)
    except Exception as e:  # noqa
        return {"err": type(e).__name__, "msg": str(e)[:200]}
    return {"text": text, "marker": marker}


def registered_table(backend: str, specs: List[Dict[str, Any]], names: List[str]) -> Dict[str, Any]:
    """The `method_names` table `apply_ast_transformations` hands to `cpp_ast_finder` for a query carrying the
    metadata of `specs` (attached in that order), observed at the point of use — the class is wrapped for the duration of
    the call, nothing in /repo is touched — and each entry of interest recovered from the behaviour of its callback on
    probe calls (`probe_handler`).  -> {"ok": [[name, handler JSON | None]..]} | {"err": ..} | {"unobservable": why}"""
    import importlib

    import func_adl_xAOD.common.cpp_ast as cpp_ast

    mod, cls, fname, marker, coll = BACKENDS[backend]
    exe_cls = getattr(importlib.import_module(mod), cls)
    seen: Dict[str, Any] = {}
    orig = cpp_ast.cpp_ast_finder

    class recording_finder(orig):  # type: ignore
        def __init__(self, method_names, *a, **kw):
            seen["table"] = dict(method_names)
            super().__init__(method_names, *a, **kw)

    cpp_ast.cpp_ast_finder = recording_finder
    try:
        with quiet():
            q = dataset()
            for s in specs:
                q = q.MetaData(metadata_of(s))
            a = q.SelectMany(f"lambda e: {coll}").Select("lambda j: j.pt()").value()
            exe_cls().apply_ast_transformations(a)
    except Exception as e:  # noqa
        return {"err": type(e).__name__, "msg": str(e)[:200]}
    finally:
        cpp_ast.cpp_ast_finder = orig
    if "table" not in seen:
        return {"unobservable": "apply_ast_transformations did not construct cpp_ast.cpp_ast_finder through the module attribute"}
    out = []
    with quiet():
        for n in names:
            out.append([n, probe_handler(seen["table"][n]) if n in seen["table"] else None])
    return {"ok": out}


DECL_RE = re.compile(r"^([A-Za-z_][\w:<>,\* ]*?) ([A-Za-z_]\w*)( \((.*)\))?;$")
ASSIGN_RE = re.compile(r"^([A-Za-z_]\w*) = (.+);$")
FOR_RE = re.compile(r"^for \(auto &&(\w+) : (.+)\)$")


def _block(lines: List[str], i: int) -> Tuple[List[Any], int]:
    """lines[i] == '{' ; returns (items, index after the matching '}').  An item is a str (a line),
    ('block', items) or ('for', var, coll, items)."""
    assert lines[i] == "{"
    i += 1
    items: List[Any] = []
    while lines[i] != "}":
        if lines[i] == "{":
            sub, i = _block(lines, i)
            items.append(("block", sub))
        elif FOR_RE.match(lines[i]) and lines[i + 1] == "{":
            m = FOR_RE.match(lines[i])
            sub, i = _block(lines, i + 1)
            items.append(("for", m.group(1), m.group(2), sub))
        elif (lines[i].startswith("if (") or lines[i] == "else") and lines[i + 1] == "{":
            sub, i = _block(lines, i + 1)
            items.append(("other", sub))
        else:
            items.append(lines[i])
            i += 1
    return items, i + 1


def _flat(items: List[Any]) -> List[str]:
    out: List[str] = []
    for it in items:
        if isinstance(it, str):
            out.append(it)
        else:
            out.extend(_flat(it[-1]))
    return out


def parse_body(text: str, marker: str) -> Dict[str, Any]:
    """The body of the innermost-level loop over the event collection, as the observation `PipeSpec` reads:
    declarations without initialiser, plain blocks (template lines + final assignment), column right-hand
    sides, collections iterated by inner loops, include files."""
    includes = re.findall(r'^\s*#include\s+[<"]([^>"]+)[>"]', text, re.M)
    lines = [l.strip() for l in text[text.index(marker):].split("\n")]
    lines = [l for l in lines if l]
    start = next(k for k, l in enumerate(lines) if FOR_RE.match(l) and lines[k + 1] == "{")
    loop_var = FOR_RE.match(lines[start]).group(1)
    items, _ = _block(lines, start + 1)
    decls, blocks, cols, loops, bad, assigns = [], [], [], [], [], []
    seen_stmt = False
    for it in items:
        if isinstance(it, str):
            m = DECL_RE.match(it)
            if not seen_stmt and m and "=" not in it:
                if m.group(3) is None:
                    decls.append([m.group(1), m.group(2)])
                else:
                    decls.append([m.group(1), m.group(2), m.group(4)])
                continue
            seen_stmt = True
            a = ASSIGN_RE.match(it)
            if a and a.group(1).startswith("_col"):
                cols.append(a.group(2))
            elif a:
                assigns.append([a.group(1), a.group(2)])
        elif it[0] == "block":
            seen_stmt = True
            sub = it[1]
            if not sub or not all(isinstance(x, str) for x in sub) or not ASSIGN_RE.match(sub[-1]):
                bad.append("a plain block does not end with the assignment of the result variable: " + repr(sub)[:200])
                continue
            a = ASSIGN_RE.match(sub[-1])
            blocks.append({"lines": sub[:-1], "lhs": a.group(1), "rhs": a.group(2)})
        elif it[0] == "for":
            seen_stmt = True
            loops.append({"var": it[1], "coll": it[2], "body": _flat(it[3])})
        else:
            seen_stmt = True
    return {"loop_var": loop_var, "decls": decls, "blocks": blocks, "cols": cols, "loops": loops,
            "includes": includes, "bad": bad, "assigns": assigns}


def split_sum(rhs: str, acc: str) -> List[str]:
    """`(((acc+t1)+t2)+t3)` -> [t1, t2, t3]: every binary operation the translator writes is bracketed, so the last `+`
    at bracket depth 0 inside the outer brackets separates the last term."""
    parts: List[str] = []
    s = rhs
    while s != acc:
        if not (s.startswith("(") and s.endswith(")")):
            raise ValueError(f"not a bracketed sum over {acc}: {rhs}")
        inner, depth, cut = s[1:-1], 0, -1
        for i, ch in enumerate(inner):
            if ch == "(":
                depth += 1
            elif ch == ")":
                depth -= 1
            elif ch == "+" and depth == 0:
                cut = i
        if cut < 0:
            raise ValueError(f"not a bracketed sum over {acc}: {rhs}")
        parts.append(inner[cut + 1:])
        s = inner[:cut]
    return parts[::-1]


def agg_columns(b: Dict[str, Any]) -> List[str]:
    """the terms added to the accumulator by the loop body of an Aggregate query (see translate_query, recv_chain)"""
    own = [(l, r) for l, r in b["assigns"] if r.lstrip("(").startswith(l + "+")]
    if len(own) != 1:
        raise ValueError(f"expected one accumulator update in the loop body, found {b['assigns']}")
    return split_sum(own[0][1], own[0][0])
