"""C11 — generators.  Every random choice comes from the `rng` handed in (seeded by VERIF_SEED)."""
from __future__ import annotations

import itertools
from typing import Any, Dict, List

METHODS = ["pt", "eta", "phi", "m", "e"]
PARAMS = ["pt", "eta", "phi", "x", "y", "obj", "jet", "k", "val", "pt1", "eta_2", "_pt", "Pt", "i_obj", "m", "e", "a", "b", "ab", "result"]
FUNC_NAMES = ["myf", "calc", "jetFn", "scale_it", "combo", "fX", "vecOf"]
METHOD_OBJECTS = ["obj", "self_", "obj_j", "the_jet", "pt", "x"]
RESULT_NAMES = ["result", "res", "r_out", "result"]
TYPES = ["double", "float", "int", "bool"]
# object types: value, pointer, const pointer (canonical spelling: parse_type / str round trip is the identity)
OBJ_TYPES = ["Trk", "Trk*", "const Trk*", "xAOD::TrackParticle*", "const xAOD::TrackParticle*"]
INCLUDES = ["a.h", "b/c.h", "TVector2.h", "vector", "math.h"]
# non-ASCII characters for which Python's \w and the identifier class agree (both yes: η φ µ é ١ ; both no: € → «)
UNI_WORD = ["η", "φ", "µ", "é", "١"]
UNI_GAP = ["€", "→", "«"]
DESTS = ["i_obj1->eta()", "i_obj1->pt()", "(i_obj1->pt()*2)", "1.0", "myf3", "pt", "eta", "eta + pt", "", "\\1", "\\g<0>",
         "a\\b", "$x", '"str"', "x", "obj", "i_obj1", "jets0.at(0)", "(-(1.5))", "result", "pt pt"]


def decorate(rng, p: str) -> str:
    """a longer word containing the parameter name: must NOT be replaced"""
    return rng.choice([f"my{p}", f"{p}_x", f"{p}2", f"x{p}", f"_{p}", f"{p}_", f"{p}{p}", f"{p}Eta"])


def atom(rng, params: List[str], mo: str | None) -> str:
    r = rng.random()
    if params and r < 0.35:
        return rng.choice(params)
    if params and r < 0.5:
        return decorate(rng, rng.choice(params))
    if mo and r < 0.62:
        return f"{mo}->{rng.choice(METHODS)}()"
    if r < 0.7:
        return rng.choice(["1.0", "2", "0.5f", "42"])
    if r < 0.78:
        return rng.choice(PARAMS)
    if params and r < 0.84:
        return f'"{rng.choice(params)}"'
    if params and r < 0.9:
        return f"{rng.choice(['v', 'p4', 'tmp'])}.{rng.choice(params)}()"
    if params and r < 0.95:
        return f"ns::{rng.choice(params)}"
    return rng.choice(["tmp", "d_eta", "M_PI", "nullptr"])


def expr(rng, params: List[str], mo: str | None, depth: int = 0) -> str:
    if depth > 2 or rng.random() < 0.35:
        return atom(rng, params, mo)
    k = rng.random()
    if k < 0.6:
        op = rng.choice([" + ", "+", " - ", "*", " * ", "/", " < ", "-"])
        return expr(rng, params, mo, depth + 1) + op + expr(rng, params, mo, depth + 1)
    if k < 0.8:
        return f"{rng.choice(['sqrt', 'std::abs', 'fn'])}({expr(rng, params, mo, depth + 1)})"
    return f"({expr(rng, params, mo, depth + 1)})"


def code_lines(rng, params: List[str], mo: str | None, result: str, is_coll: bool, ty: str) -> List[str]:
    lines = []
    for i in range(rng.choice([0, 0, 1, 1, 2])):
        lines.append(f"auto t{i} = {expr(rng, params, mo)}" + rng.choice([";", ";", ""]))
    if is_coll:
        lines.append(f"std::vector<{ty}> {result};")
        lines.append(f"{result}.push_back({expr(rng, params, mo)});")
    else:
        lines.append(f"auto {result} = {expr(rng, params, mo)}" + rng.choice([";", ";", ""]))
    return lines


INSTANCE_OBJECTS = ["xAOD::Jet_v1", "xAOD::Jet_v1", "reco::Muon", "obj"]


def spec(rng, name: str | None = None, allow_coll: bool = True, mo_prob: float = 0.35, min_args: int = 0,
         extra_params: List[str] | None = None) -> Dict[str, Any]:
    n = max(min_args, rng.choice([0, 1, 1, 2, 2, 2, 3, 4]))
    params = rng.sample(PARAMS, n)
    if extra_params and n >= 1 and rng.random() < 0.7:  # a formal named like a word of the receiver's C++ text
        w = rng.choice(extra_params)
        if w not in params:
            params[rng.randrange(n)] = w
    if n >= 2 and rng.random() < 0.04:
        params[1] = params[0]  # duplicate parameter name: the first binding wins
    mo = rng.choice(METHOD_OBJECTS) if rng.random() < mo_prob else None
    # the optional key `instance_object` is documentation: given or not independently of `method_object`
    # (mostly as the documentation has it: together with method_object)
    r = rng.random()
    inst = (rng.choice(INSTANCE_OBJECTS) if r < 0.7 else None) if mo is not None else (rng.choice(INSTANCE_OBJECTS) if r < 0.15 else None)
    is_coll = allow_coll and rng.random() < 0.2
    ty = rng.choice(OBJ_TYPES) if rng.random() < (0.5 if is_coll else 0.08) else rng.choice(TYPES)
    result = rng.choice(RESULT_NAMES)
    return {
        "name": name or rng.choice(FUNC_NAMES), "includes": rng.sample(INCLUDES, rng.choice([0, 1, 1, 2])), "args": params,
        "code": code_lines(rng, params, mo, result, is_coll, ty), "result": result, "retType": ty,
        "isCollection": is_coll, "methodObject": mo, "instanceObject": inst,
    }


# ------------------------------------------------------------------ U1: lines and replacement lists

def subst_case(rng) -> Dict[str, Any]:
    n = rng.choice([1, 1, 2, 2, 2, 3, 4])
    uni = rng.random() < 0.12
    pool = PARAMS + (["η", "φ1", "pté", "µ"] if uni else [])
    params = rng.sample(pool, n)
    mo = rng.choice(METHOD_OBJECTS) if rng.random() < 0.3 else None
    repl = []
    if mo:
        repl.append([mo, rng.choice(["i_obj1", "i_obj7", "(*it)"])])
    for p in params:
        d = rng.choice(DESTS + params + ([rng.choice(UNI_WORD + UNI_GAP)] if uni else []))
        repl.append([p, d])
    if rng.random() < 0.08 and repl:
        repl.append([rng.choice(repl)[0], "SECOND"])
    line = expr(rng, params, mo)
    if rng.random() < 0.5:
        line = f"auto result = {line};"
    if uni:
        cs = list(line)
        for _ in range(rng.choice([1, 2, 3])):
            cs.insert(rng.randrange(len(cs) + 1), rng.choice(UNI_WORD + UNI_GAP))
        line = "".join(cs)
    return {"kind": "subst", "line": line, "repl": repl}


def subst_exhaustive(maxlen: int):
    alpha = ["a", "b", "+", " "]
    repls = [[["a", "b"]], [["a", "b"], ["b", "a"]], [["ab", "a b"]], [["a", "X"], ["ab", "Y"]], [["b", ""], ["a", "bb"]],
             [["a", "b"], ["a", "c"]]]
    for k in range(maxlen + 1):
        for t in itertools.product(alpha, repeat=k):
            line = "".join(t)
            for r in repls:
                yield {"kind": "subst", "line": line, "repl": r}


# ------------------------------------------------------------------ U2: build_CPPCodeValue

def build_case(rng) -> Dict[str, Any]:
    s = spec(rng)
    n = max(0, len(s["args"]) + rng.choice([0] * 10 + [-1, 1, 2]))
    style_ok = rng.random() < 0.88
    meth = (s["methodObject"] is not None) == style_ok
    if meth:
        func = {"attr": [{"name": rng.choice(["j", "jet", "e"])}, s["name"]]}
    else:
        func = {"name": s["name"]}
    if s["methodObject"] is None and rng.random() < 0.05:  # function called on a computed receiver: still "like a method"
        func = {"attr": [{"call": [{"attr": [{"name": "j"}, "other"]}, []]}, s["name"]]}
    args = [rng.choice([{"const": "1"}, {"const": "2.5"}, {"name": "j"}, {"call": [{"attr": [{"name": "j"}, "pt"]}, []]}]) for _ in range(n)]
    return {"kind": "build", "spec": s, "func": func, "args": args}


# ------------------------------------------------------------------ U3: cpp_ast_finder

def find_case(rng) -> Dict[str, Any]:
    names = rng.sample(FUNC_NAMES, rng.choice([1, 2, 3]))
    table: List[List[Any]] = [[n, {"spec": spec(rng, n)}] for n in names]
    if rng.random() < 0.3:
        table.append(["getAttribute", "refuse"])
    if rng.random() < 0.3:
        table.append(["isNonnull", "nonnull"])
    if rng.random() < 0.1:  # a name bound twice: the first entry is the one in force
        table.append([names[0], {"spec": spec(rng, names[0])}])
    keys = [k for k, _ in table]
    specs = {k: h for k, h in reversed(table)}
    budget = [rng.choice([1, 2, 3, 4, 6])]
    correct = rng.random() < 0.75   # most trees only contain acceptable call sites
    plain = rng.random() < 0.9      # most trees keep receivers of table names plain

    def leaf():
        return rng.choice([{"name": "j"}, {"name": "e"}, {"const": "1"}, {"const": "2.5"},
                           {"call": [{"attr": [{"name": "j"}, rng.choice(METHODS)]}, []]}, {"attr": [{"name": "j"}, "x"]}])

    def tree(d: int):
        if d > 3 or budget[0] <= 0 or rng.random() < 0.25:
            return leaf()
        r = rng.random()
        if r < 0.65:
            budget[0] -= 1
            k = rng.choice(keys)
            h = specs[k]
            if h == "refuse":
                ar, meth = 1, True
                if correct:
                    return leaf()
            elif h == "nonnull":
                ar, meth = 1, False
            else:
                ar, meth = len(h["spec"]["args"]), h["spec"]["methodObject"] is not None
            if not correct:
                if rng.random() < 0.5:
                    ar = max(0, ar + rng.choice([-1, 1]))
                elif h != "nonnull":
                    meth = not meth
            args = [tree(d + 1) for _ in range(ar)]
            if meth:
                recv = {"name": rng.choice(["j", "jet"])}
                if not plain and rng.random() < 0.5:
                    recv = rng.choice([{"call": [{"name": "First"}, [{"name": "js"}]]}, {"attr": [{"name": "t"}, "jet"]}, tree(d + 1)])
                return {"call": [{"attr": [recv, k]}, args]}
            return {"call": [{"name": k}, args]}
        if r < 0.8:
            return {"binop": [rng.choice(["+", "*", "-"]), tree(d + 1), tree(d + 1)]}
        if r < 0.9:
            return {"call": [{"name": rng.choice(["sqrt", "other"])}, [tree(d + 1)]]}
        return {"call": [{"attr": [tree(d + 1), rng.choice(METHODS + ["at"])]}, []]}

    return {"kind": "find", "table": table, "expr": tree(0)}


# ------------------------------------------------------------------ P: queries through the whole pipeline

ATLAS_LEAVES = ["j.pt()", "j.eta()", "j.phi()", "j.m()", "1.0", "2", "-1.5", "j.pt()*2", "(j.pt()+j.eta())", "j"]
CMS_LEAVES = ["j.pt()", "j.eta()", "j.phi()", "1.0", "2", "j.globalTrack()", "j"]


def query_case(rng, backend: str, builtins: List[List[Any]]) -> Dict[str, Any]:
    """specs + a tuple of columns, each a tree of injected calls (nested to depth 3, repeated) over leaves."""
    leaves = ATLAS_LEAVES if backend == "atlas" else CMS_LEAVES
    names = rng.sample(FUNC_NAMES, rng.choice([1, 1, 2, 2, 3]))
    specs = [spec(rng, n) for n in names]
    if rng.random() < 0.05:
        specs.append(spec(rng, names[0]))  # same name twice: the metadata attached first is in force
    bnames = [k for k, h in builtins if h != "refuse" and isinstance(h, (dict, str))]
    if rng.random() < 0.04 and "DeltaR" in bnames:
        specs.append(spec(rng, "DeltaR"))  # metadata overrides a built-in
    table: Dict[str, Any] = {k: h for k, h in builtins}
    for s in reversed(specs):  # the specification attached first is the one in force
        table[s["name"]] = {"spec": s}
    usable = [k for k, h in table.items() if h != "refuse"]
    wrong = rng.random() < 0.12
    wrong_left = [1 if wrong else 0]
    budget = [rng.choice([1, 2, 2, 3, 4, 6])]

    def leaf(for_param: str | None = None):
        return {"leaf": rng.choice(leaves)}

    def call(d: int, k: str | None = None):
        budget[0] -= 1
        k = k or rng.choice(usable if rng.random() < 0.75 else [s["name"] for s in specs])
        h = table[k]
        if h == "nonnull" or (isinstance(h, dict) and "arityonly" in h):
            ar, meth, strarg = 1, False, False
        else:
            sp = h["spec"]
            ar, meth = len(sp["args"]), sp["methodObject"] is not None
            strarg = k.startswith("getAttribute")
        style = "meth" if meth else "func"
        if wrong_left[0] and rng.random() < 0.6:
            wrong_left[0] = 0
            if rng.random() < 0.5 or h == "nonnull" or (isinstance(h, dict) and "arityonly" in h):
                ar = max(0, ar + rng.choice([-1, 1])) if ar > 0 else 1
            else:
                style = "func" if meth else "meth"
        args = []
        for _ in range(ar):
            if strarg:
                args.append({"str": rng.choice(["emf", "Width", "pt", "moment_name"])})
            elif d < 3 and budget[0] > 0 and rng.random() < 0.35:
                args.append(call(d + 1))
            else:
                args.append(leaf())
        return {"f": k, "style": style, "args": args}

    ncols = rng.choice([1, 1, 2, 2, 3])
    cols = [call(0) for _ in range(ncols)]
    for c in cols:  # how a collection of objects is consumed: counted, or its elements' pt() summed (element access . or ->)
        c["wrap"] = rng.choice(["count", "sum"])
    if rng.random() < 0.15 and cols:
        cols.append(cols[0])  # the same call text twice: two call sites, two blocks, two variables
    if wrong_left[0]:
        wrong = False
    if rng.random() < 0.03:  # a function whose name is also a method of the objects: name-keyed discovery
        victim = rng.choice(METHODS[:3])
        s = spec(rng, victim)
        s["methodObject"] = None
        specs.append(s)
        users = [x for x in specs if x["name"] != victim and x["methodObject"] is None and len(x["args"]) >= 1]
        if users and table.get(users[0]["name"]) == {"spec": users[0]}:
            u = users[0]
            cols.append({"f": u["name"], "style": "func",
                         "args": [{"leaf": f"j.{victim}()"}] + [{"leaf": "1.0"} for _ in u["args"][1:]]})
    return {"kind": "query", "backend": backend, "specs": specs, "cols": cols}
