"""C11, thorough tier — executed-artefact oracle.

Executable specifications (C++ arithmetic over the parameters, whose names overlap the jet's method names
so that any capture changes the value) are attached through metadata, translated by the real pipeline, the loop
body of the generated query.cxx is compiled with g++ against a four-method mock jet, run, and every column is
compared with the meaning of the function applied to the meaning of its arguments (computed here on the same
expression trees; +,-,* on small dyadic numbers: exact)."""
from __future__ import annotations

import json
import re
import shutil
import subprocess
import tempfile
from pathlib import Path
from typing import Any, Dict, List, Tuple

from c11_lib import impl

JET = {"pt": 3.0, "eta": -2.0, "phi": 0.5, "m": 7.0}
NAMES = ["pt", "eta", "phi", "m", "x", "y", "pt2", "k"]
FUNCS = ["calcA", "calcB", "mixC"]


def gen_expr(rng, vars_: List[str], mo: str | None, d: int = 0):
    r = rng.random()
    if d > 2 or r < 0.3:
        k = rng.random()
        if vars_ and k < 0.6:
            return ("var", rng.choice(vars_))
        if mo and k < 0.8:
            return ("meth", mo, rng.choice(list(JET)))
        return ("num", rng.choice([1, 2, 3, 0.5, 4]))
    return ("op", rng.choice(["+", "-", "*"]), gen_expr(rng, vars_, mo, d + 1), gen_expr(rng, vars_, mo, d + 1))


def cpp(e) -> str:
    if e[0] == "var":
        return e[1]
    if e[0] == "num":
        return repr(e[1]) if isinstance(e[1], float) else str(e[1])
    if e[0] == "meth":
        return f"{e[1]}->{e[2]}()"
    sp = " " if e[1] != "*" else ""
    return f"({cpp(e[2])}{sp}{e[1]}{sp}{cpp(e[3])})"


def ev(e, env: Dict[str, float]) -> float:
    if e[0] == "var":
        return env[e[1]]
    if e[0] == "num":
        return float(e[1])
    if e[0] == "meth":
        return JET[e[2]]
    a, b = ev(e[2], env), ev(e[3], env)
    return a + b if e[1] == "+" else a - b if e[1] == "-" else a * b


def gen_spec(rng, name: str) -> Dict[str, Any]:
    n = rng.choice([1, 2, 2, 3])
    mo = rng.choice(["obj", "self_", "jet_p"]) if rng.random() < 0.3 else None
    # a template that calls methods of the method object must not have parameters named like those methods
    # (their whole-word occurrences WOULD be replaced, as specified): such specifications have no defined meaning
    params = rng.sample([p for p in NAMES if mo is None or p not in JET], n)
    temps, lines, trees = [], [], []
    for i in range(rng.choice([0, 1, 1, 2])):
        t = gen_expr(rng, params + temps, mo)
        trees.append((f"t{i}", t))
        lines.append(f"double t{i} = {cpp(t)};")
        temps.append(f"t{i}")
    res = rng.choice(["result", "res"])
    t = gen_expr(rng, params + temps, mo)
    trees.append((res, t))
    lines.append(f"double {res} = {cpp(t)};")
    return {"name": name, "includes": [], "args": params, "code": lines, "result": res, "retType": "double",
            "isCollection": False, "methodObject": mo, "_trees": trees}


LEAVES = {"j.pt()": 3.0, "j.eta()": -2.0, "j.phi()": 0.5, "j.m()": 7.0, "1.0": 1.0, "2": 2.0, "-1.5": -1.5, "j.pt()*2": 6.0,
          "(j.pt()+j.eta())": 1.0}


def gen_case(rng) -> Dict[str, Any]:
    specs = [gen_spec(rng, n) for n in rng.sample(FUNCS, rng.choice([1, 2, 2]))]
    budget = [rng.choice([1, 2, 3, 4])]

    def call(d):
        budget[0] -= 1
        s = rng.choice(specs)
        args = []
        for _ in s["args"]:
            if d < 2 and budget[0] > 0 and rng.random() < 0.35:
                args.append(call(d + 1))
            else:
                args.append({"leaf": rng.choice(list(LEAVES))})
        return {"f": s["name"], "style": "meth" if s["methodObject"] else "func", "args": args}

    case = {"kind": "query", "backend": "atlas", "specs": specs, "cols": [call(0) for _ in range(rng.choice([1, 2]))]}
    case["wraps"] = [None] * len(case["cols"])
    case["wants"] = [None] * len(case["cols"])
    if rng.random() < 0.3:
        o = gen_object_column(rng)
        case["specs"] = specs + [o["spec"]]
        case["cols"].append(o["col"])
        case["wraps"].append(o["wrap"])
        case["wants"].append(o["want"])
    return case


OBJ_TYPES = ["Trk", "Trk*", "const Trk*"]


def gen_object_column(rng) -> Dict[str, Any]:
    """a collection-valued (or object-valued) injected function over the mock track type: value, pointer and
    const-pointer element types; consumed by Count(), by summing the elements' pt(), or by .pt()"""
    ty = rng.choice(OBJ_TYPES)
    amp = "&" if ty.endswith("*") else ""
    coll = rng.random() < 0.75
    name = rng.choice(["trkOf", "ghostTrk"]) if coll else "firstTrk"
    p = rng.choice(["x", "pt", "eta"])
    if coll:
        code = [f"std::vector<{ty}> result;", f"result.push_back({amp}g_trk[0]);", f"if ({p} < 100) result.push_back({amp}g_trk[1]);"]
        wrap = rng.choice(["count", "sum"])
        want = 2.0 if wrap == "count" else 4.0
    else:
        code = [f"{ty} result = {amp}g_trk[1];", f"(void)({p});"]
        wrap, want = "pt", 2.5
    spec = {"name": name, "includes": [], "args": [p], "code": code, "result": "result", "retType": ty, "isCollection": coll,
            "methodObject": None, "_trees": []}
    return {"spec": spec, "col": {"f": name, "style": "func", "args": [{"leaf": rng.choice(list(LEAVES))}]}, "wrap": wrap, "want": want}


WRAP_SRC = {None: "", "count": ".Count()", "sum": ".Select(lambda t: t.pt()).Sum()", "pt": ".pt()"}


def meaning(t, specs: Dict[str, Dict[str, Any]]) -> float:
    if "leaf" in t:
        return LEAVES[t["leaf"]]
    s = specs[t["f"]]
    env = {p: meaning(a, specs) for p, a in reversed(list(zip(s["args"], t["args"])))}
    for name, tree in s["_trees"]:
        env[name] = ev(tree, env)
    return env[s["result"]]


def tree_src(t) -> str:
    if "leaf" in t:
        return t["leaf"]
    a = ", ".join(tree_src(x) for x in t["args"])
    return f"j.{t['f']}({a})" if t["style"] == "meth" else f"{t['f']}({a})"


PRELUDE = """#include <cstdio>
#include <vector>
#include <cmath>
struct Trk { double v; double pt() const {return v;} };
static Trk g_trk[2] = {{1.5}, {2.5}};
struct Jet { double pt() const {return 3.0;} double eta() const {return -2.0;} double phi() const {return 0.5;} double m() const {return 7.0;} };
"""


def loop_body(text: str, marker: str) -> Tuple[str, List[str], List[str]]:
    lines = [l.strip() for l in text[text.index(marker):].split("\n") if l.strip()]
    k = next(i for i, l in enumerate(lines) if impl.FOR_RE.match(l) and lines[i + 1] == "{")
    var = impl.FOR_RE.match(lines[k]).group(1)
    depth, out, i = 0, [], k + 1
    while True:
        l = lines[i]
        if l == "{":
            depth += 1
        elif l == "}":
            depth -= 1
        out.append(l)
        i += 1
        if depth == 0:
            break
    out = [l for l in out if "->Fill()" not in l]
    cols = [m.group(1) for l in out for m in [re.match(r"^(_col\w*) = ", l)] if m]
    return var, out, cols


def unit(k: int, var: str, body: List[str], cols: List[str]) -> str:
    decl = "".join(f"  double {c} = 0;\n" for c in cols)
    pr = "".join(f'  printf(" %.17g", (double){c});\n' for c in cols)
    return (f"void case_{k}() {{\n  Jet the_jet; Jet* {var} = &the_jet; (void){var};\n{decl}" + "\n".join("  " + l for l in body) +
            f'\n  printf("{k}:");\n{pr}  printf("\\n");\n}}\n')


def compile_run(units: List[Tuple[int, str]], d: Path) -> Tuple[bool, Dict[int, List[float]], str]:
    src = PRELUDE + "".join(u for _, u in units) + "int main(){\n" + "".join(f"  case_{k}();\n" for k, _ in units) + "  return 0;\n}\n"
    (d / "t.cpp").write_text(src)
    p = subprocess.run(["g++", "-std=c++17", "-O0", "-w", "-o", str(d / "t"), str(d / "t.cpp")], capture_output=True, text=True, timeout=600)
    if p.returncode != 0:
        return False, {}, p.stderr[-1500:]
    r = subprocess.run([str(d / "t")], capture_output=True, text=True, timeout=120)
    vals: Dict[int, List[float]] = {}
    for l in r.stdout.splitlines():
        k, _, rest = l.partition(":")
        vals[int(k)] = [float(x) for x in rest.split()]
    return True, vals, ""


def run(ctx, n: int = 600):
    rng = ctx.rng
    cases = [gen_case(rng) for _ in range(n)]
    prepared = []
    for k, c in enumerate(cases):
        pub = {**c, "specs": [{a: b for a, b in s.items() if a != "_trees"} for s in c["specs"]]}
        pub = {k_: v_ for k_, v_ in pub.items() if k_ != "wants"}
        srcs = [tree_src(t) + WRAP_SRC[w] for t, w in zip(c["cols"], c["wraps"])]
        src = "lambda j: " + ("(" + ", ".join(srcs) + ")" if len(srcs) > 1 else srcs[0])
        r = impl.translate_query("atlas", pub["specs"], src)
        smap = {}
        for s in reversed(c["specs"]):
            smap[s["name"]] = s
        want = [w if w is not None else meaning(t, smap) for t, w in zip(c["cols"], c["wants"])]
        for sp, w in zip([smap[t["f"]] for t in c["cols"]], c["wraps"]):
            if w is not None:
                ctx.count("exec:object-result:" + ("collection of " if sp["isCollection"] else "") + sp["retType"] + ":" + w)
        ctx.count("exec:cases")
        ctx.case("exec:" + json.dumps(pub, sort_keys=True), True, None)
        if "text" not in r:
            ctx.violation(key="exec:" + json.dumps(pub, sort_keys=True), what=f"executable specification refused: {r}", case=pub, observed=r,
                          how="tools/c11_lib/exec_oracle.py")
            continue
        var, body, cols = loop_body(r["text"], r["marker"])
        prepared.append((k, pub, want, unit(k, var, body, cols), body))
    d = Path(tempfile.mkdtemp(prefix="c11x_"))
    try:
        for i in range(0, len(prepared), 150):
            chunk = prepared[i:i + 150]
            ok, vals, err = compile_run([(k, u) for k, _, _, u, _ in chunk], d)
            if not ok:  # find the culprit one by one
                vals = {}
                for k, pub, want, u, body in chunk:
                    ok1, v1, e1 = compile_run([(k, u)], d)
                    if ok1:
                        vals.update(v1)
                    else:
                        ctx.violation(key="exec:" + json.dumps(pub, sort_keys=True), what="the generated loop body does not compile: " + e1[-300:],
                                      case=pub, observed={"body": body}, how="tools/c11_lib/exec_oracle.py (g++ against the mock jet)")
            for k, pub, want, u, body in chunk:
                if k in vals and vals[k] != want:
                    ctx.count("exec:value-mismatch")
                    ctx.violation(key="exec:" + json.dumps(pub, sort_keys=True),
                                  what=f"compiled block computes {vals[k]}, the function applied to its arguments means {want}",
                                  case=pub, observed={"body": body, "values": vals[k], "expected": want},
                                  how="tools/c11_lib/exec_oracle.py (g++ against the mock jet: pt=3, eta=-2, phi=0.5, m=7)")
                elif k in vals:
                    ctx.count("exec:value-agrees")
            ctx.check_time()
    finally:
        shutil.rmtree(d, ignore_errors=True)
