"""C11 — generators added in the extension round.  Every random choice comes from the `rng` handed in.

  * optkeys_cases : every subset of the OPTIONAL keys of a specification (`instance_object`, `method_object`) x call
                    style (method / function) x arity (declared / surplus / missing), as `build` cases (unit level) and as
                    `query` cases (through metadata and the whole pipeline);
  * recv_query_case : call sites whose RECEIVER is a lambda parameter standing for `j.m1().m2()…` (the elements of a
                    Select'ed sequence consumed by an Aggregate lambda), with formals and method-object words named like
                    the methods of that chain — the receiver's C++ text contains formal names;
  * subset_cases  : several functions declared in one query (two of them with the same arity), one query per non-empty
                    subset calling exactly the functions of the subset — the callback registered under a name must be
                    that function's own specification.
"""
from __future__ import annotations

import itertools
from typing import Any, Dict, List

from c11_lib import gen

# methods a receiver chain may go through when no formal of the case lends its name (never an accessor of the harness)
CHAIN_POOL = ["parent", "obj", "jet", "x", "k", "val", "a", "ab", "result", "i_obj", "y", "the_jet", "self_"]
RESERVED = set(gen.METHODS) | set(gen.FUNC_NAMES) | {"j", "j0", "acc", "e", "Select", "Aggregate", "Jets", "Muons", "globalTrack"}
RECV_LEAVES = ["j.pt()", "j.eta()", "j.phi()", "1.0", "2", "j.pt()*2", "(j.pt()+j.eta())", "j"]


NUMBER_TYPES = ["double", "float", "int"]


def _value_spec(rng, name: str, **kw) -> Dict[str, Any]:
    """a specification whose result is a number (can be summed / written as a column as it is)"""
    s = gen.spec(rng, name, allow_coll=False, **kw)
    if s["retType"] not in NUMBER_TYPES:
        s["retType"] = rng.choice(NUMBER_TYPES)
    return s


# ------------------------------------------------------------------ optional keys x style x arity

KEYSETS = [("none", False, False), ("instance_object", True, False), ("method_object", False, True), ("both", True, True)]


def _with_keys(rng, s: Dict[str, Any], inst: bool, mo: bool) -> Dict[str, Any]:
    s = dict(s)
    word = rng.choice(gen.METHOD_OBJECTS)
    while word in s["args"]:
        word = rng.choice(gen.METHOD_OBJECTS)
    s["methodObject"] = word if mo else None
    s["instanceObject"] = rng.choice(gen.INSTANCE_OBJECTS) if inst else None
    if mo:  # the template mentions the receiver's placeholder: an unbound one would be visible in the generated C++
        s["code"] = [f"auto t_recv = {word}->{rng.choice(gen.METHODS)}();"] + list(s["code"])
    return s


def optkeys_cases(rng, backends: List[str]):
    for be in backends:
        for label, inst, mo in KEYSETS:
            base = _value_spec(rng, rng.choice(gen.FUNC_NAMES), mo_prob=0.0, min_args=1)
            s = _with_keys(rng, base, inst, mo)
            for style in ("meth", "func"):
                for d_ar in (0, 1, -1):
                    n = len(s["args"]) + d_ar
                    func = {"attr": [{"name": "j"}, s["name"]]} if style == "meth" else {"name": s["name"]}
                    args = [rng.choice([{"const": "1"}, {"const": "2.5"}, {"call": [{"attr": [{"name": "j"}, "pt"]}, []]}]) for _ in range(n)]
                    if be == backends[0]:
                        yield "optkeys-build", {"kind": "build", "spec": s, "func": func, "args": args}
                    leaves = [rng.choice(["j.pt()", "j.eta()", "1.0", "2"]) for _ in range(n)]
                    yield "optkeys-query", {"kind": "query", "backend": be, "specs": [s],
                                            "cols": [{"f": s["name"], "style": style, "args": [{"leaf": l} for l in leaves]}]}


# ------------------------------------------------------------------ receivers whose C++ text contains formal names

def recv_query_case(rng, backend: str) -> Dict[str, Any]:
    n_chain = rng.choice([1, 1, 1, 2])
    chain = [w for w in rng.sample(CHAIN_POOL, n_chain)]
    names = rng.sample(gen.FUNC_NAMES, rng.choice([1, 1, 2, 3]))
    specs = []
    for i, n in enumerate(names):
        s = _value_spec(rng, n, mo_prob=(0.9 if i == 0 else 0.5), extra_params=chain)
        if s["methodObject"] is not None and rng.random() < 0.15 and chain[-1] not in s["args"]:
            # the method-object word itself is a word of the receiver's text
            old, new = s["methodObject"], chain[-1]
            s["methodObject"] = new
            s["code"] = [c.replace(f"{old}->", f"{new}->") for c in s["code"]]
        specs.append(s)
    table = {s["name"]: s for s in reversed(specs)}
    budget = [rng.choice([1, 2, 2, 3, 4])]
    wrong_left = [1 if rng.random() < 0.1 else 0]

    def call(d: int):
        budget[0] -= 1
        sp = table[rng.choice(names)]
        ar, meth = len(sp["args"]), sp["methodObject"] is not None
        style = "meth" if meth else "func"
        if wrong_left[0] and rng.random() < 0.6:
            wrong_left[0] = 0
            if rng.random() < 0.5:
                ar = max(0, ar + rng.choice([-1, 1])) if ar > 0 else 1
            else:
                style = "func" if meth else "meth"
        args = []
        for _ in range(ar):
            if d < 2 and budget[0] > 0 and rng.random() < 0.3:
                args.append(call(d + 1))
            else:
                args.append({"leaf": rng.choice(RECV_LEAVES)})
        return {"f": sp["name"], "style": style, "args": args}

    cols = [call(0) for _ in range(rng.choice([1, 1, 2, 3]))]
    return {"kind": "query", "backend": backend, "specs": specs, "cols": cols, "recv": {"chain": chain}}


# ------------------------------------------------------------------ several declared functions, every subset called

def subset_cases(rng, backend: str):
    names = rng.sample(gen.FUNC_NAMES, 3)
    specs = []
    for i, n in enumerate(names):
        s = _value_spec(rng, n, mo_prob=0.3, min_args=1)
        if i == 1:  # same arity (and the same formals) as the first one: only the NAME tells the two apart
            s["args"] = list(specs[0]["args"])
            s["methodObject"], s["instanceObject"] = specs[0]["methodObject"], specs[0]["instanceObject"]
            s["code"] = [f"auto {s['result']} = only_{n}({', '.join(s['args'])});"]
        s["includes"] = [f"{n}.h"]
        specs.append(s)
    order = list(specs)
    rng.shuffle(order)
    for k in range(1, len(names) + 1):
        for used in itertools.combinations(specs, k):
            cols = []
            for s in used:
                style = "meth" if s["methodObject"] is not None else "func"
                cols.append({"f": s["name"], "style": style, "args": [{"leaf": rng.choice(["j.pt()", "j.eta()", "1.0", "j.phi()"])} for _ in s["args"]]})
            yield {"kind": "query", "backend": backend, "specs": order, "cols": cols}


# ------------------------------------------------------------------ the registered table itself

def register_case(rng, backend: str, builtin_names: List[str]) -> Dict[str, Any]:
    """1-4 declared functions (sometimes two under one name, sometimes one named like a built-in); the table entries
    looked at are the declared names, the built-ins and a name nobody declared"""
    names = rng.sample(gen.FUNC_NAMES, rng.choice([1, 2, 2, 3, 3, 4]))
    specs = [gen.spec(rng, n) for n in names]
    if rng.random() < 0.2:
        specs.append(gen.spec(rng, names[0]))
    if rng.random() < 0.15 and builtin_names:
        specs.append(gen.spec(rng, rng.choice(builtin_names)))
    rng.shuffle(specs)
    return {"kind": "register", "backend": backend, "specs": specs,
            "names": sorted({s["name"] for s in specs} | set(builtin_names) | {"nobody"})}
