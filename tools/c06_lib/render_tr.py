"""C06 tie T for the rendered include / library lists: which list the executor hands to the
templates under which name, and which list each rendered file writes out as `#include "…"` lines.

Writes lean/FaxVerif/Generated/C06Render.lean (data only).  What cannot be read is emitted as an
explicit `unrecognised "<text>"` entry, which makes theorem `C06.render_source_recognised` fail.
"""
from __future__ import annotations

import ast
import re
from pathlib import Path
from typing import Any, Dict, List, Tuple

from c06_lib.translate import llist, lstr

TEMPLATES = {
    "atlas": ("func_adl_xAOD/template/atlas/r21", "query.cxx", "package_CMakeLists.txt"),
    "cms_aod": ("func_adl_xAOD/template/cms/r5", "Analyzer.cc", None),
    "cms_miniaod": ("func_adl_xAOD/template/cms/r7", "Analyzer.cc", None),
}


def _concat_parts(node) -> List[str]:
    """`a + b + c` of attribute reads / method calls -> their source texts; anything else: unrecognised."""
    if isinstance(node, ast.BinOp) and isinstance(node.op, ast.Add):
        return _concat_parts(node.left) + _concat_parts(node.right)
    txt = ast.unparse(node)
    if re.fullmatch(r"(self|qv)\.[A-Za-z_]+(\(\))?", txt):
        return [txt]
    return ['unrecognised "' + txt[:120] + '"']


def executor_lists(repo: Path) -> Dict[str, List[str]]:
    """The expressions `write_cpp_files` stores under info["body_include_files"], info["header_include_files"],
    info["link_libraries"], each as the list of concatenated parts."""
    res = {"body_include_files": ['unrecognised "info[body_include_files] not found"'], "header_include_files": ['unrecognised "info[header_include_files] not found"'], "link_libraries": ['unrecognised "info[link_libraries] not found"']}
    try:
        mod = ast.parse((repo / "func_adl_xAOD/common/executor.py").read_text())
    except Exception as e:  # pragma: no cover
        return {k: [f'unrecognised "executor.py: {type(e).__name__}"'] for k in res}
    fn = None
    for n in ast.walk(mod):
        if isinstance(n, ast.FunctionDef) and n.name == "write_cpp_files":
            fn = n
    if fn is None:
        return res
    local: Dict[str, Any] = {}
    for st in fn.body:
        if isinstance(st, ast.Assign) and len(st.targets) == 1:
            tg = st.targets[0]
            if isinstance(tg, ast.Name):
                local[tg.id] = st.value
            elif isinstance(tg, ast.Subscript) and isinstance(tg.value, ast.Name) and tg.value.id == "info" and isinstance(tg.slice, ast.Constant) and tg.slice.value in res:
                v = st.value
                if isinstance(v, ast.Name) and v.id in local:
                    v = local[v.id]
                res[tg.slice.value] = _concat_parts(v)
    return res


def template_loops(repo: Path) -> Tuple[List[Tuple[str, str, List[str]]], List[Tuple[str, str, List[str]]], List[Tuple[str, str, List[str]]]]:
    """(backend, file, list variables written as #include lines), (backend, main source, rendered files
    it includes), (backend, file, list variables written into LINK_LIBRARIES)."""
    loops, mains, links = [], [], []
    for b, (d, main, cm) in TEMPLATES.items():
        files = {}
        try:
            for p in sorted((repo / d).iterdir()):
                if p.is_file():
                    files[p.name] = p.read_text(errors="replace")
        except Exception as e:
            loops.append((b, main, [f'unrecognised "{type(e).__name__}"']))
            continue
        for name, text in files.items():
            vs = []
            for m in re.finditer(r"\{%-?\s*for\s+(\w+)\s+in\s+(\w+)\s*-?%\}(.*?)\{%-?\s*endfor\s*-?%\}", text, re.S):
                var, lst, body = m.group(1), m.group(2), m.group(3)
                if re.search(r'#include\s*["<]\{\{\s*' + re.escape(var) + r'\s*\}\}[">]', body):
                    vs.append(lst)
            if vs:
                loops.append((b, name, vs))
            if cm is not None and name == cm:
                lv = []
                m = re.search(r"LINK_LIBRARIES([^)]*)\)", text, re.S)
                if m:
                    for fm in re.finditer(r"\{%-?\s*for\s+(\w+)\s+in\s+(\w+)\s*-?%\}", m.group(1)):
                        lv.append(fm.group(2))
                links.append((b, name, lv if lv else ['unrecognised "no list in LINK_LIBRARIES"']))
        inc = []
        for m in re.finditer(r'^\s*#include\s*[<"]([^>"{}]+)[>"]', files.get(main, ""), re.M):
            base = m.group(1).split("/")[-1]
            if base in files and base != main:
                inc.append(base)
        mains.append((b, main, inc))
    return loops, mains, links


def generate(repo: Path) -> Tuple[str, Dict[str, Any]]:
    lists = executor_lists(repo)
    loops, mains, links = template_loops(repo)
    trip = lambda rows: "[\n  " + ",\n  ".join(f"({lstr(a)}, {lstr(b)}, {llist(map(lstr, c))})" for a, b, c in rows) + "]"
    bad = [x for v in lists.values() for x in v if x.startswith("unrecognised")] + [x for rows in (loops, links) for _, _, c in rows for x in c if x.startswith("unrecognised")]
    out = [
        "/-\nGENERATED by tools/c06_lib/render_tr.py from the working tree of /repo on every run of\n`./check C06` — do not edit.  Data only.\n-/",
        "import FaxVerif.Generated.C06Tables",
        "namespace FaxVerif.C06.GenR\n",
        "/-- `info[\"body_include_files\"]` of `executor.write_cpp_files`: the lists it concatenates -/",
        f"def bodyListParts : List Text := {llist(map(lstr, lists['body_include_files']))}\n",
        "/-- `info[\"header_include_files\"]` -/",
        f"def headerListParts : List Text := {llist(map(lstr, lists['header_include_files']))}\n",
        "/-- `info[\"link_libraries\"]` -/",
        f"def linkListParts : List Text := {llist(map(lstr, lists['link_libraries']))}\n",
        "/-- (backend, template file, the list variables it writes out as `#include \"{{i}}\"` lines) -/",
        f"def includeLoops : List (Text × Text × List Text) := {trip(loops)}\n",
        "/-- (backend, main source file, the rendered files of the package it `#include`s) -/",
        f"def mainIncludes : List (Text × Text × List Text) := {trip(mains)}\n",
        "/-- (backend, file, the list variables written into `LINK_LIBRARIES`) -/",
        f"def linkLoops : List (Text × Text × List Text) := {trip(links)}\n",
        "/-- Source texts the translator could not interpret (must be empty). -/",
        f"def unrecognised : List Text := {llist(map(lstr, bad))}\n",
        "end FaxVerif.C06.GenR\n",
    ]
    return "\n".join(out), {"lists": lists, "loops": loops, "mains": mains, "links": links, "unrecognised": bad}
