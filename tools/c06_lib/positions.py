"""C06 — collection calls at EVERY position of a query, declaration lists, companion metadata.

Position expressions (JSON trees; every expression is a scalar of the event lambda):

  {"k":"const","v":"1.5"}
  {"k":"use","use":USE,"via":"count"|"first"|"sum"|"single","method":m}
        U.Count() | U.First().m() | U.Select(lambda o: o.m()).Sum() | U.m()   (singleton)
  {"k":"call","fn":name,"args":[E..]}        DeltaR (built-in rewritten call, 4 args), a function declared with
                                              add_cpp_function (case["extras"] carries the declaration), sqrt/abs
  {"k":"if","test":E,"then":E,"else":E}      (THEN if TEST > 0 else ELSE)
  {"k":"bin","op":"+"|"*"|"-","l":E,"r":E}
  {"k":"lam","use":USE,"how":"where"|"sum","method":m,"body":E}
        U.Where(lambda o: o.m() > BODY).Count() | U.Select(lambda o: o.m() + BODY).Sum()     (nested lambda)
  {"k":"marg","use":USE,"method":m,"arg":E}  U.First().m(ARG)                                (method argument)
  {"k":"mfn","use":USE,"fn":name,"arg":E}    U.Select(lambda o: o.<fn>(ARG)).Sum()  method-style declared function

`expr_uses` lists the collection calls in the order the translator emits their retrieval blocks
(depth first, arguments left to right, the test of a conditional before its branches, the source
of a lambda before its body) — established on the clean tree and checked by the job stream itself:
a different order makes the retrieval blocks disagree with their calls.
"""
from __future__ import annotations

from typing import Any, Dict, List, Optional

MDTYPE = {"atlas": "add_atlas_event_collection_info", "cms_aod": "add_cms_aod_event_collection_info", "cms_miniaod": "add_cms_miniaod_event_collection_info"}
BACKENDS = ["atlas", "cms_aod", "cms_miniaod"]

# a function declared through metadata (headers disjoint from every collection header)
FN_DECL = {
    "metadata_type": "add_cpp_function",
    "name": "MyAdd",
    "include_files": ["myfuncs/add.h"],
    "arguments": ["a", "b"],
    "code": ["auto result = a + b;"],
    "result": "result",
    "return_type": "double",
}
# a method-style function declared through metadata
MFN_DECL = {
    "metadata_type": "add_cpp_function",
    "name": "scaledPt",
    "include_files": ["myfuncs/scaled.h"],
    "arguments": ["f"],
    "code": ["auto result = f * 2.0;"],
    "method_object": "obj_j",
    "result": "result",
    "return_type": "double",
}
DECLARED_FNS = {"MyAdd": FN_DECL, "scaledPt": MFN_DECL}
ARITY = {"DeltaR": 4, "MyAdd": 2, "sqrt": 1, "abs": 1}


def _arg_src(a):
    import json

    if "s" in a:
        return repr(a["s"]) if "'" not in a["s"] else json.dumps(a["s"])
    if "int" in a:
        return str(a["int"])
    return a["expr"]


def use_src(u, ev="e") -> str:
    return f"{ev}.{u['name']}({', '.join(_arg_src(a) for a in u['args'])})"


def expr_src(e: Dict[str, Any], depth: int = 0) -> str:
    k = e["k"]
    v = "o" + str(depth)
    if k == "const":
        return e["v"]
    if k == "use":
        u = use_src(e["use"])
        via = e["via"]
        if via == "count":
            return f"{u}.Count()"
        if via == "first":
            return f"{u}.First().{e['method']}()"
        if via == "sum":
            return f"{u}.Select(lambda {v}: {v}.{e['method']}()).Sum()"
        if via == "single":
            return f"{u}.{e['method']}()"
        raise ValueError(via)
    if k == "call":
        return f"{e['fn']}({', '.join(expr_src(a, depth) for a in e['args'])})"
    if k == "if":
        return f"({expr_src(e['then'], depth)} if {expr_src(e['test'], depth)} > 0 else {expr_src(e['else'], depth)})"
    if k == "bin":
        return f"({expr_src(e['l'], depth)} {e['op']} {expr_src(e['r'], depth)})"
    if k == "lam":
        u = use_src(e["use"])
        body = expr_src(e["body"], depth + 1)
        if e["how"] == "where":
            return f"{u}.Where(lambda {v}: {v}.{e['method']}() > {body}).Count()"
        return f"{u}.Select(lambda {v}: {v}.{e['method']}() + {body}).Sum()"
    if k == "marg":
        return f"{use_src(e['use'])}.First().{e['method']}({expr_src(e['arg'], depth)})"
    if k == "mfn":
        return f"{use_src(e['use'])}.Select(lambda {v}: {v}.{e['fn']}({expr_src(e['arg'], depth + 1)})).Sum()"
    raise ValueError(k)


def expr_uses(e: Dict[str, Any]) -> List[Dict[str, Any]]:
    """Collection calls in emission order."""
    k = e["k"]
    if k == "const":
        return []
    if k == "use":
        return [e["use"]]
    if k == "call":
        return [u for a in e["args"] for u in expr_uses(a)]
    if k == "if":
        return expr_uses(e["test"]) + expr_uses(e["then"]) + expr_uses(e["else"])
    if k == "bin":
        return expr_uses(e["l"]) + expr_uses(e["r"])
    if k == "lam":
        return [e["use"]] + expr_uses(e["body"])
    if k in ("marg", "mfn"):
        return [e["use"]] + expr_uses(e["arg"])
    raise ValueError(k)


def expr_fns(e: Dict[str, Any]) -> List[str]:
    k = e["k"]
    if k in ("const", "use"):
        return []
    if k == "call":
        return [e["fn"]] + [f for a in e["args"] for f in expr_fns(a)]
    if k == "if":
        return expr_fns(e["test"]) + expr_fns(e["then"]) + expr_fns(e["else"])
    if k == "bin":
        return expr_fns(e["l"]) + expr_fns(e["r"])
    if k == "lam":
        return expr_fns(e["body"])
    if k == "marg":
        return expr_fns(e["arg"])
    if k == "mfn":
        return [e["fn"]] + expr_fns(e["arg"])
    raise ValueError(k)


def expr_children(e):
    """(setter-less) list of (path key, child) for shrinking."""
    k = e["k"]
    if k == "call":
        return list(e["args"])
    if k == "if":
        return [e["test"], e["then"], e["else"]]
    if k == "bin":
        return [e["l"], e["r"]]
    if k == "lam":
        return [e["body"]]
    if k in ("marg", "mfn"):
        return [e["arg"]]
    return []


def position_kinds(e, path="top") -> List[str]:
    """For the measured distribution: where the collection calls of the expression sit."""
    k = e["k"]
    if k == "use":
        return [path + ":" + e["via"]]
    if k == "const":
        return []
    if k == "call":
        return [p for a in e["args"] for p in position_kinds(a, "arg-of-" + e["fn"])]
    if k == "if":
        return position_kinds(e["test"], "if-test") + position_kinds(e["then"], "if-branch") + position_kinds(e["else"], "if-branch")
    if k == "bin":
        return position_kinds(e["l"], "operand") + position_kinds(e["r"], "operand")
    if k == "lam":
        return [path + ":lambda-source"] + position_kinds(e["body"], "lambda-body")
    if k == "marg":
        return [path + ":first"] + position_kinds(e["arg"], "method-arg")
    if k == "mfn":
        return [path + ":lambda-source"] + position_kinds(e["arg"], "arg-of-" + e["fn"])
    return []


# ----------------------------------------------------------------------------------------- generators


def leaf(rng, pick_use, pool) -> Dict[str, Any]:
    """A collection call consumed into a scalar (singletons through a method)."""
    u = pick_use(None)
    if not pool[u["name"]]:
        return {"k": "use", "use": u, "via": "single", "method": rng.choice(["runNumber", "eventNumber"])}
    via = rng.choice(["count", "count", "first", "sum"])
    return {"k": "use", "use": u, "via": via, "method": rng.choice(["pt", "eta", "phi"])}


def gen_expr(rng, pick_use, pool, depth: int, need_use: bool = True) -> Dict[str, Any]:
    if depth <= 0:
        if need_use or rng.random() < 0.6:
            return leaf(rng, pick_use, pool)
        return {"k": "const", "v": rng.choice(["1.5", "2.0", "0.25"])}
    r = rng.random()
    sub = lambda need=False: gen_expr(rng, pick_use, pool, depth - 1 - (rng.random() < 0.4), need)
    if r < 0.34:
        fn = rng.choice(["DeltaR", "DeltaR", "MyAdd", "MyAdd", "sqrt", "abs"])
        n = ARITY[fn]
        args = [sub() for _ in range(n)]
        if need_use and not any(expr_uses(a) for a in args):
            args[rng.randrange(n)] = leaf(rng, pick_use, pool)
        return {"k": "call", "fn": fn, "args": args}
    if r < 0.46:
        return {"k": "if", "test": sub(), "then": sub(need_use), "else": sub()}
    if r < 0.58:
        return {"k": "bin", "op": rng.choice(["+", "*", "-"]), "l": sub(need_use), "r": sub()}
    colls = [n for n, c in pool.items() if c]
    if r < 0.74 and colls:
        return {"k": "lam", "use": pick_use(True), "how": rng.choice(["where", "sum"]), "method": rng.choice(["pt", "eta"]), "body": sub()}
    if r < 0.84 and colls:
        return {"k": "marg", "use": pick_use(True), "method": rng.choice(["pt", "eta"]), "arg": sub()}
    if r < 0.92 and colls:
        return {"k": "mfn", "use": pick_use(True), "fn": "scaledPt", "arg": sub()}
    return leaf(rng, pick_use, pool)


def extras_for(case) -> List[Dict[str, Any]]:
    """The add_cpp_function declarations the expressions of the case need."""
    fns: List[str] = []
    for it in case["items"]:
        if it["kind"] == "expr":
            fns += expr_fns(it["e"])
    for w in case["where"]:
        if w["kind"] == "expr":
            fns += expr_fns(w["e"])
    out = []
    for f in DECLARED_FNS:
        if f in fns:
            out.append(dict(DECLARED_FNS[f]))
    return out


def mk_case(backend, items, where=None, mds=None, main="tuple", extras=None, extras_at="pre") -> Dict[str, Any]:
    case = {"backend": backend, "mds": list(mds or []), "where": list(where or []), "main": main, "items": items}
    ex = extras_for(case) + list(extras or [])
    if ex:
        case["extras"] = ex
        case["extras_at"] = extras_at
    return case


def _u(name, bank):
    return {"name": name, "args": [{"s": bank}]}


def directed_position_cases(ctx, rows_of) -> List[Dict[str, Any]]:
    """Every position kind once per backend with built-in collections (and, per backend, once with a
    declared collection): the collection call inside the argument list of a built-in rewritten call,
    of a declared function, of a math function, of a method, in both halves of a conditional, as an
    operand, in a nested lambda, in dict / tuple elements, in a Where."""
    res = []
    for b in BACKENDS:
        rows = rows_of(b)
        colls = [r["name"] for r in rows if r["element"] is not None]
        singles = [r["name"] for r in rows if r["element"] is None]
        A, B_ = colls[0], colls[1 % len(colls)]
        C = colls[2 % len(colls)]

        def L(n, bank, via="count", m="pt"):
            return {"k": "use", "use": _u(n, bank), "via": via, "method": m}

        c = lambda v: {"k": "const", "v": v}
        exprs = [
            {"k": "call", "fn": "DeltaR", "args": [L(A, "b1", "first", "eta"), L(B_, "b2", "first", "phi"), c("0.5"), c("1.0")]},
            {"k": "call", "fn": "DeltaR", "args": [c("0.5"), c("1.0"), L(A, "b1"), L(C, "b2", "sum")]},
            {"k": "call", "fn": "MyAdd", "args": [L(A, "b1"), L(B_, "b2", "first")]},
            {"k": "call", "fn": "MyAdd", "args": [c("1.0"), {"k": "call", "fn": "DeltaR", "args": [L(A, "b1"), c("1.0"), c("2.0"), L(B_, "b2")]}]},
            {"k": "call", "fn": "sqrt", "args": [L(A, "b1")]},
            {"k": "call", "fn": "abs", "args": [L(A, "b1", "first")]},
            {"k": "if", "test": L(A, "t"), "then": L(B_, "b1"), "else": L(C, "b2", "first")},
            {"k": "bin", "op": "+", "l": L(A, "b1"), "r": {"k": "bin", "op": "*", "l": L(B_, "b2"), "r": c("2.0")}},
            {"k": "lam", "use": _u(A, "b1"), "how": "where", "method": "pt", "body": L(B_, "b2")},
            {"k": "lam", "use": _u(A, "b1"), "how": "sum", "method": "pt", "body": {"k": "call", "fn": "MyAdd", "args": [L(B_, "b2"), c("1.0")]}},
            {"k": "marg", "use": _u(A, "b1"), "method": "pt", "arg": L(B_, "b2")},
            {"k": "mfn", "use": _u(A, "b1"), "fn": "scaledPt", "arg": L(B_, "b2")},
        ]
        for s in singles[:1]:
            exprs.append({"k": "call", "fn": "MyAdd", "args": [{"k": "use", "use": _u(s, "ei"), "via": "single", "method": "runNumber"}, L(A, "b1")]})
        for e in exprs:
            res.append(mk_case(b, [{"kind": "expr", "e": e}]))
        # the same inside a dict, a tuple beside ordinary items, and a Where
        res.append(mk_case(b, [{"kind": "expr", "e": exprs[0]}, {"kind": "count", "use": _u(C, "b3")}], main="dict"))
        res.append(mk_case(b, [{"kind": "count", "use": _u(C, "b3")}, {"kind": "expr", "e": exprs[2]}]))
        res.append(mk_case(b, [{"kind": "count", "use": _u(C, "b3")}], where=[{"kind": "expr", "e": exprs[1]}]))
        # a declared collection inside the arguments
        md = {"metadata_type": MDTYPE[b], "name": "Foos", "include_files": ["my/FooContainer.h"], "container_type": "my::FooContainer", "element_type": "my::Foo", "contains_collection": True}
        res.append(mk_case(b, [{"kind": "expr", "e": {"k": "call", "fn": "DeltaR", "args": [L("Foos", "f1"), c("1.0"), L(A, "b1"), c("2.0")]}}], mds=[md]))
        res.append(mk_case(b, [{"kind": "expr", "e": {"k": "call", "fn": "MyAdd", "args": [L("Foos", "f1", "first"), L("Foos", "f2")]}}], mds=[md], extras_at="post"))
    return res


# ----------------------------------------------------------------------------------------- declaration lists


def _decl(b_type: str, name="MyVertices", variant=0) -> Dict[str, Any]:
    base = ["Vertex", "Track", "Blob"][variant % 3]
    return {
        "metadata_type": MDTYPE[b_type],
        "name": name,
        "include_files": [f"my/{base}Container.h"],
        "container_type": f"my::{base}Container",
        "element_type": f"my::{base}",
        "contains_collection": True,
    }


def decl_order_cases(ctx, rows_of, full: bool) -> List[Dict[str, Any]]:
    """Pairs / triples of declarations of ONE name, for the executor's own backend and for foreign
    backends, equal except for the backend (or differing), in every order and chain position,
    with an unrelated declaration in between.  `mds` is in the order the MetaData calls are chained in
    the query text; process_metadata sees them reversed."""
    import itertools

    res = []
    for b in BACKENDS:
        others = [x for x in BACKENDS if x != b]
        own, own2 = _decl(b), _decl(b, variant=1)
        unrelated = _decl(b, name="Others", variant=2)
        fams: List[List[Dict[str, Any]]] = []
        for o in others:
            f_same, f_diff = _decl(o), _decl(o, variant=1)
            fams += [[own, f_same], [f_same, own], [own, f_diff], [f_diff, own]]
            fams += [[own, own, f_same], [own, f_same, own], [f_same, own, own], [own, own2, f_same], [f_same, own2, own]]
            fams += [[own, unrelated, f_same], [f_same, unrelated, own], [unrelated, own, f_same], [f_same, own, unrelated]]
            if full:
                fams += [list(p) for p in itertools.permutations([own, own2, f_same])]
                fams += [list(p) for p in itertools.permutations([own, f_same, f_diff])]
                fams += [[f_same], [f_diff, f_same], [own, f_same, unrelated, own2]]
        fams += [[own, _decl(others[0]), _decl(others[1])], [_decl(others[1]), own, _decl(others[0])], [_decl(others[0]), _decl(others[1]), own]]
        # own-backend lists only (must be accepted; which declaration wins is the override clause)
        fams += [[own], [own, own], [own, own2], [own2, own], [own, unrelated, own2], [own, own2, own]]
        seen = set()
        for mds in fams:
            key = repr(mds)
            if key in seen:
                continue
            seen.add(key)
            it = {"kind": "selmethod", "use": _u("MyVertices", "vtx"), "method": "pt"}
            res.append({"backend": b, "mds": [dict(m) for m in mds], "where": [], "main": "tuple", "items": [it]})
    return res


# ----------------------------------------------------------------------------------------- companion metadata


def companion_cases(ctx, rows_of, full: bool) -> List[Dict[str, Any]]:
    """A collection (built-in / declared) beside inject_code blocks that name the collection's own
    headers (libraries) in header_includes, body_includes, both, or neither."""
    res = []
    for b in BACKENDS:
        rows = rows_of(b)
        colls = [r for r in rows if r["element"] is not None]
        picks = colls if full else colls[:2]
        for r in picks:
            hs = list(r["includes"])
            variants = [
                {"header_includes": hs[:1]},
                {"body_includes": hs[:1]},
                {"header_includes": hs, "body_includes": hs[-1:]},
                {"header_includes": ["my/other.h"], "body_includes": ["my/other2.h"]},
            ]
            if b == "atlas" and r["libs"]:
                variants.append({"header_includes": hs[-1:], "link_libraries": list(r["libs"])})
            for i, v in enumerate(variants):
                blk = {"metadata_type": "inject_code", "name": f"blk_{i}", **v}
                for at in (["pre", "post"] if full or i == 0 else ["pre"]):
                    it = {"kind": "selmethod", "use": _u(r["name"], "bank"), "method": "pt"}
                    res.append({"backend": b, "mds": [], "where": [], "main": "tuple", "items": [it], "extras": [blk], "extras_at": at})
        # a declared collection whose header an inject block also names; two blocks
        md = _decl(b, name="Foos")
        for v in ({"header_includes": list(md["include_files"])}, {"header_includes": list(md["include_files"]), "body_includes": list(md["include_files"])}):
            blks = [{"metadata_type": "inject_code", "name": "blk_a", **v}, {"metadata_type": "inject_code", "name": "blk_b", "header_includes": ["my/x.h"]}]
            it = {"kind": "count", "use": _u("Foos", "bank")}
            res.append({"backend": b, "mds": [md], "where": [], "main": "tuple", "items": [it], "extras": blks, "extras_at": "post"})
    return res


def include_closure(main_name: str, files: Dict[str, Optional[str]]) -> Optional[List[str]]:
    """Every header the main source includes, following includes of other RENDERED files."""
    import re

    if files.get(main_name) is None:
        return None
    seen: List[str] = []
    done = set()

    def walk(fn):
        if fn in done:
            return
        done.add(fn)
        for m in re.finditer(r'^\s*#include\s*[<"]([^>"]+)[>"]', files[fn] or "", re.M):
            inc = m.group(1)
            base = inc.split("/")[-1]
            if base in files and files[base] is not None and base != fn:
                walk(base)
            else:
                seen.append(inc)

    walk(main_name)
    return seen
