"""C06 executed-artefact oracle: compile the RENDERED job (query.cxx + query.h / Analyzer.cc) with g++
against a generated stand-in of the declared event data model and a tiny stand-in of the
framework, run one event and read the log of what the job asked the event store / event for.

Log lines (stdout):
    REQUEST|<container type>|<bank>|ok|fail     evtStore()->retrieve / getByLabel / getByToken (the token's own tag)
    CONSUMES|<container type>|<tag>             consumes<T>(edm::InputTag(tag)) in the constructor
    CALL|<class>|<method>                       a member function of a mock object was called
    EXECUTE|SUCCESS|FAILURE                     what execute() returned (ATLAS) / analyze() returned (CMS)
Banks listed in $MOCK_FAIL (separated by \\x1f) make `retrieve` fail.

The stand-ins are test doubles (DESIGN §7): they appear only in the thorough tier and the search.
"""
from __future__ import annotations

import os
import shutil
import subprocess
import tempfile
from pathlib import Path
from typing import Any, Dict, List, Optional, Tuple

METHODS = ["pt", "eta", "phi", "m", "runNumber"]

ATLAS_FRAMEWORK = r"""
#pragma once
#include <string>
#include <vector>
#include <cstdio>
#include <cstdlib>
#include <cstring>
inline bool mock_fails(const std::string& bank) {
  const char* f = std::getenv("MOCK_FAIL");
  if (!f) return false;
  std::string s(f); size_t pos = 0;
  while (true) {
    size_t e = s.find('\x1f', pos);
    std::string item = s.substr(pos, e == std::string::npos ? std::string::npos : e - pos);
    if (item == bank) return true;
    if (e == std::string::npos) return false;
    pos = e + 1;
  }
}
class StatusCode {
 public:
  enum Value { FAILURE = 0, SUCCESS = 1 };
  StatusCode(Value v = SUCCESS) : m_v(v) {}
  bool isSuccess() const { return m_v == SUCCESS; }
 private:
  Value m_v;
};
#define ANA_CHECK(EXP) do { StatusCode sc__ = (EXP); if (!sc__.isSuccess()) { return StatusCode::FAILURE; } } while (0)
class ISvcLocator {};
class TTree {
 public:
  TTree(const char*, const char*) {}
  template <class T> void Branch(const char*, T*) {}
  void Fill() { std::printf("FILL\n"); }
};
class MockStore {
 public:
  template <class T> StatusCode retrieve(const T*& out, const std::string& bank) {
    bool bad = mock_fails(bank);
    std::printf("REQUEST|%s|%s|%s\n", T::mock_name(), bank.c_str(), bad ? "fail" : "ok");
    if (bad) return StatusCode::FAILURE;
    static T instance = T::mock_make();
    out = &instance;
    return StatusCode::SUCCESS;
  }
};
namespace EL {
class AnaAlgorithm {
 public:
  AnaAlgorithm(const std::string&, ISvcLocator*) {}
  virtual ~AnaAlgorithm() {}
  virtual StatusCode initialize() { return StatusCode::SUCCESS; }
  virtual StatusCode execute() { return StatusCode::SUCCESS; }
  virtual StatusCode finalize() { return StatusCode::SUCCESS; }
  MockStore* evtStore() { return &m_store; }
  StatusCode book(const TTree&) { return StatusCode::SUCCESS; }
  TTree* tree(const char*) { static TTree t("t", "t"); return &t; }
 private:
  MockStore m_store;
};
}
namespace xAOD { struct TFileAccessTracer { static void enableDataSubmission(bool) {} }; }
"""

CMS_FRAMEWORK = r"""
#pragma once
#include <string>
#include <vector>
#include <memory>
#include <cstdio>
class TTree {
 public:
  TTree(const char*, const char*) {}
  template <class T> void Branch(const char*, T*) {}
  void Fill() { std::printf("FILL\n"); }
};
class TFileService {
 public:
  template <class T> T* make(const char* a, const char* b) { return new T(a, b); }
};
namespace edm {
class ParameterSet {};
class ParameterSetDescription { public: void setUnknown() {} };
class ConfigurationDescriptions { public: void addDefault(const ParameterSetDescription&) {} };
class Run {};
class LuminosityBlock {};
class EventSetup {};
class InputTag { public: InputTag(const std::string& s) : label(s) {} InputTag(const char* s) : label(s) {} std::string label; };
template <class T> class EDGetTokenT { public: EDGetTokenT() : init(false) {} std::string tag; bool init; };
template <class T> class Handle {
 public:
  Handle() : p(nullptr) {}
  const T& operator*() const { return *p; }
  const T* operator->() const { return p; }
  const T* p;
};
class Event {
 public:
  template <class T> bool getByLabel(const std::string& label, Handle<T>& h) const {
    std::printf("REQUEST|%s|%s|ok\n", T::mock_name(), label.c_str());
    static T instance = T::mock_make();
    h.p = &instance;
    return true;
  }
  template <class T> bool getByToken(const EDGetTokenT<T>& tok, Handle<T>& h) const {
    std::printf("REQUEST|%s|%s|%s\n", T::mock_name(), tok.tag.c_str(), tok.init ? "ok" : "uninitialised-token");
    static T instance = T::mock_make();
    h.p = &instance;
    return true;
  }
};
class AnalyzerBase {
 public:
  virtual ~AnalyzerBase() {}
  virtual void beginJob() {}
  virtual void analyze(const Event&, const EventSetup&) = 0;
  virtual void endJob() {}
  template <class T> EDGetTokenT<T> consumes(const InputTag& tag) {
    std::printf("CONSUMES|%s|%s\n", T::mock_name(), tag.label.c_str());
    EDGetTokenT<T> t; t.tag = tag.label; t.init = true; return t;
  }
};
class EDAnalyzer : public AnalyzerBase {};
namespace one {
class SharedResources {};
template <class... Ts> class EDAnalyzer : public AnalyzerBase {};
}
template <class T> class Service { public: T* operator->() { static T t; return &t; } };
}
#define DEFINE_FWK_MODULE(x)
"""


def _split_ns(t: str) -> Tuple[List[str], str]:
    parts = t.split("::")
    return parts[:-1], parts[-1]


def _cls(t: str, body: str) -> str:
    ns, name = _split_ns(t)
    return "".join(f"namespace {n} {{ " for n in ns) + f"struct {name} {body};" + " }" * len(ns) + "\n"


def edm_header(backend: str, types) -> str:
    """`types`: (container type, element type or None for a singleton, elements are pointers), as DECLARED by the tables /
    the metadata (not as the generated code uses them)."""
    out = ["#pragma once\n#include <vector>\n#include <cstdio>\n"]
    done = set()

    def methods(t: str) -> str:
        return " ".join(f'double {m}() const {{ std::printf("CALL|{t}|{m}\\n"); return 1.0; }}' for m in METHODS)

    for t3 in types:
        cont, elem = t3[0], t3[1]
        ptr = t3[2] if len(t3) > 2 else backend == "atlas"
        if elem is not None and elem not in done:
            done.add(elem)
            out.append(_cls(elem, "{ " + methods(elem) + " }"))
        if cont in done:
            continue
        done.add(cont)
        if elem is None:
            out.append(_cls(cont, "{ " + methods(cont) + f' static const char* mock_name() {{ return "{cont}"; }} static {cont} mock_make() {{ return {cont}(); }} }}'))
        elif ptr:
            out.append(
                _cls(cont, f': std::vector<const {elem}*> {{ static const char* mock_name() {{ return "{cont}"; }} static {cont} mock_make() {{ static {elem} a, b; {cont} c; c.push_back(&a); c.push_back(&b); return c; }} }}')
            )
        else:
            out.append(_cls(cont, f': std::vector<{elem}> {{ static const char* mock_name() {{ return "{cont}"; }} static {cont} mock_make() {{ {cont} c; c.resize(2); return c; }} }}'))
    return "".join(out)


def run_job(backend: str, files: Dict[str, str], includes: List[str], fixed_includes: List[str], types: List[Tuple[str, Optional[str]]], fail_banks: List[str] = []) -> Dict[str, Any]:
    """Compile and run one event. Returns {"compiled": bool, "log": [lines], "rc": int, "stderr": text}."""
    d = Path(tempfile.mkdtemp(prefix="c06mock_"))
    try:
        inc = d / "inc"
        inc.mkdir()
        (inc / "mock_framework.h").write_text(ATLAS_FRAMEWORK if backend == "atlas" else CMS_FRAMEWORK)
        (inc / "mock_edm.h").write_text(edm_header(backend, types))
        stub = '#include "mock_framework.h"\n#include "mock_edm.h"\n'
        extra = ["AnaAlgorithm/AnaAlgorithm.h", "TTree.h"] if backend == "atlas" else ["TTree.h"]
        for h in list(includes) + list(fixed_includes) + extra:
            p = inc / h
            if ".." in h or h.startswith("/"):
                continue
            p.parent.mkdir(parents=True, exist_ok=True)
            p.write_text(stub)
        if backend == "atlas":
            (inc / "analysis").mkdir(exist_ok=True)
            (inc / "analysis" / "query.h").write_text(files["query.h"])
            (d / "query.cxx").write_text(files["query.cxx"])
            (d / "main.cpp").write_text(
                '#include <analysis/query.h>\nint main() { query q("q", nullptr); if (!q.initialize().isSuccess()) { std::printf("INITIALIZE|FAILURE\\n"); return 0; }\n'
                ' StatusCode sc = q.execute(); std::printf("EXECUTE|%s\\n", sc.isSuccess() ? "SUCCESS" : "FAILURE"); return 0; }\n'
            )
            srcs = ["main.cpp", "query.cxx"]
        else:
            (d / "Analyzer.cc").write_text(files["Analyzer.cc"])
            (d / "main.cpp").write_text(
                '#include "Analyzer.cc"\nint main() { edm::ParameterSet ps; Analyzer a(ps); edm::Event ev; edm::EventSetup es; edm::AnalyzerBase* p = &a;\n'
                ' p->analyze(ev, es); std::printf("EXECUTE|SUCCESS\\n"); return 0; }\n'
            )
            srcs = ["main.cpp"]
        c = subprocess.run(["g++", "-std=c++17", "-w", "-I", str(inc), "-I", str(d)] + srcs + ["-o", "job"], cwd=str(d), capture_output=True, text=True, timeout=120)
        if c.returncode != 0:
            return {"compiled": False, "log": [], "rc": c.returncode, "stderr": c.stderr[-1500:]}
        env = dict(os.environ)
        env["MOCK_FAIL"] = "\x1f".join(fail_banks) if fail_banks else "\x1f\x1f"
        r = subprocess.run([str(d / "job")], cwd=str(d), capture_output=True, text=True, timeout=30, env=env)
        return {"compiled": True, "log": [l for l in r.stdout.split("\n") if l], "rc": r.returncode, "stderr": r.stderr[-500:]}
    finally:
        shutil.rmtree(d, ignore_errors=True)
