"""Directed families of the extension round: small fixed-shape queries, each family enumerating the variants of ONE
clause of the property on a shape the random generator reaches rarely.

  dependent_bundles  (c) metadata position: several INTERDEPENDENT metadata items (an enum and the type information of a
                     method returning it, a C++ function and its call, collections and the methods of their elements, job
                     script blocks with dependencies, injected code) moved along the chain and re-ordered
  echo_cases         (b) bound names: the same expression text repeated in nested scopes, the inner parameter shadowing
                     the outer one or not (what a cache keyed by text / by parameter spelling would confuse)
  fuse_left_cases    (d) chaining: chained Select/Where steps in the places func_adl's simplifier does not visit
                     (the lambda of the second of two chained SelectMany calls), so the translator composes them itself
"""
from __future__ import annotations

import itertools
from typing import Any, Dict, List, Optional, Tuple

from . import gen
from . import terms as T
from . import variants as Vr

P = T.parse


def _dm(backend: str) -> Dict[Tuple[str, str], Dict[str, Any]]:
    return {(m["metadata_type"], str(m.get("name") or (m["type_string"] + "." + m["method_name"]))): m for m in gen.data_model(backend)}


def _mt(ty: str, name: str, **kw) -> Dict[str, Any]:
    return dict({"metadata_type": "add_method_type_info", "type_string": ty, "method_name": name}, **kw)


# ---------------------------------------------------------------- (c) interdependent metadata
def dependent_bundles(backend: str) -> List[Dict[str, Any]]:
    """label, metadata-free query, items in their canonical order, and how many of the re-orderings to try."""
    dm = _dm(backend)
    collA = dm[(gen.COLL_MD[backend], "CollA")]
    collB = dm[(gen.COLL_MD[backend], "CollB")]
    twice = dm[("add_cpp_function", "twice")]
    thrice = {"metadata_type": "add_cpp_function", "name": "thrice", "include_files": ["mdl/fn.h", "mdl/fn3.h"], "arguments": ["y"], "code": ["double r3 = y*3;"], "result_name": "r3", "return_type": "double"}
    scaled = dm[("add_cpp_function", "scaled")]
    color = {"metadata_type": "define_enum", "namespace": "mdlns", "name": "Color", "values": ["Red", "Blue", "Green"]}
    color2 = {"metadata_type": "define_enum", "namespace": "mdlns", "name": "Color", "values": ["Red", "Blue"]}
    kind = {"metadata_type": "define_enum", "namespace": "xns.sub", "name": "Kind", "values": ["Kzero", "Kone"]}
    col = _mt("mdl::A", "col", return_type="mdlns::Color")
    col_tree = _mt("mdl::A", "col", return_type="mdlns::Color", tree_type="short")
    knd = _mt("mdl::A", "knd", return_type="xns::sub::Kind")
    a_i = _mt("mdl::A", "i", return_type="int")
    a_i2 = _mt("mdl::A", "i", return_type="double")
    a_os = _mt("mdl::A", "os", return_type_element="mdl::B*")
    b_i = _mt("mdl::B", "i", return_type="int")
    b_col = _mt("mdl::B", "col", return_type="mdlns::Color")
    s1 = {"metadata_type": "add_job_script", "name": "s1", "script": ["# script one"], "depends_on": []}
    s2 = {"metadata_type": "add_job_script", "name": "s2", "script": ["# script two"], "depends_on": ["s1"]}
    s3 = {"metadata_type": "add_job_script", "name": "s3", "script": ["# script three"], "depends_on": ["s2"]}
    s2free = dict(s2, depends_on=[])
    s2dup = dict(s2, depends_on=["s3"])
    s9 = {"metadata_type": "add_job_script", "name": "s9", "script": ["# script nine"], "depends_on": ["nowhere"]}
    blk1 = {"metadata_type": "inject_code", "name": "blk1", "body_includes": ["blk1.h"], "private_members": ["int m_blk1;"], "link_libraries": ["lib1"]}
    blk2 = {"metadata_type": "inject_code", "name": "blk2", "body_includes": ["blk2.h"], "header_includes": ["blk2_h.h"], "ctor_lines": ["m_x = 0;"]}
    blk1x = dict(blk1, body_includes=["other.h"])

    jets = 'SelectMany(EventDataset("ds"), lambda e: e.CollA("a"))'
    q_col = P(f"Select({jets}, lambda j: j.col())")
    q_col_seq = P('Select(EventDataset("ds"), lambda e: (e.CollA("a").Select(lambda j: j.col()), e.CollA("a").Select(lambda j: j.knd())))')
    q_col_cut = P(f"Select(Where({jets}, lambda j: j.col() == mdlns.Color.Red), lambda j: j.d())")
    q_i_cut = P(f"Select(Where({jets}, lambda j: j.i() == mdlns.Color.Blue), lambda j: (j.i(), j.d()))")
    q_fn = P(f"Select({jets}, lambda j: twice(j.d()) + thrice(j.f()))")
    q_mix = P(f"Select(Where({jets}, lambda j: j.col() != mdlns.Color.Green), lambda j: (twice(j.d()), j.scaled(2), j.col()))")
    q_elem = P(f"Select(SelectMany({jets}, lambda j: j.os()), lambda k: (k.i(), k.col()))")
    q_plain = P(f"Select({jets}, lambda j: j.d())")
    q_i = P(f"Select({jets}, lambda j: j.i() / 2)")

    B = [
        ("enum+method", q_col, [collA, color, col], 0),
        ("enum+method+tree_type", q_col, [collA, color, col_tree], 0),
        ("two-enums+methods", q_col_seq, [collA, color, kind, col, knd], 10),
        ("enum+method+cut", q_col_cut, [collA, color, col], 0),
        ("enum+int-method+cut", q_i_cut, [collA, color, a_i], 0),
        ("enum-twice+method", q_col, [collA, color, col, color2], 8),
        ("functions+calls", q_fn, [collA, twice, thrice], 0),
        ("collections+element-methods", q_elem, [collA, collB, a_os, b_i, color, b_col], 10),
        ("scripts-chain", q_plain, [collA, s1, s2, s3], 0),
        ("scripts-chain+duplicate", q_plain, [collA, s1, s2, s3, s2dup], 10),
        ("scripts-independent", q_plain, [collA, s1, s2free], 0),
        ("scripts-missing-dependency", q_plain, [collA, s1, s9], 0),
        ("inject-blocks", q_plain, [collA, blk1, blk2, blk1], 0),
        ("inject-conflict", q_plain, [collA, blk1, blk1x], 0),
        ("method-redeclared", q_i, [collA, a_i, a_i2], 0),
        ("everything", q_mix, [collA, color, col, twice, scaled, s1, s2, blk1], 12),
    ]
    return [{"label": l, "q": q, "mds": m, "sample": k} for l, q, m, k in B]


def orders(rng, n: int, sample: int) -> List[List[int]]:
    """all re-orderings of n items when there are at most 24, otherwise (or with sample > 0) a sample; identity first"""
    ident = list(range(n))
    if sample == 0 and n <= 4:
        return [list(p) for p in itertools.permutations(ident)]
    out = [ident, ident[::-1]]
    for i in range(n - 1):  # every adjacent transposition: the smallest change of order
        p = list(ident)
        p[i], p[i + 1] = p[i + 1], p[i]
        out.append(p)
    while len(out) < 2 + (n - 1) + sample:
        p = list(ident)
        rng.shuffle(p)
        out.append(p)
    seen, res = set(), []
    for p in out:
        if tuple(p) not in seen:
            seen.add(tuple(p))
            res.append(p)
    return res


def place_order(rng, q: T.Term, mdt: List[T.Term], order: List[int], mode: str) -> T.Term:
    """the items in extraction order `order`, all at the dataset ('bottom'), all at the root ('top'), or spread over the
    chain and the streams inside lambda bodies with that extraction order kept ('spread')"""
    items = [mdt[i] for i in order]
    sp, inner = Vr.md_positions(q)
    if mode == "bottom":
        paths = [sp[-1]] * len(items)
    elif mode == "top":
        paths = [sp[0]] * len(items)
    else:
        pool = sp * 3 + inner
        paths = sorted(rng.choice(pool) for _ in items)
    return Vr.attach(q, list(zip(paths, items)))


def script_blocks(mds: List[Dict[str, Any]]) -> List[List[Any]]:
    """the job script blocks of a metadata list, in list order: [name, lines, dependencies] (Lean `SBlk`)"""
    return [[str(m["name"]), [str(x) for x in m["script"]], [str(x) for x in m.get("depends_on", [])]] for m in mds if m.get("metadata_type") == "add_job_script"]


# ---------------------------------------------------------------- (b) the same text in nested scopes
TESTS = [
    ("plugin-method", "{x}.scaled(2) > 0.9", ["scaled"]),
    ("plugin-function", "twice({x}.d()) > 0.9", ["twice"]),
    ("method", "{x}.d() > 0.9", []),
    ("typed-method", "{x}.i() > 1", ["mdl::A.i"]),
    ("subscript", "{x}.vs()[0] > 0.9", ["mdl::A.vs"]),
    ("math", "sin({x}.d()) > 0.5", []),
    ("enum", "{x}.i() == mdlns.Color.Red", ["mdl::A.i", "Color"]),
    ("plugin-method-arith", "{x}.scaled(2) + {x}.scaled(3) > 0.9", ["scaled"]),
]
VALUES = [
    ("plugin-method", "{x}.scaled(2)", ["scaled"]),
    ("plugin-function", "twice({x}.d())", ["twice"]),
    ("method", "{x}.d()", []),
    ("if", "{x}.d() if {x}.scaled(2) > 1 else 0.5", ["scaled"]),
]
NESTS = [
    # (label, source with {T(name)} holes written as {T:<name>}, binder slots)
    ("where-then-inner-where", 'Select(EventDataset("ds"), lambda e: e.CollA("a").Where(lambda {o}: {T:o}).Select(lambda {o2}: e.CollA("b").Where(lambda {i}: {T:i}).Count()))', "T"),
    ("select-of-inner-where", 'Select(EventDataset("ds"), lambda e: e.CollA("a").Select(lambda {o}: e.CollA("b").Where(lambda {i}: {T:i}).Count() + e.CollA("c").Where(lambda {o2}: {T:o2}).Count()))', "T"),
    ("many-then-inner", 'Select(SelectMany(Where(SelectMany(EventDataset("ds"), lambda e: e.CollB("b")), lambda {o}: {o}.i() > 0), lambda {o2}: {o2}.os().Where(lambda {i}: {T:i})), lambda {i2}: {i2}.d())', "T"),
    ("value-plus-inner-sum", 'Select(EventDataset("ds"), lambda e: e.CollA("a").Select(lambda {o}: {T:o} + e.CollA("b").Select(lambda {i}: {T:i}).Sum()))', "V"),
    ("value-then-inner-value", 'Select(EventDataset("ds"), lambda e: (e.CollA("a").Select(lambda {o}: {T:o}), e.CollA("b").Select(lambda {o2}: e.CollA("c").Select(lambda {i}: {T:i}).Count())))', "V"),
]


def _fill(src: str, tmpl: str, names: Dict[str, str]) -> T.Term:
    out = src
    for slot, n in names.items():
        out = out.replace("{T:" + slot + "}", "(" + tmpl.format(x=n) + ")").replace("{" + slot + "}", n)
    return P(out)


def echo_cases(backend: str) -> List[Dict[str, Any]]:
    """base: every binder its own name; variants: the inner binder spelled like the outer one (shadowing), all binders
    spelled the same, and a third spelling — all alpha-variants of the base."""
    dm = _dm(backend)
    collA = dm[(gen.COLL_MD[backend], "CollA")]
    collB = dm[(gen.COLL_MD[backend], "CollB")]
    color = gen.enum_model()[0]
    out = []
    for nlabel, src, which in NESTS:
        for tlabel, tmpl, needs in TESTS if which == "T" else VALUES:
            base_names = {"o": "j", "o2": "j2", "i": "k", "i2": "k2"}
            q = _fill(src, tmpl, base_names)
            mds = [collA] + ([collB] if "CollB" in src else [])
            for n in needs:
                if n == "Color":
                    mds.append(color)
                elif ("add_cpp_function", n) in dm:
                    mds.append(dm[("add_cpp_function", n)])
                else:
                    mds.append(dm[("add_method_type_info", n)])
            if "os()" in src:
                mds.append(dm[("add_method_type_info", "mdl::B.os")])
                mds.append(dm[("add_method_type_info", "mdl::B.i")])
            vs = []
            for vlabel, names in (
                ("inner-shadows-outer", {"o": "j", "o2": "j", "i": "j", "i2": "j"}),
                ("inner-only", {"o": "j", "o2": "q", "i": "j", "i2": "q"}),
                ("outer-reused", {"o": "j", "o2": "j", "i": "k", "i2": "k"}),
                ("all-like-event", {"o": "e1", "o2": "e1", "i": "e1", "i2": "e1"}),
            ):
                vs.append((vlabel, _fill(src, tmpl, names)))
            out.append({"label": f"{nlabel}/{tlabel}", "q": q, "mds": mds, "variants": vs})
    return out


# ---------------------------------------------------------------- (d) chains the simplifier leaves alone
STEPS = [
    ("scalar", "Select", "lambda s: s / 1000.0", "lambda g: g + 1.0", "vs"),
    ("scalar-call", "Select", "lambda s: twice(s)", "lambda g: g * 2", "vs"),
    ("object-method", "Select", "lambda s: s.d()", "lambda g: g + 1.0", "os"),
    ("object-tuple", "Select", "lambda s: (s.d(), s.i())", "lambda g: g[0] + g[1]", "os"),
    ("where", "Where", "lambda s: s > 1.0", "lambda g: g < 50.0", "vs"),
    ("where-object", "Where", "lambda s: s.d() > 1.0", "lambda g: g.i() > 0", "os"),
]
PLACES = [
    # the chained steps sit in `{C}`; `{x}` is the object whose sub-collection they run over
    ("second-of-two-SelectMany", 'SelectMany(SelectMany(EventDataset("ds"), lambda e: e.CollB("b")), lambda x: {C})'),
    ("second-of-two-SelectMany-then-Select", 'Select(SelectMany(SelectMany(EventDataset("ds"), lambda e: e.CollB("b")), lambda x: {C}), lambda r: r)'),
    ("inner-second-of-two-SelectMany", 'Select(EventDataset("ds"), lambda e: e.CollB("b").SelectMany(lambda y: y.os()).SelectMany(lambda w: w.os()).SelectMany(lambda x: {C}).Count())'),
    ("plain-lambda (control: fused by func_adl)", 'Select(SelectMany(EventDataset("ds"), lambda e: e.CollB("b")), lambda x: {C}.Count())'),
]


def fuse_left_cases(backend: str) -> List[Dict[str, Any]]:
    dm = _dm(backend)
    out = []
    for plabel, place in PLACES:
        for slabel, op, f, g, coll in STEPS:
            elem_obj = coll == "os"
            chain = f"{op}({op}(x.{coll}(), {f}), {g})"
            src = place.replace("{C}", chain)
            if plabel.startswith("second-of-two-SelectMany") and elem_obj and op == "Where":
                # objects cannot be written to a tree: project the survivors
                src = place.replace("{C}", f"Select({chain}, lambda t: t.d())")
            if plabel.startswith("second-of-two-SelectMany") and elem_obj and op == "Select" and slabel == "object-tuple":
                pass
            q = P(src)
            mds = [dm[(gen.COLL_MD[backend], "CollB")], dm[("add_method_type_info", "mdl::B.os")], dm[("add_method_type_info", "mdl::B.vs")], dm[("add_method_type_info", "mdl::A.os")], dm[("add_method_type_info", "mdl::A.vs")], dm[("add_method_type_info", "mdl::A.i")], dm[("add_method_type_info", "mdl::B.i")]]
            if "twice" in src:
                mds.append(dm[("add_cpp_function", "twice")])
            out.append({"label": f"{plabel}/{slabel}", "q": q, "mds": mds, "op": op})
    return out


# ---------------------------------------------------------------- (b) doubly crossing shadowing
# Four (or five) nested lambdas; the names of the OUTER binders are used again AFTER the inner lambdas.  The variants
# re-bind both outer names at different inner levels (`lambda e: .. lambda j: .. lambda e: .. lambda j: ..` with a use of
# the outer j behind the innermost lambda): a frame that is not pushed, or a binding that outlives its lambda, shows only
# with two crossing levels of hiding.  Binder slots {b0} {b1} ..; A.os() are B objects, B.os() are A objects.
CROSS = [
    ("where-where-use-after", ["ev", "A", "B", "A"],
     'Select(EventDataset("ds"), lambda {b0}: {b0}.CollA("a").Select(lambda {b1}: {b1}.os().Where(lambda {b2}: {b2}.os().Where(lambda {b3}: {b3}.i() > 0).Count() > 2 and {b2}.d() < {b1}.d()).Count()))'),
    ("select-select-use-after", ["ev", "A", "B", "A"],
     'Select(EventDataset("ds"), lambda {b0}: {b0}.CollA("a").Select(lambda {b1}: {b1}.os().Select(lambda {b2}: {b2}.os().Select(lambda {b3}: {b3}.d() * 2).Sum() + {b2}.d() + {b1}.d()).Sum() + {b0}.CollB("b").Count()))'),
    ("columns-use-after", ["ev", "A", "B", "A"],
     'Select(SelectMany(EventDataset("ds"), lambda {b0}: {b0}.CollA("a")), lambda {b1}: ({b1}.os().Where(lambda {b2}: {b2}.os().Select(lambda {b3}: {b3}.d()).Sum() > {b2}.d()).Count(), {b1}.d()))'),
    ("five-deep", ["ev", "A", "B", "A", "B"],
     'Select(EventDataset("ds"), lambda {b0}: {b0}.CollA("a").Select(lambda {b1}: {b1}.os().Where(lambda {b2}: {b2}.os().Where(lambda {b3}: {b3}.os().Where(lambda {b4}: {b4}.i() > 1).Count() > {b3}.i()).Count() > {b2}.i() and {b2}.d() < {b1}.d()).Count() + {b0}.CollA("c").Count()))'),
    ("top-level-chain", ["ev", "A", "B", "A"],
     'Select(SelectMany(EventDataset("ds"), lambda {b0}: {b0}.CollA("a")), lambda {b1}: {b1}.os().Where(lambda {b2}: {b2}.os().Where(lambda {b3}: {b3}.i() > 0).Count() > 2 and {b2}.d() < {b1}.d()).Count())'),
]
CROSS_POOL = ["e", "j", "t", "h", "m"]


def cross_cases(backend: str, rng, per_shape: Optional[int]) -> List[Dict[str, Any]]:
    """base: every binder its own name; variants: EVERY assignment of names from the pool to the binders that is an
    alpha-variant of the base (checked on the de Bruijn forms), or `per_shape` of them — those that re-use the most
    names first (the doubly crossing ones), the rest sampled."""
    dm = _dm(backend)
    mds = [dm[(gen.COLL_MD[backend], "CollA")], dm[(gen.COLL_MD[backend], "CollB")]] + [dm[("add_method_type_info", f"mdl::{c}.{m}")] for c in "AB" for m in ("os", "i")]
    out = []
    for label, kinds, src in CROSS:
        k = len(kinds)
        pool = CROSS_POOL[:k]
        fill = lambda names: P(src.format(**{f"b{i}": n for i, n in enumerate(names)}))  # noqa: E731
        base = fill(pool)
        ref = T.debruijn(base)
        valid = []
        for names in itertools.product(pool, repeat=k):
            if list(names) == pool:
                continue
            firsts = [n for i, n in enumerate(names) if n not in names[:i]]
            if firsts != pool[: len(firsts)]:
                continue  # one representative per pattern of re-use (new names are taken from the pool in order)
            try:
                v = fill(names)
            except Exception:
                continue
            if T.debruijn(v) == ref:
                valid.append((names, v))
        valid.sort(key=lambda nv: (len(set(nv[0])), nv[0]))  # fewest distinct names first
        if per_shape is not None and len(valid) > per_shape:
            fewest = len(set(valid[0][0]))
            head = [nv for nv in valid if len(set(nv[0])) == fewest][:per_shape]  # the patterns with the most re-use, all of them
            rest = valid[len(head):]
            valid = head + rng.sample(rest, per_shape - len(head))
        out.append({"label": label, "q": base, "mds": mds, "variants": [("/".join(n), v) for n, v in valid]})
    return out
