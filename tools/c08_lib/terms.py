"""Query terms shared by the Python harness and the Lean model (FaxVerif/C08/Model.lean `Q`).

A term is a nested tuple:
  ('v', name)                 ast.Name
  ('c', text)                 ast.Constant; text = '<type>:<repr>'  (int:1, float:1.5, str:'a', bool:True, none:None)
  ('l', (p1, p2, ..), body)   ast.Lambda (positional parameters only)
  ('a', func, (arg, ..))      ast.Call   (no keywords)
  ('n', tag, (kid, ..))       every other expression node; tag says which:
        attr:<name> [value] | bin:<Op> [l, r] | un:<Op> [operand] | cmp:<Op>(+<Op>..) [l, r, ..] | bool:<Op> [v1, v2, ..]
        if [test, body, orelse] | tuple [..] | list [..] | dict [k1, .., kn, v1, .., vn] | sub [value, slice]
Children are listed in the order in which Python's `ast.NodeVisitor.generic_visit` visits them
(so a pre-order walk of a term meets MetaData calls in the order `extract_metadata` does).
"""
from __future__ import annotations

import ast
from typing import Any, Dict, Iterable, List, Tuple

Term = Tuple[Any, ...]


class Unrepresentable(Exception):
    pass


def V(x: str) -> Term:
    return ("v", x)


def C(val: Any) -> Term:
    if val is None:
        return ("c", "none:None")
    return ("c", f"{type(val).__name__}:{val!r}")


def L(ps: Iterable[str], b: Term) -> Term:
    return ("l", tuple(ps), b)


def A(f: Term, *args: Term) -> Term:
    return ("a", f, tuple(args))


def N(tag: str, *kids: Term) -> Term:
    return ("n", tag, tuple(kids))


def call(name: str, *args: Term) -> Term:
    return A(V(name), *args)


def attr(v: Term, name: str) -> Term:
    return N("attr:" + name, v)


def meth(v: Term, name: str, *args: Term) -> Term:
    return A(attr(v, name), *args)


def const_value(t: Term) -> Any:
    assert t[0] == "c"
    k, r = t[1].split(":", 1)
    if k == "none":
        return None
    v = ast.literal_eval(r)
    if k == "float" and not isinstance(v, float):
        v = float(v)
    return v


def to_ast(t: Term) -> ast.expr:
    k = t[0]
    if k == "v":
        return ast.Name(id=t[1], ctx=ast.Load())
    if k == "c":
        return ast.Constant(value=const_value(t), kind=None)
    if k == "l":
        return ast.Lambda(
            args=ast.arguments(posonlyargs=[], args=[ast.arg(arg=p, annotation=None) for p in t[1]], vararg=None, kwonlyargs=[], kw_defaults=[], kwarg=None, defaults=[]),
            body=to_ast(t[2]),
        )
    if k == "a":
        return ast.Call(func=to_ast(t[1]), args=[to_ast(x) for x in t[2]], keywords=[])
    tag, kids = t[1], t[2]
    ks = [to_ast(x) for x in kids]
    if tag.startswith("attr:"):
        return ast.Attribute(value=ks[0], attr=tag[5:], ctx=ast.Load())
    if tag.startswith("bin:"):
        return ast.BinOp(left=ks[0], op=getattr(ast, tag[4:])(), right=ks[1])
    if tag.startswith("un:"):
        return ast.UnaryOp(op=getattr(ast, tag[3:])(), operand=ks[0])
    if tag.startswith("cmp:"):
        return ast.Compare(left=ks[0], ops=[getattr(ast, o)() for o in tag[4:].split("+")], comparators=ks[1:])
    if tag.startswith("bool:"):
        return ast.BoolOp(op=getattr(ast, tag[5:])(), values=ks)
    if tag == "if":
        return ast.IfExp(test=ks[0], body=ks[1], orelse=ks[2])
    if tag == "tuple":
        return ast.Tuple(elts=ks, ctx=ast.Load())
    if tag == "list":
        return ast.List(elts=ks, ctx=ast.Load())
    if tag == "dict":
        n = len(ks) // 2
        return ast.Dict(keys=ks[:n], values=ks[n:])
    if tag == "sub":
        return ast.Subscript(value=ks[0], slice=ks[1], ctx=ast.Load())
    raise Unrepresentable(tag)


def from_ast(a: ast.AST) -> Term:
    """Python AST -> term.  Nodes the model has no constructor for raise Unrepresentable."""
    if isinstance(a, ast.Module):
        if len(a.body) != 1 or not isinstance(a.body[0], ast.Expr):
            raise Unrepresentable("module")
        return from_ast(a.body[0].value)
    if isinstance(a, ast.Name):
        return V(a.id)
    if isinstance(a, ast.Constant):
        return C(a.value)
    if isinstance(a, ast.Lambda):
        g = a.args
        if g.vararg or g.kwarg or g.kwonlyargs or g.defaults or getattr(g, "posonlyargs", []):
            raise Unrepresentable("lambda arguments")
        return L([x.arg for x in g.args], from_ast(a.body))
    if isinstance(a, ast.Call):
        if a.keywords:
            raise Unrepresentable("keywords")
        return A(from_ast(a.func), *[from_ast(x) for x in a.args])
    if isinstance(a, ast.Attribute):
        return N("attr:" + a.attr, from_ast(a.value))
    if isinstance(a, ast.BinOp):
        return N("bin:" + type(a.op).__name__, from_ast(a.left), from_ast(a.right))
    if isinstance(a, ast.UnaryOp):
        return N("un:" + type(a.op).__name__, from_ast(a.operand))
    if isinstance(a, ast.Compare):
        return N("cmp:" + "+".join(type(o).__name__ for o in a.ops), from_ast(a.left), *[from_ast(x) for x in a.comparators])
    if isinstance(a, ast.BoolOp):
        return N("bool:" + type(a.op).__name__, *[from_ast(x) for x in a.values])
    if isinstance(a, ast.IfExp):
        return N("if", from_ast(a.test), from_ast(a.body), from_ast(a.orelse))
    if isinstance(a, ast.Tuple):
        return N("tuple", *[from_ast(x) for x in a.elts])
    if isinstance(a, ast.List):
        return N("list", *[from_ast(x) for x in a.elts])
    if isinstance(a, ast.Dict):
        if any(k is None for k in a.keys):
            raise Unrepresentable("dict unpacking")
        return N("dict", *([from_ast(k) for k in a.keys] + [from_ast(v) for v in a.values]))
    if isinstance(a, ast.Subscript):
        s = a.slice
        if isinstance(s, ast.Index):  # pragma: no cover (python < 3.9)
            s = s.value  # type: ignore
        return N("sub", from_ast(a.value), from_ast(s))
    raise Unrepresentable(type(a).__name__)


def to_json(t: Term) -> Any:
    k = t[0]
    if k == "v":
        return {"v": t[1]}
    if k == "c":
        return {"c": t[1]}
    if k == "l":
        return {"l": list(t[1]), "b": to_json(t[2])}
    if k == "a":
        return {"f": to_json(t[1]), "a": [to_json(x) for x in t[2]]}
    return {"n": t[1], "k": [to_json(x) for x in t[2]]}


def of_json(j: Dict[str, Any]) -> Term:
    if "v" in j:
        return V(j["v"])
    if "c" in j:
        return ("c", j["c"])
    if "l" in j:
        return L(j["l"], of_json(j["b"]))
    if "f" in j:
        return A(of_json(j["f"]), *[of_json(x) for x in j["a"]])
    return N(j["n"], *[of_json(x) for x in j["k"]])


def show(t: Term) -> str:
    try:
        return ast.unparse(to_ast(t))
    except Exception:
        return repr(t)


def parse(src: str) -> Term:
    return from_ast(ast.parse(src))


def size(t: Term) -> int:
    k = t[0]
    if k in "vc":
        return 1
    if k == "l":
        return 1 + size(t[2])
    if k == "a":
        return 1 + size(t[1]) + sum(size(x) for x in t[2])
    return 1 + sum(size(x) for x in t[2])


def subterms(t: Term):
    yield t
    k = t[0]
    if k == "l":
        yield from subterms(t[2])
    elif k == "a":
        yield from subterms(t[1])
        for x in t[2]:
            yield from subterms(x)
    elif k == "n":
        for x in t[2]:
            yield from subterms(x)


def is_call_of(t: Term, name: str) -> bool:
    return t[0] == "a" and t[1] == ("v", name)


# ---------------------------------------------------------------- names
def free_vars(t: Term, bound: Tuple[str, ...] = ()) -> List[str]:
    out: List[str] = []

    def go(t, bound):
        k = t[0]
        if k == "v":
            if t[1] not in bound and t[1] not in out:
                out.append(t[1])
        elif k == "l":
            go(t[2], bound + tuple(t[1]))
        elif k == "a":
            go(t[1], bound)
            for x in t[2]:
                go(x, bound)
        elif k == "n":
            for x in t[2]:
                go(x, bound)

    go(t, bound)
    return out


def all_names(t: Term) -> List[str]:
    out: List[str] = []
    for s in subterms(t):
        if s[0] == "v" and s[1] not in out:
            out.append(s[1])
        if s[0] == "l":
            for p in s[1]:
                if p not in out:
                    out.append(p)
    return out


def debruijn(t: Term, ctx: Tuple[str, ...] = ()) -> Any:
    """Python twin of Lean `resolve` (innermost binder = index 0; last parameter of a lambda is innermost)."""
    k = t[0]
    if k == "v":
        for i, n in enumerate(ctx):
            if n == t[1]:
                return ("b", i)
        return ("f", t[1])
    if k == "c":
        return t
    if k == "l":
        return ("l", len(t[1]), debruijn(t[2], tuple(reversed(t[1])) + ctx))
    if k == "a":
        return ("a", debruijn(t[1], ctx), tuple(debruijn(x, ctx) for x in t[2]))
    return ("n", t[1], tuple(debruijn(x, ctx) for x in t[2]))


def subst_free(t: Term, x: str, r: Term) -> Term:
    """Capture-avoiding substitution t[x := r]; raises ValueError where a binder would capture a free name of r."""
    fr = free_vars(r)

    def go(t):
        k = t[0]
        if k == "v":
            return r if t[1] == x else t
        if k == "c":
            return t
        if k == "l":
            if x in t[1]:
                return t
            if x in free_vars(t[2]) and any(p in fr for p in t[1]):
                raise ValueError("capture")
            return ("l", t[1], go(t[2]))
        if k == "a":
            return ("a", go(t[1]), tuple(go(a) for a in t[2]))
        return ("n", t[1], tuple(go(a) for a in t[2]))

    return go(t)


def count_free(t: Term, x: str) -> int:
    k = t[0]
    if k == "v":
        return 1 if t[1] == x else 0
    if k == "c":
        return 0
    if k == "l":
        return 0 if x in t[1] else count_free(t[2], x)
    if k == "a":
        return count_free(t[1], x) + sum(count_free(a, x) for a in t[2])
    return sum(count_free(a, x) for a in t[2])
