"""Running the REAL translation pipeline (executor.apply_ast_transformations + write_cpp_files) on a term,
and lexing the generated package for the comparison "equal up to the numbering of generated names"."""
from __future__ import annotations

import logging
import re
import shutil
import tempfile
from pathlib import Path
from typing import Any, Dict, List, Optional, Tuple

from . import terms as T

BACKENDS = ["atlas", "cms_aod", "cms_miniaod"]
_EXE: Dict[str, Any] = {}


def _executor(backend: str):
    if not _EXE:
        from func_adl_xAOD.atlas.xaod.executor import atlas_xaod_executor
        from func_adl_xAOD.cms.aod.executor import cms_aod_executor
        from func_adl_xAOD.cms.miniaod.executor import cms_miniaod_executor

        _EXE.update({"atlas": atlas_xaod_executor, "cms_aod": cms_aod_executor, "cms_miniaod": cms_miniaod_executor})
        logging.disable(logging.CRITICAL)
    return _EXE[backend]()


def err_class(e: BaseException) -> str:
    return type(e).__name__


def run_ast(a, backend: str) -> Dict[str, Any]:
    """{'ok': {file name: text}} or {'err': exception class, 'stage': 'transform'|'write', 'msg': ...}."""
    exe = _executor(backend)
    d = Path(tempfile.mkdtemp(prefix="c08_"))
    stage = "transform"
    try:
        a2 = exe.apply_ast_transformations(a)
        stage = "write"
        info = exe.write_cpp_files(a2, d)
        return {"ok": {f: (d / f).read_text() for f in info.all_filenames}}
    except RecursionError:
        return {"err": "RecursionError", "stage": stage, "msg": ""}
    except Exception as e:  # the property compares refusals by class
        return {"err": err_class(e), "stage": stage, "msg": str(e)[:300]}
    finally:
        shutil.rmtree(d, ignore_errors=True)
        try:
            # harness hygiene: a failed translation skips reset() in the code under test (that is C07's
            # subject); the cases of this check must not influence each other
            exe.reset()
        except Exception:
            pass
        try:
            # the namespaces a query declares (define_enum) stay in a module-level table of the code under test
            # (C07's subject, a listed finding there); a case of this check must see only its own declarations,
            # so that a replay file reproduces on its own
            import func_adl_xAOD.common.cpp_types as ctyp

            ctyp.g_toplevel_ns.clear()
        except Exception:
            pass


def run_term(t: T.Term, backend: str) -> Dict[str, Any]:
    return run_ast(T.to_ast(t), backend)


_QCACHE: Dict[str, Any] = {}


def qastle_parse(text: str):
    """qastle's parser (the Earley parse costs ~50 us per character: one parse per text)."""
    import copy

    import qastle

    if text not in _QCACHE:
        if len(_QCACHE) > 64:
            _QCACHE.clear()
        _QCACHE[text] = qastle.text_ast_to_python_ast(text).body[0].value
    return copy.deepcopy(_QCACHE[text])


def run_qastle_text(text: str, backend: str) -> Dict[str, Any]:
    try:
        a = qastle_parse(text)
    except Exception as e:
        return {"err": err_class(e), "stage": "qastle-parse", "msg": str(e)[:300]}
    return run_ast(a, backend)


# ---------------------------------------------------------------- lexing
GEN, DIAG, DIAG_GEN = "\x01", "\x02", "\x03"
_TOK = re.compile(r'[A-Za-z_][A-Za-z_0-9]*|[0-9]+(?:\.[0-9]+)?(?:[eE][-+]?[0-9]+)?|"(?:[^"\\\n]|\\.)*"|\'(?:[^\'\\\n]|\\.)*\'|\n|[^\sA-Za-z_0-9]')
_GENNAME = re.compile(r"^[A-Za-z_]*[A-Za-z_][0-9]+$")
_DECL = re.compile(r"^\s*[A-Za-z_][A-Za-z_0-9:<>,\*&\s]*?[\s\*&>]([A-Za-z_][A-Za-z_0-9]*)\s*(\(.*\))?;\s*$")
_FOR = re.compile(r"for\s*\(\s*auto\s*&&\s*([A-Za-z_][A-Za-z_0-9]*)\s*:")
_LAMBDA = re.compile(r"lambda\s+([A-Za-z_][A-Za-z_0-9]*(?:\s*,\s*[A-Za-z_][A-Za-z_0-9]*)*)\s*:")
_ARGN = re.compile(r"\barg_[0-9]+\b")
DIAG_PREFIX = '"First() called on an empty sequence ('


def declared_names(files: Dict[str, str]) -> List[str]:
    """Identifier tokens <letters/underscores><digits> that occur in a declaring position somewhere in the package:
    block/class declaration `T name;` / `T name (init);`, loop variable `for (auto &&name :`, or a lambda
    parameter inside the First() diagnostic (func_adl's generated arg_N)."""
    out: List[str] = []

    def add(n: str):
        if _GENNAME.match(n) and n not in out:
            out.append(n)

    for text in files.values():
        for line in text.split("\n"):
            m = _DECL.match(line)
            if m and not line.lstrip().startswith(("return", "throw", "using", "typedef", "delete", "#")):
                add(m.group(1))
            for m in _FOR.finditer(line):
                add(m.group(1))
            if DIAG_PREFIX in line:
                for m in _LAMBDA.finditer(line):
                    for p in m.group(1).split(","):
                        add(p.strip())
                # func_adl's generated parameter names also occur free in the embedded text (their lambda is outside it)
                for m in _ARGN.finditer(line[line.index(DIAG_PREFIX) :]):
                    add(m.group(0))
    return out


def lex_package(files: Dict[str, str]) -> List[str]:
    """One token list for the whole package (files in name order, each introduced by a `<<file>>` token).
    Generated names carry the GEN prefix; tokens inside the First() diagnostic's embedded query text carry
    DIAG (plain) or DIAG_GEN (generated name)."""
    gen = set(declared_names(files))
    out: List[str] = []
    for fn in sorted(files):
        out.append("<<" + fn + ">>")
        for tok in _TOK.findall(files[fn]):
            if tok.startswith(DIAG_PREFIX):
                out.append(DIAG_PREFIX)
                inner = tok[len(DIAG_PREFIX) :]
                for t2 in _TOK.findall(inner):
                    out.append((DIAG_GEN if t2 in gen else DIAG) + t2)
            elif tok in gen:
                out.append(GEN + tok)
            else:
                out.append(tok)
    return out


def lex_result(r: Dict[str, Any]) -> Dict[str, Any]:
    if "ok" in r:
        return {"ok": lex_package(r["ok"])}
    return {"err": r["err"]}


# Python twin of Lean `canon` (used only for shrinking/debug output; the verdict is Lean's)
def canon_py(tokens: List[str], masked: bool) -> List[str]:
    seen: Dict[str, int] = {}
    out: List[str] = []
    for t in tokens:
        k = t[:1]
        if k in (DIAG, DIAG_GEN) and masked:
            continue
        if k in (GEN, DIAG_GEN):
            n = t[1:]
            if n not in seen:
                seen[n] = len(seen)
            out.append(n.rstrip("0123456789") + "#" + str(seen[n]))
        elif k == DIAG:
            out.append(t[1:])
        else:
            out.append(t)
    return out
