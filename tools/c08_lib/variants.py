"""Mechanical producers of the variants the property quantifies over:
   metadata placement, alpha-renaming (deliberately creating shadowing), fusing/unfusing of chained
   Select/Where steps, qastle round trip, call style."""
from __future__ import annotations

from typing import Any, Dict, List, Optional, Tuple

from . import terms as T
from .terms import A, C, L, N, V, call

Path = Tuple[int, ...]
# a path step: -1 = function position of a call, i>=0 = i-th argument / i-th child / 0 = lambda body
SEQ_OPS = ("Select", "Where", "SelectMany")
COLL_METHODS = ("CollA", "CollB", "Jets", "os", "vs")


def children(t: T.Term) -> List[Tuple[int, T.Term]]:
    k = t[0]
    if k == "l":
        return [(0, t[2])]
    if k == "a":
        return [(-1, t[1])] + list(enumerate(t[2]))
    if k == "n":
        return list(enumerate(t[2]))
    return []


def get_at(t: T.Term, p: Path) -> T.Term:
    for s in p:
        t = dict(children(t))[s]
    return t


def replace_at(t: T.Term, p: Path, f) -> T.Term:
    if not p:
        return f(t)
    s, rest = p[0], p[1:]
    k = t[0]
    if k == "l":
        return ("l", t[1], replace_at(t[2], rest, f))
    if k == "a":
        if s == -1:
            return ("a", replace_at(t[1], rest, f), t[2])
        return ("a", t[1], tuple(replace_at(x, rest, f) if i == s else x for i, x in enumerate(t[2])))
    return ("n", t[1], tuple(replace_at(x, rest, f) if i == s else x for i, x in enumerate(t[2])))


def all_paths(t: T.Term, p: Path = ()) -> List[Tuple[Path, T.Term]]:
    out = [(p, t)]
    for s, c in children(t):
        out += all_paths(c, p + (s,))
    return out


def op_parts(t: T.Term) -> Optional[Tuple[str, T.Term, Tuple[T.Term, ...], str]]:
    """(operator name, source, other args, style) for `Op(src, ..)` / `src.Op(..)`."""
    if t[0] != "a":
        return None
    f = t[1]
    if f[0] == "v" and t[2]:
        return f[1], t[2][0], t[2][1:], "call"
    if f[0] == "n" and f[1].startswith("attr:"):
        return f[1][5:], f[2][0], t[2], "method"
    return None


def mk_op(name: str, src: T.Term, args: Tuple[T.Term, ...], style: str) -> T.Term:
    if style == "method":
        return T.meth(src, name, *args)
    return call(name, src, *args)


# ---------------------------------------------------------------- metadata placement
def is_stream(t: T.Term) -> bool:
    if T.is_call_of(t, "EventDataset"):
        return True
    o = op_parts(t)
    if o is None:
        return False
    return (o[0] in SEQ_OPS) or (o[3] == "method" and o[0] in COLL_METHODS)


def spine(t: T.Term) -> List[Path]:
    """Top-level chain positions, outermost first."""
    out: List[Path] = []
    p: Path = ()
    while True:
        out.append(p)
        if T.is_call_of(t, "EventDataset"):
            return out
        o = op_parts(t)
        if o is None:
            return out
        if o[3] == "call":
            p, t = p + (0,), o[1]
        else:
            p, t = p + (-1, 0), o[1]


def md_positions(q: T.Term) -> Tuple[List[Path], List[Path]]:
    """(top-level chain positions, positions of streams inside lambda bodies)"""
    sp = spine(q)
    inner = [p for p, s in all_paths(q) if p not in sp and is_stream(s) and not _inside_md_dict(q, p)]
    return sp, inner


def _inside_md_dict(q: T.Term, p: Path) -> bool:
    t = q
    for i, s in enumerate(p):
        if T.is_call_of(t, "MetaData") and s != 0:
            return True
        t = dict(children(t))[s]
    return False


def wrap_md(t: T.Term, md: T.Term) -> T.Term:
    return call("MetaData", t, md)


def attach(q: T.Term, placements: List[Tuple[Path, T.Term]]) -> T.Term:
    """Wrap MetaData calls at the given paths of the metadata-free query q.  Items are taken in list order =
    extraction order (outermost first); the list must be sorted by path in pre-order; items sharing a path are nested with
    the earlier one outside."""
    for p, md in reversed(placements):
        q = replace_at(q, p, lambda s, md=md: wrap_md(s, md))
    return q


def place(rng, q: T.Term, mds: List[T.Term], mode: str) -> T.Term:
    """mode: 'top' all at the root | 'bottom' all at the dataset | 'spread' random chain positions keeping the
    relative (extraction) order of the items | 'free' random positions and random order."""
    sp, inner = md_positions(q)
    if mode == "top":
        paths = [sp[0]] * len(mds)
    elif mode == "bottom":
        paths = [sp[-1]] * len(mds)
    else:
        pool = sp * 4 + inner
        paths = [rng.choice(pool) for _ in mds]
    items = list(mds)
    if mode == "free":
        rng.shuffle(items)
    paths.sort()
    return attach(q, list(zip(paths, items)))


def strip_py(q: T.Term) -> Tuple[T.Term, List[T.Term]]:
    """Python twin of Lean `strip` / func_adl `extract_metadata` (used by the shrinker only)."""
    mds: List[T.Term] = []

    def go(t):
        k = t[0]
        if k == "a":
            if T.is_call_of(t, "MetaData") and len(t[2]) >= 2:
                mds.append(t[2][1])
                return go(t[2][0])
            f = go(t[1])
            return ("a", f, tuple(go(x) for x in t[2]))
        if k == "l":
            return ("l", t[1], go(t[2]))
        if k == "n":
            return ("n", t[1], tuple(go(x) for x in t[2]))
        return t

    r = go(q)
    return r, mds


# ---------------------------------------------------------------- alpha renaming
POOL = ["x", "y", "e", "j", "t", "jet", "v", "acc"]


GROUP_WEIGHTS = {"namespace": 5.0, "namespace-member": 1.5, "plugin": 2.0, "operator": 1.5, "function": 1.0, "cpp": 1.0, "wire": 1.0, "ordinary": 3.0}


def global_groups(names: Dict[str, List[str]]) -> List[Tuple[float, List[str]]]:
    """Weighted name groups for `rename`: the spellings that mean something to the pipeline as FREE names
    (gen.global_names) plus the ordinary pool, so that one variant mixes both."""
    gs = [(GROUP_WEIGHTS.get(k, 1.0), list(v)) for k, v in names.items() if v]
    return gs + [(GROUP_WEIGHTS["ordinary"], list(POOL))]


def local_words(body: T.Term, related: Dict[str, List[str]]) -> List[str]:
    """Spellings that are 'near' a lambda body: the attribute and function names it uses and, for the declared things
    among them (plug-in functions, enums), the words of their declaration (argument/result/instance names, members)."""
    out: List[str] = []
    for s in T.subterms(body):
        n = s[1][5:] if s[0] == "n" and s[1].startswith("attr:") else s[1] if s[0] == "v" else None
        if n is not None:
            for w in [n] + related.get(n, []):
                if w not in out:
                    out.append(w)
    return out


def rename(
    rng,
    q: T.Term,
    shadow_p: float = 0.5,
    pool: Optional[List[str]] = None,
    groups: Optional[List[Tuple[float, List[str]]]] = None,
    related: Optional[Dict[str, List[str]]] = None,
    local_p: float = 0.3,
) -> T.Term:
    """A random alpha-variant.  New parameter names are drawn from a small pool and from the names of enclosing
    binders (shadowing) whenever that cannot capture; falls back to a fresh name.  With `groups` (weight, names) the
    pool is the union of the groups and a name is drawn group first, then within the group; with `related`, a name is
    drawn with probability `local_p` from the pool names that are near the lambda's own body (`local_words`)."""
    if groups:
        pool = [n for _, g in groups for n in g]
        pool = [n for i, n in enumerate(pool) if n not in pool[:i]]
    pool = pool or POOL

    def pick(cands: List[str], body: Optional[T.Term] = None) -> str:
        if related is not None and body is not None and rng.random() < local_p:
            near = [n for n in local_words(body, related) if n in cands]
            if near:
                return rng.choice(near)
        if groups:
            live = [(w, [n for n in g if n in cands]) for w, g in groups]
            live = [(w, g) for w, g in live if g]
            if live:
                x = rng.random() * sum(w for w, _ in live)
                for w, g in live:
                    x -= w
                    if x <= 0:
                        return rng.choice(g)
                return rng.choice(live[-1][1])
        return rng.choice(cands)

    globals_ = set(T.free_vars(q))
    counter = [0]

    def fresh(avoid):
        while True:
            counter[0] += 1
            n = f"p{counter[0]}"
            if n not in avoid and n not in globals_:
                return n

    def go(t, env: Dict[str, str], scope: List[str]):
        # env: old bound name -> new name; scope: new names of enclosing binders, innermost last
        k = t[0]
        if k == "v":
            return V(env.get(t[1], t[1]))
        if k == "c":
            return t
        if k == "a":
            return ("a", go(t[1], env, scope), tuple(go(x, env, scope) for x in t[2]))
        if k == "n":
            return ("n", t[1], tuple(go(x, env, scope) for x in t[2]))
        ps, body = t[1], t[2]
        fv = [x for x in T.free_vars(body) if x not in ps]
        blocked = {env.get(x, x) for x in fv}  # names that must stay visible inside the body
        new: List[str] = []
        for p in ps:
            cands = [n for n in (pool + scope) if n not in blocked and n not in new]
            if cands and rng.random() < 0.85:
                if scope and rng.random() < shadow_p:
                    sh = [n for n in scope if n in cands]
                    n = rng.choice(sh) if sh else pick(cands, body)
                else:
                    n = pick(cands, body)
            else:
                n = fresh(blocked | set(new) | set(scope))
            new.append(n)
        env2 = dict(env)
        for p, n in zip(ps, new):
            env2[p] = n
        return ("l", tuple(new), go(body, env2, scope + new))

    r = go(q, {}, [])
    assert T.debruijn(r) == T.debruijn(q), "renamer produced a non-alpha-equivalent term"
    return r


def uniquify(q: T.Term, prefix: str = "u") -> T.Term:
    """All binders distinct (Barendregt form)."""
    n = [0]
    avoid = set(T.all_names(q))

    def go(t, env):
        k = t[0]
        if k == "v":
            return V(env.get(t[1], t[1]))
        if k == "c":
            return t
        if k == "a":
            return ("a", go(t[1], env), tuple(go(x, env) for x in t[2]))
        if k == "n":
            return ("n", t[1], tuple(go(x, env) for x in t[2]))
        new = []
        for p in t[1]:
            while True:
                n[0] += 1
                c = f"{prefix}{n[0]}"
                if c not in avoid:
                    break
            new.append(c)
        env2 = dict(env)
        env2.update(zip(t[1], new))
        return ("l", tuple(new), go(t[2], env2))

    return go(q, {})


# ---------------------------------------------------------------- fusing / unfusing
def _lam1(t: T.Term) -> Optional[Tuple[str, T.Term]]:
    if t[0] == "l" and len(t[1]) == 1:
        return t[1][0], t[2]
    return None


def fusable(q: T.Term) -> List[Tuple[Path, str]]:
    out = []
    for p, s in all_paths(q):
        o = op_parts(s)
        if o is None or o[0] not in ("Select", "Where") or len(o[2]) != 1 or _lam1(o[2][0]) is None:
            continue
        i = op_parts(o[1])
        if i is None or i[0] != o[0] or len(i[2]) != 1 or _lam1(i[2][0]) is None:
            continue
        out.append((p, o[0]))
    return out


def fuse_at(q: T.Term, p: Path, form: str, zname: str) -> Optional[T.Term]:
    """Select(Select(s,f),g) -> Select(s, g.f);  Where(Where(s,f),g) -> Where(s, f and g).
    form 'A': the composition written as calls of the two lambdas (what func_adl builds itself);
    form 'B': the composition written out by substitution (only when that duplicates nothing)."""
    s = get_at(q, p)
    o = op_parts(s)
    i = op_parts(o[1])
    y, gb = _lam1(o[2][0])
    x, fb = _lam1(i[2][0])
    src = i[1]
    name = o[0]
    if form == "A":
        z = zname
        if name == "Select":
            body = A(L([y], gb), A(L([x], fb), V(z)))
        else:
            body = N("bool:And", A(L([x], fb), V(z)), A(L([y], gb), V(z)))
        lam = L([z], body)
    else:
        try:
            if name == "Select":
                if T.count_free(gb, y) > 1:
                    return None
                lam = L([x], T.subst_free(gb, y, fb))
                if x in T.free_vars(L([y], gb)):
                    return None
            else:
                if y != x and x in T.free_vars(L([y], gb)):
                    return None
                lam = L([x], N("bool:And", fb, T.subst_free(gb, y, V(x))))
        except ValueError:
            return None
    return replace_at(q, p, lambda _: mk_op(name, src, (lam,), o[3]))


def unfusable(q: T.Term) -> List[Tuple[Path, str]]:
    out = []
    for p, s in all_paths(q):
        o = op_parts(s)
        if o is None or len(o[2]) != 1 or _lam1(o[2][0]) is None:
            continue
        x, b = _lam1(o[2][0])
        if o[0] == "Where" and b[0] == "n" and b[1] == "bool:And" and len(b[2]) == 2:
            out.append((p, "Where"))
        if o[0] == "Select" and b[0] == "a" and b[1][0] == "n" and b[1][1].startswith("attr:"):
            recv = b[1][2][0]
            if recv != V(x) and x in T.free_vars(recv) and all(x not in T.free_vars(a) for a in b[2]) and b[1][1][5:] not in SEQ_OPS + ("Count", "Sum", "First"):
                out.append((p, "Select"))
    return out


def unfuse_at(q: T.Term, p: Path, yname: str) -> T.Term:
    s = get_at(q, p)
    o = op_parts(s)
    x, b = _lam1(o[2][0])
    if o[0] == "Where":
        inner = mk_op("Where", o[1], (L([x], b[2][0]),), o[3])
        return replace_at(q, p, lambda _: mk_op("Where", inner, (L([x], b[2][1]),), o[3]))
    recv = b[1][2][0]
    inner = mk_op("Select", o[1], (L([x], recv),), o[3])
    outer = L([yname], A(N(b[1][1], V(yname)), *b[2]))
    return replace_at(q, p, lambda _: mk_op("Select", inner, (outer,), o[3]))


# ---------------------------------------------------------------- call style
def restyle(rng, q: T.Term) -> T.Term:
    """Flip operators between `Op(src, ..)` and `src.Op(..)` (the twelve names func_adl normalises)."""
    names = ("Select", "SelectMany", "Where", "First", "Count", "Sum")

    def go(t):
        k = t[0]
        if k in "vc":
            return t
        if k == "l":
            return ("l", t[1], go(t[2]))
        if k == "n":
            return ("n", t[1], tuple(go(x) for x in t[2]))
        t2 = ("a", go(t[1]), tuple(go(x) for x in t[2]))
        o = op_parts(t2)
        if o is not None and o[0] in names and rng.random() < 0.5:
            if o[3] == "call" and t2[1][0] == "v":
                return mk_op(o[0], o[1], o[2], "method")
            if o[3] == "method":
                return mk_op(o[0], o[1], o[2], "call")
        return t2

    return go(q)


# ---------------------------------------------------------------- qastle
def qastle_text(t: T.Term) -> str:
    import qastle

    return qastle.python_ast_to_text_ast(T.to_ast(t))


def qastle_roundtrip(t: T.Term, text: Optional[str] = None) -> T.Term:
    from .pipeline import qastle_parse

    return T.from_ast(qastle_parse(text if text is not None else qastle_text(t)))
