"""Helper library of the C08 check (terms, generators, variant producers, pipeline runner, lexer)."""
