"""Type-directed generator of queries over a synthetic data model that every query declares for itself
through its own MetaData calls (DESIGN.md Appendix B).

Types:  'ev' | ('obj', 'A'|'B') | ('seq', t) | 'int' | 'float' | 'double' | 'bool' | ('tuple', (t, ..)) | ('dict', ((key, t), ..))
"""
from __future__ import annotations

from typing import Any, Dict, List, Optional, Tuple

from . import terms as T
from .terms import A, C, L, N, V, attr, call, meth

NUM = ("int", "float", "double")
COLL_MD = {"atlas": "add_atlas_event_collection_info", "cms_aod": "add_cms_aod_event_collection_info", "cms_miniaod": "add_cms_miniaod_event_collection_info"}
ELEM = {"A": "mdl::A", "B": "mdl::B"}


def md_term(d: Dict[str, Any]) -> T.Term:
    """A python literal (dict of str -> str | bool | int | list/tuple of str) as a term; a tuple stays a tuple
    (that is what `ast.literal_eval` hands to process_metadata when the query arrives as a Python AST)."""

    def lit(v):
        if isinstance(v, tuple):
            return N("tuple", *[lit(x) for x in v])
        if isinstance(v, list):
            return N("list", *[lit(x) for x in v])
        if isinstance(v, dict):
            return N("dict", *([C(k) for k in v.keys()] + [lit(x) for x in v.values()]))
        return C(v)

    return lit(d)


def data_model(backend: str) -> List[Dict[str, Any]]:
    """The metadata items that declare collections CollA/CollB and the typed methods of their elements."""
    mds: List[Dict[str, Any]] = []
    for c in "AB":
        mds.append(
            {
                "metadata_type": COLL_MD[backend],
                "name": "Coll" + c,
                "include_files": [f"mdl/{c}.h"],
                "container_type": f"mdl::{c}Container",
                "element_type": ELEM[c],
                "contains_collection": True,
            }
        )
    for c in "AB":
        o = "B" if c == "A" else "A"
        for m, ret in (("i", "int"), ("f", "float"), ("b", "bool")):
            mds.append({"metadata_type": "add_method_type_info", "type_string": ELEM[c], "method_name": m, "return_type": ret})
        mds.append({"metadata_type": "add_method_type_info", "type_string": ELEM[c], "method_name": "o", "return_type": ELEM[o] + "*"})
        mds.append({"metadata_type": "add_method_type_info", "type_string": ELEM[c], "method_name": "os", "return_type_element": ELEM[o] + "*"})
        mds.append({"metadata_type": "add_method_type_info", "type_string": ELEM[c], "method_name": "vs", "return_type_element": "double"})
        # a method whose declared return type is an enum the query defines with another MetaData call (two
        # interdependent items: their relative position must not matter)
        mds.append({"metadata_type": "add_method_type_info", "type_string": ELEM[c], "method_name": "col", "return_type": "mdlns::Color"})
    mds.append(
        {"metadata_type": "add_cpp_function", "name": "twice", "include_files": ["mdl/fn.h"], "arguments": ["x"], "code": ["double r = x*2;"], "result_name": "r", "return_type": "double"}
    )
    mds.append(
        {
            "metadata_type": "add_cpp_function",
            "name": "scaled",
            "include_files": [],
            "arguments": ["k"],
            "code": ["double result = obj->d()*k;"],
            "return_type": "double",
            "method_object": "obj",
            "instance_object": "mdl::A",
        }
    )
    return mds


ENUMS: List[Dict[str, Any]] = [
    {"metadata_type": "define_enum", "namespace": "mdlns", "name": "Color", "values": ["Red", "Blue", "Green"]},
    {"metadata_type": "define_enum", "namespace": "xns.sub", "name": "Kind", "values": ["Kzero", "Kone"]},
]


def enum_model() -> List[Dict[str, Any]]:
    """Enums a query may declare (define_enum): one in a top-level namespace, one in a nested namespace.  The
    first component of `namespace` becomes a GLOBAL name of the translator (`cpp_types.g_toplevel_ns`): a free
    `mdlns` in the query means the namespace, a lambda parameter spelled `mdlns` is a parameter."""
    return [dict(m) for m in ENUMS]


def enum_constant(rng, m: Dict[str, Any]) -> T.Term:
    """`mdlns.Color.Red` / `xns.sub.Kind.Kone` as a term"""
    parts = m["namespace"].split(".")
    t: T.Term = V(parts[0])
    for p in parts[1:]:
        t = attr(t, p)
    return attr(attr(t, m["name"]), rng.choice(m["values"]))


def global_names(mds: List[Dict[str, Any]]) -> Dict[str, List[str]]:
    """The spellings that mean something to the pipeline when they occur FREE in a query, by the place that
    gives them the meaning.  A lambda parameter may carry any of them (its body then cannot mention the free
    one, which the renamer checks): the property says that the spelling of a bound name is irrelevant.
      namespace : first components of the namespaces this query declares (resolved by `resolve_id` through
                  `get_toplevel_ns` when the frame stack has no binding) + deeper components, enum names, values
      plugin    : names/arguments/result/instance names of the add_cpp_function items, collection names,
                  method names with declared types, inject_code / job script names
      operator  : func_adl's sequence operators and the dataset/metadata heads (dispatched on by spelling)
      function  : math functions the translator knows by name
      cpp       : C++ words and the namespaces of the declared C++ types
      wire      : node names of qastle's text format"""
    ns: List[str] = []
    deep: List[str] = []
    plug: List[str] = []
    cpp: List[str] = ["std", "this", "result", "int", "auto"]
    for m in mds:
        t = m.get("metadata_type")
        if t == "define_enum":
            parts = str(m["namespace"]).split(".")
            ns.append(parts[0])
            deep += parts[1:] + [str(m["name"])] + [str(v) for v in m["values"]]
        elif t == "add_cpp_function":
            plug += [str(m["name"])] + [str(a) for a in m.get("arguments", [])]
            plug += [str(m[k]) for k in ("result_name", "method_object") if k in m]
        elif isinstance(t, str) and t.endswith("_event_collection_info"):
            plug.append(str(m["name"]))
            cpp.append(str(m["element_type"]).split("::")[0])
        elif t == "add_method_type_info":
            plug.append(str(m["method_name"]))
            cpp.append(str(m["type_string"]).split("::")[0])
        elif t in ("inject_code", "add_job_script"):
            plug.append(str(m["name"]))

    def uniq(l):
        import keyword
        import re

        # a spelling <letters><digits> is what the comparison takes for a generated name when it meets it in a
        # declaring position (ASSUMPTIONS of the check): such spellings (s1, blk1) are not offered as parameter names
        return [x for i, x in enumerate(l) if x.isidentifier() and not keyword.iskeyword(x) and not re.match(r"^[A-Za-z_]*[A-Za-z_][0-9]+$", x) and x not in l[:i]]

    return {
        "namespace": uniq(ns),
        "namespace-member": uniq(deep),
        "plugin": uniq(plug),
        "operator": ["Select", "SelectMany", "Where", "First", "Count", "Sum", "Aggregate", "EventDataset", "MetaData", "ResultTTree"],
        "function": ["sin", "sqrt", "abs"],
        "cpp": uniq(cpp),
        "wire": ["list", "call", "attr", "dict"],
    }


def related_words(mds: List[Dict[str, Any]]) -> Dict[str, List[str]]:
    """used spelling -> the words of its declaration: a plug-in function's argument/result/instance names, an enum's
    namespace components and values (for `variants.local_words`)."""
    out: Dict[str, List[str]] = {}
    for m in mds:
        t = m.get("metadata_type")
        if t == "add_cpp_function":
            out[str(m["name"])] = [str(a) for a in m.get("arguments", [])] + [str(m[k]) for k in ("result_name", "method_object") if k in m] + ["result"]
        elif t == "define_enum":
            words = str(m["namespace"]).split(".") + [str(m["name"])] + [str(v) for v in m["values"]]
            for w in words:
                out[w] = [x for x in words if x != w]
    return out


def extra_md(rng, backend: str) -> List[Dict[str, Any]]:
    """Optional items: injected code blocks, job scripts, an enum, and (rarely) a second, conflicting
    declaration of a method's type (order-sensitive: the later one wins)."""
    out: List[Dict[str, Any]] = []
    if rng.random() < 0.5:
        out.append({"metadata_type": "inject_code", "name": "blk1", "body_includes": ["blk1.h"], "private_members": ["int m_blk1;"], "link_libraries": ["lib1"]})
    if rng.random() < 0.3:
        out.append({"metadata_type": "inject_code", "name": "blk2", "body_includes": ["blk2.h"], "header_includes": ["blk2_h.h"], "ctor_lines": ["m_x = 0;"]})
    if rng.random() < 0.4:
        out.append({"metadata_type": "add_job_script", "name": "s1", "script": ["# script one"], "depends_on": []})
        if rng.random() < 0.5:
            out.append({"metadata_type": "add_job_script", "name": "s2", "script": ["# script two"], "depends_on": ["s1"] if rng.random() < 0.5 else []})
    if rng.random() < 0.15:
        out.append({"metadata_type": "add_method_type_info", "type_string": ELEM["A"], "method_name": "i", "return_type": "double"})
    if rng.random() < 0.1:
        out.append({"metadata_type": "inject_code", "name": "blk1", "body_includes": ["blk1.h"], "private_members": ["int m_blk1;"], "link_libraries": ["lib1"]})
    return out


def enum_typed_md(rng) -> List[Dict[str, Any]]:
    """an enum and the type information of methods that return it / a value of another, undeclared enum (for the
    process_metadata stream: what is recorded for the method must not depend on where the enum's definition sits)"""
    out: List[Dict[str, Any]] = [dict(ENUMS[0])]
    out.append({"metadata_type": "add_method_type_info", "type_string": ELEM["A"], "method_name": "col", "return_type": "mdlns::Color"})
    if rng.random() < 0.5:
        out.append({"metadata_type": "add_method_type_info", "type_string": ELEM["B"], "method_name": "knd", "return_type": "xns::sub::Kind"})
    if rng.random() < 0.5:
        out.append(dict(ENUMS[1]))
    if rng.random() < 0.3:
        out.append({"metadata_type": "add_method_type_info", "type_string": ELEM["B"], "method_name": "col", "return_type": "mdlns::Color", "tree_type": "short"})
    return out


class Gen:
    def __init__(self, rng, backend: str, style: Optional[str] = None):
        self.rng = rng
        self.backend = backend
        self.n = 0
        self.style = style or rng.choice(["call", "method", "mixed"])
        self.features: Dict[str, int] = {}
        self.enums: List[Dict[str, Any]] = []  # the enums the query may mention (make_query decides)
        # predicates already used on an element type: (parameter, body) closed up to the parameter.  An inner lambda over
        # the same element type repeats one of them now and then (the same text in a nested scope: with the renamer's
        # shadowing the two parameters get the same spelling in a variant)
        self.echo: Dict[Any, List[Tuple[str, T.Term]]] = {}

    def feat(self, k: str):
        self.features[k] = self.features.get(k, 0) + 1

    def fresh(self, base: str) -> str:
        self.n += 1
        return f"{base}{self.n}"

    # ------------------------------------------------------------ operators
    def op(self, name: str, src: T.Term, *args: T.Term) -> T.Term:
        self.feat("op:" + name)
        m = self.style == "method" or (self.style == "mixed" and self.rng.random() < 0.5)
        if m:
            return meth(src, name, *args)
        return call(name, src, *args)

    def vars_of(self, env, pred) -> List[Tuple[str, Any]]:
        return [(n, t) for n, t in env if pred(t)]

    # ------------------------------------------------------------ expressions
    def num(self, env, d: int, want: Optional[str] = None) -> Tuple[T.Term, str]:
        """A numeric expression; returns (term, type)."""
        r = self.rng
        objs = self.vars_of(env, lambda t: isinstance(t, tuple) and t[0] == "obj")
        nums = self.vars_of(env, lambda t: t in NUM)
        choices = ["const"]
        if objs:
            choices += ["method"] * 6 + ["vsidx", "fn", "mfn"]
        if nums:
            choices += ["var"] * 3
        if d > 0:
            choices += ["bin"] * 3 + ["neg", "if", "proj", "math"]
            if self.can_seq(env):
                choices += ["count"] * 2 + ["sum", "first"]
        c = r.choice(choices)
        if c == "const":
            if r.random() < 0.6:
                return C(r.choice([0, 1, 2, 5, 30])), "int"
            return C(r.choice([0.5, 1.5, 2.25])), "double"
        if c == "var":
            n, t = r.choice(nums)
            return V(n), t
        if c == "method":
            n, t = r.choice(objs)
            m = r.choice(["d", "d", "f", "i", "pt"])
            ty = {"d": "double", "pt": "double", "f": "float", "i": "int"}[m]
            return meth(V(n), m), ty
        if c == "vsidx":
            n, t = r.choice(objs)
            self.feat("subscript")
            return N("sub", meth(V(n), "vs"), C(r.choice([0, 1]))), "double"
        if c == "fn":
            x, _ = self.num(env, d - 1)
            self.feat("cppfn")
            return call("twice", x), "double"
        if c == "mfn":
            cand = [(n, t) for n, t in objs if t[1] == "A"]
            if not cand:
                return self.num(env, d)
            n, t = r.choice(cand)
            x, _ = self.num(env, 0)
            self.feat("cppmethod")
            return meth(V(n), "scaled", x), "double"
        if c == "bin":
            a, ta = self.num(env, d - 1)
            b, tb = self.num(env, d - 1)
            op = r.choice(["Add", "Sub", "Mult", "Div"] + (["Mod"] if ta == tb == "int" else []))
            ty = "double" if op == "Div" else (ta if NUM.index(ta) >= NUM.index(tb) else tb)
            return N("bin:" + op, a, b), ty
        if c == "neg":
            a, ta = self.num(env, d - 1)
            if a[0] == "c":
                return a, ta  # qastle folds +/- applied to a constant; keep those out of the wire stream
            return N("un:USub", a), ta
        if c == "if":
            t = self.boolean(env, d - 1)
            a, _ = self.num(env, d - 1)
            b, _ = self.num(env, d - 1)
            self.feat("ifexp")
            return N("if", t, a, b), "double"
        if c == "proj":
            a, ta = self.num(env, d - 1)
            b, tb = self.num(env, d - 1)
            self.feat("tuple-proj")
            i = r.choice([0, 1])
            return N("sub", N(r.choice(["tuple", "list"]), a, b), C(i)), (ta, tb)[i]
        if c == "math":
            a, _ = self.num(env, d - 1)
            self.feat("math")
            return call(r.choice(["sin", "sqrt", "abs"]), a), "double"
        if c == "count":
            s, _ = self.seq(env, d - 1)
            self.feat("count")
            return self.op("Count", s), "int"
        if c == "sum":
            s, _ = self.seq(env, d - 1, elem="num")
            self.feat("sum")
            return self.op("Sum", s), "double"
        if c == "first":
            s, et = self.seq(env, d - 1, elem="num", nested_ok=False)
            self.feat("first")
            return self.op("First", s), et
        raise AssertionError(c)

    def boolean(self, env, d: int) -> T.Term:
        r = self.rng
        objs = self.vars_of(env, lambda t: isinstance(t, tuple) and t[0] == "obj")
        choices = ["cmp"] * 4
        if objs:
            choices += ["b"]
            if self.enums:
                choices += ["enum"] * 6
        if d > 0:
            choices += ["and", "or", "not"]
        c = r.choice(choices)
        if c == "cmp":
            a, _ = self.num(env, d - 1)
            b, _ = self.num(env, d - 1)
            return N("cmp:" + r.choice(["Lt", "LtE", "Gt", "GtE", "Eq", "NotEq"]), a, b)
        if c == "b":
            n, _ = r.choice(objs)
            return meth(V(n), "b")
        if c == "enum":
            # `j.i() == mdlns.Color.Red`: the namespace is a free name of the query
            n, _ = r.choice(objs)
            self.feat("enum-constant")
            en = r.choice(self.enums)
            if en["name"] == "Color" and r.random() < 0.4:
                self.feat("enum-typed-method")
                return N("cmp:" + r.choice(["Eq", "Eq", "NotEq"]), meth(V(n), "col"), enum_constant(r, en))
            return N("cmp:" + r.choice(["Eq", "Eq", "NotEq"]), meth(V(n), "i"), enum_constant(r, en))
        if c in ("and", "or"):
            self.feat("boolop")
            return N("bool:" + ("And" if c == "and" else "Or"), self.boolean(env, d - 1), self.boolean(env, d - 1))
        return N("un:Not", self.boolean(env, d - 1))

    def predicate(self, env, d: int, x: str, et: Any) -> T.Term:
        """the body of a Where over parameter x: new, or (for objects) the text of an earlier predicate on this type"""
        r = self.rng
        if isinstance(et, tuple) and et[0] == "obj" and et[1] in "AB":
            old = self.echo.get(et, [])
            if old and r.random() < 0.4:
                y, b = r.choice(old)
                self.feat("echo-predicate")
                return T.subst_free(b, y, V(x))
            if r.random() < 0.35:
                # a predicate built from the plug-ins (their translation goes through name-keyed rewriting)
                c = C(r.choice([1, 2]))
                lhs = r.choice([meth(V(x), "scaled", c) if et[1] == "A" else call("twice", meth(V(x), "d")), call("twice", meth(V(x), "d")), meth(V(x), "d")])
                b = N("cmp:" + r.choice(["Gt", "Lt"]), lhs, C(r.choice([0.5, 1.5])))
                self.feat("cppmethod" if lhs[1][0] == "n" and lhs[1][1] == "attr:scaled" else "plugin-predicate")
            else:
                b = self.boolean(env, d)
            if set(T.free_vars(b)) - {x} <= {"twice", "sin", "sqrt", "abs", "mdlns", "xns"}:
                self.echo.setdefault(et, []).append((x, b))
            return b
        return self.boolean(env, d)

    def obj(self, env, d: int) -> Optional[Tuple[T.Term, Any]]:
        r = self.rng
        objs = self.vars_of(env, lambda t: isinstance(t, tuple) and t[0] == "obj")
        if not objs:
            return None
        n, t = r.choice(objs)
        if d > 0 and r.random() < 0.3:
            o = "B" if t[1] == "A" else "A"
            return meth(V(n), "o"), ("obj", o)
        return V(n), t

    def can_seq(self, env) -> bool:
        return any(t == "ev" or (isinstance(t, tuple) and (t[0] == "seq" or (t[0] == "obj" and t[1] in "AB"))) for _, t in env)

    def base_seq(self, env) -> Tuple[T.Term, Any]:
        """A sequence that is not built by an operator: event collection, x.os(), x.vs(), or a bound sequence."""
        r = self.rng
        cands: List[Tuple[T.Term, Any]] = []
        for n, t in env:
            if t == "ev":
                cands.append((meth(V(n), "CollA", C("a")), ("seq", ("obj", "A"))))
                cands.append((meth(V(n), "CollB", C("b")), ("seq", ("obj", "B"))))
                if self.backend == "atlas" and r.random() < 0.3:
                    cands.append((meth(V(n), "Jets", C("J")), ("seq", ("obj", "J"))))
            elif isinstance(t, tuple) and t[0] == "obj" and t[1] in "AB":
                o = "B" if t[1] == "A" else "A"
                cands.append((meth(V(n), "os"), ("seq", ("obj", o))))
                cands.append((meth(V(n), "vs"), ("seq", "double")))
            elif isinstance(t, tuple) and t[0] == "seq":
                cands.append((V(n), t))
                cands.append((V(n), t))
        return r.choice(cands)

    def seq(self, env, d: int, elem: Optional[str] = None, nested_ok: bool = True) -> Tuple[T.Term, Any]:
        """A sequence expression; elem='num' forces a sequence of numbers. Returns (term, element type)."""
        r = self.rng
        s, st = self.base_seq(env)
        et = st[1]
        if self.enums and isinstance(et, tuple) and et[0] == "obj" and r.random() < 0.3:
            # the shape of real queries with enums: filter on an enum-valued property, go on with the survivors
            y = self.fresh("j")
            self.feat("enum-constant")
            s = self.op("Where", s, L([y], N("cmp:" + r.choice(["Eq", "Eq", "NotEq"]), meth(V(y), "i"), enum_constant(r, r.choice(self.enums)))))
        steps = r.choice([0, 1, 1, 2, 3]) if d > 0 else 0
        for _ in range(steps):
            k = r.choice(["Where", "Select", "Select", "SelectMany"])
            x = self.fresh("j")
            env2 = env + [(x, et)]
            if k == "Where":
                if isinstance(et, tuple) and et[0] == "seq":
                    continue
                s = self.op("Where", s, L([x], self.predicate(env2, d - 1, x, et)))

            elif k == "Select":
                if isinstance(et, tuple) and et[0] == "seq":
                    continue
                body, bt = self.value(env2, d - 1, allow_seq=nested_ok and elem is None)
                s = self.op("Select", s, L([x], body))
                et = bt
            else:
                if not (isinstance(et, tuple) and et[0] == "obj" and et[1] in "AB"):
                    continue
                inner, it = self.seq(env2, d - 1)
                if isinstance(it, tuple) and it[0] == "seq":
                    continue
                s = self.op("SelectMany", s, L([x], inner))
                et = it
        if elem == "num" and et not in NUM:
            if isinstance(et, tuple) and et[0] == "seq":
                # flatten is not always possible; fall back to a fresh numeric projection of a base sequence
                s, st = self.base_seq([(n, t) for n, t in env if not (isinstance(t, tuple) and t[0] == "seq" and isinstance(t[1], tuple) and t[1][0] == "seq")] or env)
                et = st[1]
            if et not in NUM:
                if isinstance(et, tuple) and et[0] == "seq":
                    x = self.fresh("s")
                    s = self.op("Select", s, L([x], self.op("Count", V(x))))
                    et = "int"
                else:
                    x = self.fresh("j")
                    body, bt = self.num(env + [(x, et)], max(d - 1, 0))
                    s = self.op("Select", s, L([x], body))
                    et = bt
        return s, et

    def value(self, env, d: int, allow_seq: bool = True) -> Tuple[T.Term, Any]:
        """Body of a Select: a number, an object, or a sequence."""
        r = self.rng
        c = r.choice(["num"] * 4 + ["obj"] + (["seq"] * 2 if allow_seq and d > 0 and self.can_seq(env) else []))
        if c == "obj":
            o = self.obj(env, d)
            if o is not None:
                return o
        if c == "seq":
            s, et = self.seq(env, d - 1)
            if not (isinstance(et, tuple) and et[0] == "seq"):
                return s, ("seq", et)
        return self.num(env, d)

    def column(self, env, d: int) -> T.Term:
        """Something a TTree column can hold: a number or a sequence of numbers."""
        if d > 0 and self.rng.random() < 0.4 and self.can_seq(env):
            s, _ = self.seq(env, d - 1, elem="num")
            return s
        objs = self.vars_of(env, lambda t: isinstance(t, tuple) and t[0] == "obj" and t[1] in "AB")
        if objs and any(e["name"] == "Color" for e in self.enums) and self.rng.random() < 0.25:
            self.feat("enum-typed-method")
            return meth(V(self.rng.choice(objs)[0]), "col")
        return self.num(env, d)[0]

    def terminal(self, env, d: int) -> T.Term:
        r = self.rng
        c = r.choice(["single", "single", "tuple", "dict", "list"])
        self.feat("terminal:" + c)
        if c == "single":
            return self.column(env, d)
        k = r.choice([1, 2, 2, 3])
        cols = [self.column(env, d) for _ in range(k)]
        if c == "dict":
            keys = r.sample(["a", "b", "c", "pt", "n"], k)
            return N("dict", *([C(x) for x in keys] + cols))
        return N(c, *cols)

    # ------------------------------------------------------------ whole query
    def query(self, depth: int = 2) -> T.Term:
        r = self.rng
        s: T.Term = call("EventDataset", C("ds"))
        et: Any = "ev"
        steps = r.choice([0, 1, 1, 2, 2, 3])
        for i in range(steps):
            x = self.fresh("e")
            env = [(x, et)]
            k = r.choice(["Where", "Where", "Select", "Select", "SelectMany"])
            if k == "Where":
                if isinstance(et, tuple) and et[0] == "seq":
                    s = self.op("Where", s, L([x], N("cmp:Gt", self.op("Count", V(x)), C(r.choice([0, 1])))))
                elif isinstance(et, tuple) and et[0] == "tuple":
                    continue
                else:
                    s = self.op("Where", s, L([x], self.boolean(env, depth - 1)))
            elif k == "Select":
                if et == "ev":
                    c = r.choice(["seq", "seq", "tuple", "ev"])
                    if c == "seq":
                        b, bt = self.base_seq(env)
                        s = self.op("Select", s, L([x], b))
                        et = bt
                    elif c == "tuple":
                        b1, t1 = self.base_seq(env)
                        b2, t2 = self.base_seq(env)
                        s = self.op("Select", s, L([x], N("tuple", b1, b2)))
                        et = ("tuple", (t1, t2))
                        self.feat("event-tuple")
                elif isinstance(et, tuple) and et[0] == "seq" and not (isinstance(et[1], tuple) and et[1][0] == "seq"):
                    b, bt = self.seq(env, depth - 1)
                    if not (isinstance(bt, tuple) and bt[0] == "seq"):
                        s = self.op("Select", s, L([x], b))
                        et = ("seq", bt)
                elif isinstance(et, tuple) and et[0] == "obj":
                    b, bt = self.value(env, depth - 1, allow_seq=False)
                    s = self.op("Select", s, L([x], b))
                    et = bt
            else:
                if isinstance(et, tuple) and et[0] == "obj" and et[1] in "AB":
                    b, bt = self.seq(env, depth - 1)
                    if not (isinstance(bt, tuple) and bt[0] == "seq"):
                        s = self.op("SelectMany", s, L([x], b))
                        et = bt
                        self.feat("selectmany-over-objects")
                    continue
                if et == "ev" or (isinstance(et, tuple) and et[0] == "seq" and not (isinstance(et[1], tuple) and et[1][0] == "seq")):
                    b, bt = self.base_seq(env) if et == "ev" else (V(x), et)
                    if et != "ev" and r.random() < 0.5:
                        b, bt = self.seq(env, depth - 1)
                        bt = ("seq", bt)
                    if not (isinstance(bt[1], tuple) and bt[1][0] == "seq"):
                        s = self.op("SelectMany", s, L([x], b))
                        et = bt[1]
        # final projection to something a tree can hold
        x = self.fresh("e")
        if isinstance(et, tuple) and et[0] == "tuple":
            i = r.choice([0, 1])
            env = [(self.fresh("c"), et[1][i])]
            # bind the chosen collection through a projection of the tuple parameter
            body = self.terminal([(x + "_p", et[1][i])], depth)
            body = T.subst_free(body, x + "_p", N("sub", V(x), C(i)))
            s = self.op("Select", s, L([x], body))
        else:
            s = self.op("Select", s, L([x], self.terminal([(x, et)], depth)))
        return s


def needed_model(q: T.Term, backend: str) -> List[Dict[str, Any]]:
    """The part of the data model the query mentions (its collections, the methods it calls on either element
    class, the plug-in functions): what a user would attach."""
    used = set()
    for s in T.subterms(q):
        if s[0] == "n" and s[1].startswith("attr:"):
            used.add(s[1][5:])
        if s[0] == "v":
            used.add(s[1])
    if "col" in used:
        used.add("Color")
    out = []
    for m in data_model(backend) + enum_model():
        name = m.get("method_name") or m.get("name")
        if name in used:
            out.append(m)
    return out


def tupleize(rng, mds: List[Dict[str, Any]], p_query: float = 0.5, p_key: float = 0.5) -> List[Dict[str, Any]]:
    """Write some of the list-valued metadata entries as tuples, the way a Python caller may
    (`'include_files': ('a.h', 'b.h')`).  The choice is made per key name for the whole query, so that two equal
    dictionaries stay equal.  qastle has no tuples: over the wire they arrive as lists."""
    if rng.random() >= p_query:
        return mds
    keys = sorted({k for m in mds for k, v in m.items() if isinstance(v, list)})
    chosen = {k for k in keys if rng.random() < p_key}
    return [{k: (tuple(v) if k in chosen and isinstance(v, list) else v) for k, v in m.items()} for m in mds]


def make_query(rng, backend: str, depth: int = 2) -> Tuple[T.Term, List[Dict[str, Any]], Dict[str, int]]:
    """(metadata-free query, metadata items, feature counts)"""
    g = Gen(rng, backend)
    if rng.random() < 0.6:
        g.enums = enum_model() if rng.random() < 0.5 else [rng.choice(enum_model())]
    q = g.query(depth)
    mds = needed_model(q, backend) + extra_md(rng, backend)
    for m in g.enums:
        # an enum the query declares without (in the end) mentioning it: its namespace is a global name all the same
        if m not in mds and rng.random() < 0.7:
            mds.append(m)
            g.feat("enum-declared-unused")
    mds = tupleize(rng, mds)
    for m in mds:
        for k, v in m.items():
            if isinstance(v, tuple):
                g.feat("metadata-tuple:" + k)
    return q, mds, g.features


def wire_metadata_cases(backend: str) -> List[Tuple[str, T.Term, List[Dict[str, Any]]]]:
    """Small fixed queries, one per list-valued metadata key of every metadata kind, with that entry written as a
    tuple (and one with all of them): (label, metadata-free query, metadata items)."""
    dm = {(m["metadata_type"], m.get("name") or m.get("method_name")): m for m in data_model(backend)}
    coll = dm[(COLL_MD[backend], "CollA")]
    twice = dict(dm[("add_cpp_function", "twice")], include_files=["mdl/fn.h", "mdl/fn2.h"])
    scaled = dict(dm[("add_cpp_function", "scaled")], include_files=["mdl/sc.h"])
    inject = {
        "metadata_type": "inject_code",
        "name": "blk",
        "body_includes": ["b1.h", "b2.h"],
        "header_includes": ["h1.h", "h2.h"],
        "private_members": ["int m_a;", "int m_b;"],
        "instance_initialization": ["m_a(0)", "m_b(1)"],
        "ctor_lines": ["m_a = 1;", "m_b = 2;"],
        "initialize_lines": ["m_a = 3;", "m_b = 4;"],
        "link_libraries": ["libA", "libB"],
    }
    s1 = {"metadata_type": "add_job_script", "name": "s1", "script": ["# one", "# two"], "depends_on": []}
    s2 = {"metadata_type": "add_job_script", "name": "s2", "script": ["# three"], "depends_on": ["s1"]}
    enum = {"metadata_type": "define_enum", "namespace": "mdlns", "name": "Color", "values": ["Red", "Blue"]}
    ds = call("EventDataset", C("ds"))
    jets = call("SelectMany", ds, L(["e"], meth(V("e"), "CollA", C("a"))))
    q_fn = call("Select", jets, L(["j"], call("twice", meth(V("j"), "d"))))
    q_m = call("Select", jets, L(["j"], meth(V("j"), "scaled", C(2))))
    q_plain = call("Select", jets, L(["j"], meth(V("j"), "d")))
    groups = [
        ("cpp_function", q_fn, [coll], twice, ["include_files", "arguments", "code"]),
        ("cpp_method", q_m, [coll], scaled, ["include_files", "arguments", "code"]),
        ("collection", q_plain, [], coll, ["include_files"]),
        ("inject_code", q_plain, [coll], inject, [k for k, v in inject.items() if isinstance(v, list)]),
        ("job_script", q_plain, [coll, s1], s2, ["script", "depends_on"]),
        ("job_script_first", q_plain, [coll], s1, ["script", "depends_on"]),
        ("define_enum", q_plain, [coll], enum, ["values"]),
    ]
    out = []
    for label, q, others, item, keys in groups:
        for k in keys:
            out.append((f"{label}.{k}", q, others + [dict(item, **{k: tuple(item[k])})]))
        if len(keys) > 1:
            out.append((f"{label}.all", q, others + [{k: (tuple(v) if k in keys else v) for k, v in item.items()}]))
    return out
