"""C17: run ONE case on the real code (func_adl_xAOD.*.local_dataset) with the stand-in docker.

A case is a JSON-able dict (paths are templates, `{B}` = a fresh per-case base directory):
  backend      key of the generated table ("atlas" | "cms_aod" | "cms_miniaod")
  files        [str]          file arguments, e.g. "{B}/d0/a.root", "{B}/d0/./b.root"
  form         "list_str" | "list_path" | "tuple_path" | "single_str" | "single_path"
  cwd          "" or a directory template: relative file arguments are resolved against it
  image, tag   str | None     (None = the subclass's default)
  outdir       None | str     output_directory template (None = tempfile.gettempdir())
  mds_before, mds_after       metadata dicts applied before / after the Select
  ttree        bool           finish the query with AsROOTTTree(...)
  outcome      {"chunks":[[kind, latin-1 text]], "ending":…, "at_call":bool, "write_result":bool}
  more         [ {"mds_before","mds_after","ttree","outcome"} ]   further executions on the SAME dataset object
Returned: {"obs": OBS as the Lean driver expects it, "model_inputs": …, "info": …}
"""
from __future__ import annotations

import asyncio
import contextlib
import io
import logging
import os
import shutil
import sys
import tempfile
import traceback
from pathlib import Path
from typing import Any, Dict, List, Optional

STUBS = str(Path(__file__).resolve().parent.parent / "c17_stubs")
if STUBS not in sys.path:
    sys.path.insert(0, STUBS)

LAYOUT_DIRS = ["d0", "d1", "d0/sub", "out"]
LAYOUT_FILES = ["d0/a.root", "d0/b.root", "d0/c.root", "d1/a.root", "d1/z.root", "d0/sub/s.root"]

SELECT = {
    "atlas": "lambda e: e.EventInfo('EventInfo').runNumber()",
    "cms_aod": "lambda e: e.Muons('muons').Count()",
    "cms_miniaod": "lambda e: e.Muons('slimmedMuons').Count()",
}

_quiet_done = False


def _quiet():
    global _quiet_done
    if not _quiet_done:
        lg = logging.getLogger("func_adl_xAOD.common.local_dataset")
        lg.addHandler(logging.NullHandler())
        lg.propagate = False
        _quiet_done = True


def dataset_class(table_row: Dict[str, Any]):
    import importlib

    mod = importlib.import_module(table_row["module"])
    return getattr(mod, table_row["datasetClass"])


def subst(s: str, base: str) -> str:
    return s.replace("{B}", base)


def err_class(e: BaseException) -> str:
    names = [f.name for f in traceback.extract_tb(e.__traceback__)]
    if "apply_ast_transformations" in names or "write_cpp_files" in names:
        return "translate"
    return type(e).__name__


def md_entry(md: Dict[str, Any]) -> Dict[str, Any]:
    if md.get("metadata_type") == "docker":
        return {"docker": True, "image": md.get("image")}
    return {"docker": False, "image": None}


def md_is_bad(md: Dict[str, Any]) -> bool:
    return md.get("metadata_type") == "no_such_metadata_type"


def steps_of(case: Dict[str, Any]) -> List[Dict[str, Any]]:
    """The executions of a case, all on ONE dataset object: the top-level query/outcome, then those of `more`."""
    first = {k: case.get(k, d) for k, d in (("mds_before", []), ("mds_after", []), ("ttree", False))}
    first["outcome"] = case["outcome"]
    return [first] + [dict(s) for s in case.get("more", [])]


def model_step(step: Dict[str, Any]) -> Dict[str, Any]:
    mds_all = step.get("mds_before", []) + step.get("mds_after", [])
    oc = step["outcome"]
    return {
        "mds": [md_entry(m) for m in mds_all],
        "translates": not any(md_is_bad(m) for m in mds_all),
        "outcome": {
            "chunks": [{"stdout": k == "stdout", "bytes": list(t.encode("latin-1"))} for k, t in oc.get("chunks", [])],
            "ending": oc.get("ending", "success"),
            "atCall": bool(oc.get("at_call", False)),
            "resultPresent": bool(oc.get("write_result", True)),
        },
    }


def model_inputs(case: Dict[str, Any], base: str, tmp_root: str, step: Optional[Dict[str, Any]] = None) -> Dict[str, Any]:
    """The same case as the Lean driver reads it (facts about the file system are measured here)."""
    if step is not None:
        case = {**case, **{k: step.get(k) for k in ("mds_before", "mds_after", "ttree", "outcome")}}
    cwd = subst(case.get("cwd") or "", base)
    files = [subst(f, base) for f in case["files"]]

    def exists(f: str) -> bool:
        p = Path(f)
        if not p.is_absolute() and cwd:
            p = Path(cwd) / p
        return p.exists()

    outdir = None if case.get("outdir") is None else subst(case["outdir"], base)
    eff_out = Path(outdir) if outdir is not None else Path(tmp_root)
    mds = [md_entry(m) for m in case.get("mds_before", [])] + [md_entry(m) for m in case.get("mds_after", [])]
    oc = case["outcome"]
    return {
        "backend": case["backend"],
        "files": files,
        "image": case.get("image"),
        "tag": case.get("tag"),
        "outputDir": outdir,
        "mds": mds,
        "translates": not any(md_is_bad(m) for m in case.get("mds_before", []) + case.get("mds_after", [])),
        "fs": {"existing": [f for f in files if exists(f)], "tempRoot": tmp_root, "outDirExists": eff_out.is_dir()},
        "outcome": {
            "chunks": [{"stdout": k == "stdout", "bytes": list(t.encode("latin-1"))} for k, t in oc.get("chunks", [])],
            "ending": oc.get("ending", "success"),
            "atCall": bool(oc.get("at_call", False)),
            "resultPresent": bool(oc.get("write_result", True)),
        },
    }


def canon_volume(v, run_parent: Path) -> Dict[str, Any]:
    try:
        src, mount = v[0], v[1]
        mode = v[2] if len(v) > 2 else None
    except Exception:
        return {"src": {"kind": "named", "n": f"<unreadable volume entry {v!r}>"}, "mount": "", "mode": None}
    if src is None:
        s = {"kind": "named", "n": "<None>"}
    elif isinstance(src, Path) or (isinstance(src, str) and ("/" in src or src in (".", ".."))):
        p = Path(src)
        if p.is_absolute() and p.parent == run_parent:
            s = {"kind": "runDir"}
        else:
            s = {"kind": "path", "s": str(p)}
    else:
        s = {"kind": "named", "n": str(src)}
    return {"src": s, "mount": str(mount), "mode": None if mode is None else str(mode)}


def run_case(case: Dict[str, Any], row: Dict[str, Any], payload: str = "payload") -> Dict[str, Any]:
    """Run the real constructor and the real execute_result_async (through ObjectStream.value_async)."""
    _quiet()
    from python_on_whales import verif_control as ctl

    base = tempfile.mkdtemp(prefix="c17-")
    old_tmp, old_cwd = tempfile.tempdir, os.getcwd()
    try:
        basep = Path(base)
        for d in LAYOUT_DIRS:
            (basep / d).mkdir(parents=True, exist_ok=True)
        for f in LAYOUT_FILES:
            (basep / f).write_text("data")
        tmp_root = basep / "tmp"
        tmp_root.mkdir()
        tempfile.tempdir = str(tmp_root)
        if case.get("cwd"):
            os.chdir(subst(case["cwd"], base))
        files = [subst(f, base) for f in case["files"]]
        form = case.get("form", "list_str")
        if form == "list_path":
            farg: Any = [Path(f) for f in files]
        elif form == "tuple_path":
            farg = tuple(Path(f) for f in files)
        elif form == "single_str":
            farg = files[0]
        elif form == "single_path":
            farg = Path(files[0])
        else:
            farg = list(files)
        kwargs: Dict[str, Any] = {}
        if case.get("image") is not None:
            kwargs["docker_image"] = case["image"]
        if case.get("tag") is not None:
            kwargs["docker_tag"] = case["tag"]
        if case.get("outdir") is not None:
            kwargs["output_directory"] = Path(subst(case["outdir"], base))

        def blank() -> Dict[str, Any]:
            return {
                "ctorFailed": False, "err": None, "returned": [], "calls": [], "seenFilelist": None, "packageOk": False,
                "pulled": 0, "delivered": False, "runDirLive": True, "leftover": 0,
            }

        steps = steps_of(case)
        out_steps: List[Dict[str, Any]] = []
        sink = io.StringIO()
        ctl.reset({})
        with contextlib.redirect_stdout(sink), contextlib.redirect_stderr(sink):
            cls = dataset_class(row)
            try:
                ds = cls(farg, **kwargs)
            except Exception as e:
                ds = None
                obs = blank()
                obs["ctorFailed"] = True
                obs["err"] = err_class(e)
                out_steps.append({"obs": obs, "model_inputs": model_inputs(case, base, str(tmp_root), steps[0]), "info": {"message": str(e)[:200]}})
        keep: set = set()
        if ds is not None:
            for k, step in enumerate(steps):  # every execution on the SAME dataset object
                obs = blank()
                info: Dict[str, Any] = {}
                mi = model_inputs(case, base, str(tmp_root), step)
                step_payload = f"{payload}-step{k}"
                oc = dict(step["outcome"])
                oc["payload"] = step_payload
                oc["result_name"] = row["runnerResultName"]
                ctl.reset(oc)
                returned_paths: List[Path] = []
                with contextlib.redirect_stdout(sink), contextlib.redirect_stderr(sink):
                    try:
                        q = ds
                        for md in step.get("mds_before", []):
                            q = q.MetaData(md)
                        q = q.Select(SELECT[case["backend"]])
                        if step.get("ttree"):
                            q = q.AsROOTTTree("junk.root", "my_tree", ["col"])
                        for md in step.get("mds_after", []):
                            q = q.MetaData(md)
                        r = asyncio.run(q.value_async())
                        returned_paths = [Path(x) for x in r]
                        obs["returned"] = [str(x) for x in r]
                    except Exception as e:
                        obs["err"] = err_class(e)
                        info["message"] = str(e)[:200]

                for c in ctl.calls:
                    kw = c["kwargs"]
                    args = c["args"]
                    obs["calls"].append(
                        {
                            "image": str(args[0]) if len(args) > 0 else str(kw.get("image")),
                            "command": [str(x) for x in (args[1] if len(args) > 1 else kw.get("command", []))],
                            "volumes": [canon_volume(v, tmp_root) for v in (kw.get("volumes") or [])],
                            "remove": bool(kw.get("remove", False)),
                            "stream": bool(kw.get("stream", False)),
                        }
                    )
                    sd = c["scripts_dir"] or {}
                    if not sd.get("exists", False):
                        obs["runDirLive"] = False
                if ctl.calls:
                    sd = ctl.calls[0]["scripts_dir"] or {}
                    obs["seenFilelist"] = sd.get("filelist")
                    have = set(sd.get("files", []))
                    obs["packageOk"] = bool(
                        all(f in have for f in row["fileNames"]) and "filelist.txt" in have and row["runner"] in sd.get("executable", [])
                    )
                    info["package_files"] = sorted(have)
                obs["pulled"] = sum(1 for e in ctl.events if e.startswith("chunk"))
                info["events"] = list(ctl.events)
                if returned_paths:
                    try:
                        obs["delivered"] = all(p.is_file() and p.read_text() == step_payload for p in returned_paths)
                    except Exception:
                        obs["delivered"] = False
                keep |= {p.resolve() for p in returned_paths}  # results delivered into the temp root (no output directory) stay
                obs["leftover"] = sum(1 for x in tmp_root.iterdir() if x.resolve() not in keep)
                out_steps.append({"obs": obs, "model_inputs": mi, "info": info})
        return {"steps": out_steps, "planned_steps": [model_step(s) for s in steps], **out_steps[0]}
    finally:
        tempfile.tempdir = old_tmp
        os.chdir(old_cwd)
        shutil.rmtree(base, ignore_errors=True)


def run_many(args):
    """Pool entry point: [(index, case)], row table -> [(index, result | {"crash": text})]."""
    items, table = args
    out = []
    for idx, case in items:
        try:
            out.append((idx, run_case(case, table[case["backend"]], payload=f"payload-{idx}")))
        except Exception:
            out.append((idx, {"crash": traceback.format_exc()[-1500:]}))
    return out


FRESH_SNIPPET = r"""
import sys, tempfile
sys.path[:0] = [{stubs!r}, {repo!r}]
assert tempfile.tempdir is None, "interpreter is not fresh"
import importlib
from pathlib import Path
cls = getattr(importlib.import_module({module!r}), {cls!r})
try:
    ds = cls(Path({file!r}))
    print("OK", ds._output_directory)
except BaseException as e:
    print("RAISED", type(e).__name__, e)
"""
