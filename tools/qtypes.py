"""Python-side typing of generated queries: what column type the PROPERTY expects
(integers stay integer, real division and conditionals are floating, booleans boolean,
sequences vector<.>, 2-D vector<vector<.>>). Independent of the translator's own typing."""
from __future__ import annotations

from typing import Any, Dict, List, Tuple

METH = {"i": "int", "j": "int", "f": "float", "d": "double", "g": "double", "b": "bool"}
RANK = {"int": 0, "float": 1, "double": 2}


def join(a: str, b: str) -> str:
    if a in RANK and b in RANK:
        return a if RANK[a] >= RANK[b] else b
    return a


def ty(q: Dict[str, Any], env: Dict[str, Any]):
    """returns 'int'|'float'|'double'|'bool'|('obj',)|('seq', t)|('tuple', names, [t..])"""
    k = q["k"]
    if k == "var":
        return env[q["n"]]
    if k == "int":
        return "int"
    if k == "dbl":
        return "double"
    if k == "bool":
        return "bool"
    if k == "meth":
        if q["n"] == "vs":
            return ("seq", "double")
        if q["n"] == "kids":
            return ("seq", ("obj",))
        return METH[q["n"]]
    if k == "coll":
        return ("seq", ("obj",))
    if k == "sub":
        t = ty(q["a"], env)
        return t[2][q["i"]] if t[0] == "tuple" else t[1]
    if k == "key":
        t = ty(q["a"], env)
        return t[2][t[1].index(q["key"])]
    if k == "bin":
        if q["op"] in ("/", "**"):
            return "double"  # (an int power with a negative exponent is a fraction: the column must be floating)
        return join(ty(q["a"], env), ty(q["b"], env))
    if k in ("cmp", "and", "or", "not"):
        return "bool"
    if k == "neg":
        return ty(q["a"], env)
    if k == "if":
        return "double"
    if k == "fn":
        return "double"
    if k in ("Select",):
        s = ty(q["s"], env)
        return ("seq", ty(q["f"], {**env, q["x"]: s[1]}))
    if k == "Where":
        return ty(q["s"], env)
    if k == "SelectMany":
        s = ty(q["s"], env)
        return ty(q["f"], {**env, q["x"]: s[1]})
    if k == "Count":
        return "int"
    if k == "Sum":
        return join("int", ty(q["s"], env)[1])
    if k in ("Min", "Max"):
        return "double"
    if k == "First":
        return ty(q["s"], env)[1]
    if k == "Aggregate":
        s = ty(q["s"], env)
        seed = ty(q["seed"], env)
        return join(seed, ty(q["f"], {**env, q["acc"]: seed, q["x"]: s[1]}))
    if k in ("tuple", "list"):
        return ("tuple", [f"col{i}" for i in range(len(q["es"]))], [ty(e, env) for e in q["es"]])
    if k == "dict":
        return ("tuple", list(q["ks"]), [ty(e, env) for e in q["es"]])
    raise ValueError(k)


def cpp(t) -> str:
    if isinstance(t, str):
        return t
    if t[0] == "seq":
        return f"std::vector<{cpp(t[1])}>"
    raise ValueError(t)


def columns(q: Dict[str, Any]) -> Tuple[List[str], List[str]]:
    """(names, C++ types) of the tree a top-level query must book"""
    t = ty(q, {"__ds__": None}) if False else _top(q)
    row = t[1]
    if isinstance(row, tuple) and row[0] == "tuple":
        return row[1], [cpp(x) for x in row[2]]
    return ["col1"], [cpp(row)]


def _top(q):
    # event-level chain over ds
    def go(c):
        if c["k"] == "ds":
            return ("seq", "event")
        s = go(c["s"])
        if c["k"] == "Where":
            return s
        inner = ty(c["f"], {c["x"]: s[1]})
        if c["k"] == "Select":
            return ("seq", inner)
        return inner  # SelectMany
    return go(q)
