"""Text tie between the Lean translator model of the LAZY-operator fragment (`Gen.compileL`,
lean/FaxVerif/Gen/Lazy.lean) and the real translator.

Fragment:  ds.SelectMany(e -> coll(bank).{Select(pure) | Where(LE)}*).Select(x -> {name: LE, ...})
           LE = pure element expressions + n-ary `and` / `or` (ONE BoolOp node per un-parenthesised
           chain, nested nodes where the source has parentheses) + `x if c else y`, nested at will.

For every generated query: the model's package text comes from the Lean driver
(`FaxVerif/Gen/LazyDriver.lean`, op `compileL`), the implementation's from the real pipeline
(`pipeline.translate_functional`); both are parsed with the same parser (`cparse`) and compared
modulo a bijective renaming of declared identifiers (first-occurrence numbering) and the value of
floating literals (`gentie.canon_package`). Additionally the model's package is EXECUTED in the
Lean semantics on generated events (with null elements, so that skipped operands matter) and
compared with the Lean denotation of the query — an executable instance of `le_correct` /
`elemRowsL_correct`.

    run_stream(ctx_or_rng, n) -> (agree, total, first_disagreement)

`ctx_or_rng`: a vlib check context (its `.rng` and `.driver` are used) or a `random.Random`.
Standalone:  /venv/bin/python tools/gentie_lazy.py [n] [seed]
"""
from __future__ import annotations

import json
import os
import random
import subprocess
import sys
from pathlib import Path
from typing import Any, Dict, List, Optional, Tuple

sys.path.insert(0, str(Path(__file__).resolve().parent))

import gentie  # noqa: E402
import qgen  # noqa: E402
import pipeline as P  # noqa: E402

DRIVER = "FaxVerif/Gen/LazyDriver.lean"
DRIVER_IMPORTS = ["FaxVerif.Cpp.Json", "FaxVerif.Cpp.Check", "FaxVerif.Gen.Render", "FaxVerif.Gen.Lazy"]
LEAN = Path(__file__).resolve().parent.parent / "lean"
METH_TY = gentie.METH_TY

LAST_STATS: Dict[str, int] = {}

# ---------------------------------------------------------------- generation


class LazyGen:
    """Type-directed generator of LE expressions / chains / rows. `strict`: stay inside the PROVED
    fragment (`wtLE`: conditional arms floating); otherwise int / bool arms and non-bool operands
    (which need `static_cast`s) are generated too — the text tie covers them, the theorems do not."""

    def __init__(self, rng, strict_p: float = 0.5):
        self.rng = rng
        self.lite = gentie.LiteGen(rng)
        self.strict = rng.random() < strict_p

    # leaves / pure
    def leaf(self, cur: Optional[str], ty: str) -> Dict[str, Any]:
        return self.lite.pe(cur, ty, 0)

    def le(self, cur: Optional[str], ty: str, depth: int) -> Dict[str, Any]:
        r = self.rng
        if depth <= 0 or r.random() < 0.15:
            return self.lite.pe(cur, ty, 1 if depth > 0 else 0)
        if ty == "bool":
            c = r.choice(["bop", "bop", "bop", "cmp", "cmp", "not", "pure", "ite"])
            if c == "bop":
                n = r.choice([2, 2, 2, 3, 3, 4])
                xs = [self.operand(cur, depth - 1) for _ in range(n)]
                return {"k": r.choice(["and", "or"]), "xs": xs}
            if c == "cmp":
                t = r.choice(["int", "double", "double"])
                return {"k": "cmp", "op": r.choice(["<", "<=", ">", ">=", "==", "!="]), "a": self.le(cur, t, depth - 1), "b": self.le(cur, t, depth - 1)}
            if c == "not":
                return {"k": "not", "a": self.le(cur, "bool", depth - 1)}
            if c == "ite" and not self.strict:
                # bool arms: the result variable is a double, the arms are cast (outside the proved fragment)
                return {"k": "if", "c": self.le(cur, "bool", depth - 1), "a": self.le(cur, "bool", depth - 1), "b": self.le(cur, "bool", depth - 1)}
            return self.lite.pe(cur, "bool", 2)
        if ty == "double":
            c = r.choice(["ite", "ite", "ite", "bin", "bin", "div", "neg", "pure"])
            if c == "ite":
                return {"k": "if", "c": self.cond(cur, depth - 1), "a": self.arm(cur, depth - 1), "b": self.arm(cur, depth - 1)}
            if c == "bin":
                ta = r.choice(["int", "double"])
                tb = "double" if ta == "int" else r.choice(["int", "double"])
                return {"k": "bin", "op": r.choice(["+", "-", "*"]), "a": self.le(cur, ta, depth - 1), "b": self.le(cur, tb, depth - 1)}
            if c == "div":
                return {"k": "bin", "op": "/", "a": self.le(cur, r.choice(["int", "double"]), depth - 1), "b": r.choice([{"k": "int", "v": 2}, {"k": "dbl", "v": "4.0"}, {"k": "int", "v": 4}])}
            if c == "neg":
                return {"k": "neg", "a": self.le(cur, "double", depth - 1)}
            return self.lite.pe(cur, "double", 2)
        # int
        c = r.choice(["bin", "neg", "pure", "pure"])
        if c == "bin":
            return {"k": "bin", "op": r.choice(["+", "-", "*"]), "a": self.le(cur, "int", depth - 1), "b": self.le(cur, "int", depth - 1)}
        if c == "neg":
            return {"k": "neg", "a": self.le(cur, "int", depth - 1)}
        return self.lite.pe(cur, "int", 2)

    def operand(self, cur, depth):
        """operand of and / or: mostly bool; sometimes a number (cast to bool by `set_var`)"""
        r = self.rng
        if not self.strict and r.random() < 0.12:
            return self.le(cur, r.choice(["int", "double"]), depth)
        return self.le(cur, "bool", depth)

    def cond(self, cur, depth):
        r = self.rng
        if r.random() < 0.1:
            return self.le(cur, r.choice(["int", "double"]), depth)  # truthiness of a number
        return self.le(cur, "bool", depth)

    def arm(self, cur, depth):
        r = self.rng
        if not self.strict and r.random() < 0.25:
            return self.le(cur, "int", depth)
        return self.le(cur, "double", depth)

    def uses_it(self, e) -> bool:
        return self.lite.uses_it(e)

    def dep(self, e, cur, ty):
        """lambda bodies that ignore their variable are a listed defect class of the translator: make them use it"""
        if self.uses_it(e):
            return e
        leaf = {"k": "meth", "n": "i", "ty": "int"} if cur is None else {"k": "it"}
        if ty == "bool":
            return {"k": "and", "xs": [{"k": "cmp", "op": ">", "a": leaf, "b": {"k": "int", "v": 0}}, e]}
        return {"k": "bin", "op": self.rng.choice(["+", "*"]), "a": e, "b": leaf}

    def chain(self) -> Tuple[Dict[str, Any], Optional[str]]:
        r = self.rng
        coll = r.choice(["As", "Bs"])
        bank = r.choice({"As": ["ba", "ba2"], "Bs": ["bb"]}[coll])
        steps, cur = [], None
        for _ in range(r.choice([0, 1, 1, 2, 2, 3])):
            u = r.random()
            if cur is None and u < 0.25:
                ty = r.choice(["int", "double"])
                e = self.lite.dep(self.lite.pe(cur, ty, 2), cur, ty)
                steps.append({"k": "sel", "e": e})
                cur = ty
            elif cur is not None and u < 0.3:
                e = self.lite.dep(self.lite.pe(cur, "double", 2), cur, "double")
                steps.append({"k": "sel", "e": e})
                cur = "double"
            else:
                steps.append({"k": "whr", "e": self.dep(self.le(cur, "bool", r.choice([1, 2, 2, 3])), cur, "bool")})
        return {"coll": coll, "bank": bank, "steps": steps}, cur

    def fq(self) -> Dict[str, Any]:
        """a query with at least one lazy operator (a few retries; a purely pure one may still come out)"""
        q = self.fq1()
        for _ in range(6):
            ops: Dict[str, int] = {}
            count_ops(q, ops)
            if ops:
                break
            q = self.fq1()
        return q

    def fq1(self) -> Dict[str, Any]:
        r = self.rng
        ch, cur = self.chain()
        n = r.randint(1, 3)
        cols = []
        for i in range(n):
            ty = r.choice(["int", "double", "double", "bool", "bool"]) if cur is None else r.choice(["double", "double", "bool"])
            e = self.le(cur, ty, r.choice([1, 2, 2, 3]))
            cols.append({"name": f"c{i}_{r.choice(['pt', 'eta', 'n'])}", "e": e})
        return {"k": "elemRows", "c": ch, "cols": cols}


def count_ops(e, acc: Dict[str, int]):
    if isinstance(e, dict):
        k = e.get("k")
        if k in ("and", "or", "if"):
            acc[k] = acc.get(k, 0) + 1
            if k != "if" and len(e["xs"]) > 2:
                acc["nary"] = acc.get("nary", 0) + 1
        for v in e.values():
            count_ops(v, acc)
    elif isinstance(e, list):
        for v in e:
            count_ops(v, acc)


# ---------------------------------------------------------------- LE -> python source text (mirror of Gen.leQ)


def le_src(x: str, e: Dict[str, Any]) -> str:
    k = e["k"]
    R = lambda a: le_src(x, a)
    if k == "int":
        return str(e["v"])
    if k == "dbl":
        return e["v"]
    if k == "bool":
        return "True" if e["v"] else "False"
    if k == "it":
        return x
    if k == "meth":
        return f"{x}.{e['n']}()"
    if k in ("bin", "cmp"):
        return f"({R(e['a'])} {e['op']} {R(e['b'])})"
    if k == "neg":
        return f"(-{R(e['a'])})"
    if k == "not":
        return f"(not {R(e['a'])})"
    if k in ("and", "or"):
        # ONE BoolOp node: no parentheses between the operands; each operand is itself parenthesised
        # whenever it is a BoolOp / IfExp (every form above renders with its own parentheses)
        return "(" + f" {k} ".join(R(a) for a in e["xs"]) + ")"
    if k == "if":
        return f"({R(e['a'])} if {R(e['c'])} else {R(e['b'])})"
    raise ValueError(k)


def pe_src(x: str, e: Dict[str, Any]) -> str:
    return le_src(x, e)


def fq_source(fq: Dict[str, Any], mds: List[Dict[str, Any]]) -> str:
    """the call tree the backend receives (as `qgen.render_functional` builds it)"""
    s = "ds0"
    for d in mds:
        s = f"MetaData({s}, {d!r})"
    c = fq["c"]
    ch = f"e.{c['coll']}({json.dumps(c['bank'])})"
    for i, st in enumerate(c["steps"]):
        x = f"x{i}"
        ch = f"{ch}.{'Select' if st['k'] == 'sel' else 'Where'}(lambda {x}: {le_src(x, st['e'])})"
    row = "{" + ", ".join(f"{json.dumps(col['name'])}: {le_src('r', col['e'])}" for col in fq["cols"]) + "}"
    return f"Select(SelectMany({s}, lambda e: {ch}), lambda r: {row})"


# ---------------------------------------------------------------- events (with null elements: skipped operands matter)


def gen_event(rng, backend: str, fq: Dict[str, Any]) -> Dict[str, Any]:
    c = fq["c"]
    ev = qgen.gen_event(rng, backend, {c["bank"]: c["coll"]})
    for b in ev["banks"]:
        objs = b["content"]["v"]
        for i in range(len(objs)):
            u = rng.random()
            if u < 0.12:
                objs[i] = {"null": True}
            elif u < 0.3:
                # an object on which one accessor faults (attribute missing in the event data model)
                drop = rng.choice(["i", "j", "f", "d", "g", "b"])
                objs[i]["o"]["a"] = [a for a in objs[i]["o"]["a"] if a["k"] != drop]
    return ev


# ---------------------------------------------------------------- the stream


def _run_driver(reqs: List[Dict[str, Any]]) -> List[Dict[str, Any]]:
    inp = "\n".join(json.dumps(r, ensure_ascii=False) for r in reqs) + "\n"
    p = subprocess.run(["lake", "env", "lean", "--run", DRIVER], cwd=str(LEAN), capture_output=True, text=True, input=inp, timeout=1800)
    lines = [l for l in p.stdout.split("\n") if l.strip()]
    if p.returncode != 0 or len(lines) != len(reqs):
        return [{"bad": f"driver failed rc={p.returncode}: {p.stderr[-500:]}"} for _ in reqs]
    out = []
    for l in lines:
        try:
            out.append(json.loads(l))
        except Exception:
            out.append({"bad": "unparsable: " + l[:200]})
    return out


def _fault_class(r):
    f = r.get("fault")
    if f is None:
        return "ok"
    return f.split(":")[0] if f.startswith("stuck") else f


def _same_outcome(ex, de, typed: bool) -> Tuple[bool, str]:
    fe, fd = _fault_class(ex), _fault_class(de)
    if fe != "ok" or fd != "ok":
        # Proved direction (`elemRowsL_correct`): the query denotes rows -> the code writes exactly them; in
        # particular the code never faults where the query is defined (no spurious fault from a skipped operand).
        # Where the QUERY faults the package may still write rows: the value of a `Select` step that no column /
        # later condition uses is never computed by the emitted code (the code is lazier than the query there), and
        # WHICH member fault is raised may differ when several operands fault (C++ runs an operand's statements
        # before the enclosing expression). Expression level: `lazy_expr_faults_equal`.
        if fd == "ok":
            return False, f"exec {ex.get('fault')} / query defined"
        return True, "query-faults"
    if typed:
        return ex["rows"] == de["rows"], "typed rows"
    try:
        import cgroup

        return cgroup.same_outcome(ex, de)
    except Exception:
        return ex["num"] == de["num"], "rows"


def run_stream(ctx_or_rng, n: int, events_per_query: int = 3) -> Tuple[int, int, Optional[Dict[str, Any]]]:
    """Generate `n` queries of the lazy fragment (backends in rotation), compare model text with the real
    translator's, and the executed model with the query's denotation. Returns (agree, total, first_disagreement)."""
    ctx = ctx_or_rng if hasattr(ctx_or_rng, "driver") and hasattr(ctx_or_rng, "rng") else None
    rng = ctx.rng if ctx is not None else ctx_or_rng
    stats: Dict[str, int] = {}

    def count(name, k=1):
        stats[name] = stats.get(name, 0) + k
        if ctx is not None:
            ctx.count("lazy-tie:" + name, k)

    reqs, meta = [], []
    for i in range(n):
        b = P.BACKENDS[i % 3]
        fq = LazyGen(rng).fq()
        if not gentie.valid(fq):
            count("regenerated")
            continue
        src = fq_source(fq, qgen.metadata(b))
        r = P.translate_functional(b, src)
        evs = [gen_event(rng, b, fq) for _ in range(events_per_query)]
        reqs.append({"op": "compileL", "backend": b, "colls": gentie.colls_json(b), "fq": fq, "events": evs})
        meta.append((b, fq, fq_source(fq, []), r))
    outs = ctx.driver(DRIVER, reqs) if ctx is not None else _run_driver(reqs)
    agree, total, first = 0, 0, None
    for (b, fq, src, r), o in zip(meta, outs):
        total += 1
        count("total")
        count("backend:" + b)
        ops: Dict[str, int] = {}
        count_ops(fq, ops)
        for k, v in ops.items():
            count("op:" + k, v)
        if not ops:
            count("no-lazy-operator")
        if ctx is not None:
            ctx.case(f"lazy|{b}|{src}", bool(ops), {"backend": b, "fragment_query": src})
        bad = None
        if "bad" in o:
            bad = {"kind": "driver", "what": o["bad"]}
        elif not r["ok"]:
            bad = {"kind": "refused", "what": f"a query of the modelled fragment is refused ({r['error']}: {r.get('message', '')[:200]})"}
        else:
            if o.get("wt"):
                count("inside-proved-fragment")
            d = gentie.first_diff(gentie.model_canon(o), gentie.impl_canon(r))
            if d is not None:
                bad = {"kind": "text", "first_difference": d, "model_body": o.get("body"), "impl_body": r["query"]}
            else:
                count("text-agree")
                for ex, de in zip(o["exec"], o["denote"]):
                    if _fault_class(de) != "ok" and _fault_class(ex) == "ok":
                        count("event:query-faults-code-lazier")
                    elif _fault_class(ex) != "ok" or _fault_class(de) != "ok":
                        count("event:fault")
                    else:
                        count("event:rows")
                    ok, why = _same_outcome(ex, de, bool(o.get("wt")))
                    if not ok:
                        bad = {"kind": "model-instance", "what": f"Gen.compileL executed vs denote: {why}", "exec": ex, "denote": de, "model_body": o.get("body")}
                        break
        if bad is None:
            agree += 1
            count("backend-agree:" + b)
        else:
            count("disagree:" + bad["kind"])
            bad.update({"backend": b, "source": src, "fq": fq})
            if first is None:
                first = bad
    LAST_STATS.clear()
    LAST_STATS.update(stats)
    return agree, total, first


if __name__ == "__main__":
    n = int(sys.argv[1]) if len(sys.argv) > 1 else 240
    seed = int(sys.argv[2]) if len(sys.argv) > 2 else int(os.environ.get("VERIF_SEED", "1"))
    a, t, first = run_stream(random.Random(f"lazy-tie:{seed}"), n)
    print(f"lazy tie: {a}/{t} agree (seed {seed})")
    for k in sorted(LAST_STATS):
        print(f"  {k}: {LAST_STATS[k]}")
    if first is not None:
        print("FIRST DISAGREEMENT:")
        print(json.dumps({k: v for k, v in first.items() if k not in ("model_body", "impl_body")}, indent=1)[:3000])
        if first.get("model_body"):
            print("--- model")
            print("\n".join(first["model_body"]))
        if first.get("impl_body"):
            print("--- implementation")
            print("\n".join(first["impl_body"]))
        sys.exit(1)
