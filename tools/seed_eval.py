"""Evaluate a seeded mutant: python tools/seed_eval.py C15 /tmp/mut-C15-a 1 [more check ids…]
Verifies (demo passes clean, tests pass with the patch, demo fails with the patch), runs the
check(s) against the patched worktree through VERIF_REPO (evidence/replays redirected to a scratch
directory), stores the mutant under /verif/seeded/<id>-<k>/ with meta.json."""
import json, os, shutil, subprocess, sys, tempfile, time
from pathlib import Path

pid, wt, k = sys.argv[1], Path(sys.argv[2]), sys.argv[3]
checks = sys.argv[4:] or [pid]
PY = "/venv/bin/python"
env = dict(os.environ, PYTHONPATH=str(wt))

def run(cmd, **kw):
    return subprocess.run(cmd, capture_output=True, text=True, **kw)

def sh(c): return run(c, shell=True)

sh(f"git -C {wt} reset -q --hard")
demo = wt / f"demo_{k}.py"; patch = wt / f"mutant_{k}.diff"
r0 = run([PY, str(demo)], cwd=wt, env=env)
ap = sh(f"git -C {wt} apply {patch}")
if ap.returncode != 0:
    ap = sh(f"git -C {wt} apply -3 {patch}")  # the tree moved on since the patch was written
tests = run([PY, "-m", "pytest", "-q", "-p", "no:cacheprovider", "-x"], cwd=wt, env=env)
tline = [l for l in tests.stdout.splitlines() if "passed" in l or "failed" in l][-1:] or [tests.stdout[-200:]]
r1 = run([PY, str(demo)], cwd=wt, env=env)
meta = {"property": pid, "mutant": k, "demo_clean_exit": r0.returncode, "apply_rc": ap.returncode, "tests": tline[0].strip(), "demo_mutant_exit": r1.returncode, "checks": {}}
scratch = Path(tempfile.mkdtemp(prefix="seedeval_"))
for c in checks:
    e = dict(os.environ, VERIF_REPO=str(wt), VERIF_EVIDENCE_DIR=str(scratch / "ev"), VERIF_REPLAYS_DIR=str(scratch / "rp"))
    t0 = time.time()
    VR = os.environ.get("VERIF_ROOT", "/verif")
    cr = run([VR + "/check", c, "--tier", "quick"], cwd=VR, env=e)
    viol = [l for l in cr.stdout.splitlines() if l.startswith("VIOLATION")]
    info = {"exit": cr.returncode, "violation_lines": viol, "wall_s": round(time.time() - t0, 1)}
    if viol:
        rp = viol[0].split("replay=")[1].split()[0]
        try:
            rj = json.loads(Path(rp).read_text())
            info["replay_kind"] = rj.get("kind"); info["replay_what"] = (rj.get("what") or "")[:300]
            info["replay_case"] = json.dumps(rj.get("case"))[:600] if rj.get("case") else None
            if rj.get("kind") == "no-failing-input-found":
                info["no_longer_checks"] = [b.get("kind") + ":" + str(b.get("stream") or b.get("first_error") or b.get("theorem") or "")[:200] for b in rj.get("no_longer_checks", [])][:4]
        except Exception as ex:
            info["replay_read_error"] = str(ex)
    if cr.returncode == 2:
        info["stderr"] = cr.stderr[-600:]
    meta["checks"][c] = info
sh(f"git -C {wt} reset -q --hard")
shutil.rmtree(scratch, ignore_errors=True)
out = Path("/verif/seeded") / f"{pid}-{os.environ.get('SEED_TAG', '')}{k}"
out.mkdir(parents=True, exist_ok=True)
shutil.copy(patch, out / "patch.diff"); shutil.copy(demo, out / "demo.py")
meta["confirmed"] = (r0.returncode == 0 and ap.returncode == 0 and "failed" not in tline[0] and r1.returncode != 0)
meta["ran"] = f"tools/seed_eval.py {pid} {wt} {k} {' '.join(checks)}: demo on clean worktree; git apply patch; pytest; demo with patch; VERIF_REPO=<worktree> ./check <id> --tier quick"
(out / "meta.json").write_text(json.dumps(meta, indent=1))
print(json.dumps(meta, indent=1))
