"""Mark a listed finding as repaired: python tools/flip_known.py C18 '<key>' <commit>   (status known -> fixed, commit recorded)"""
import json, sys
pid, key, commit = sys.argv[1], sys.argv[2], sys.argv[3]
p = '/verif/known_findings.jsonl'
out, n = [], 0
for l in open(p):
    if not l.strip():
        continue
    e = json.loads(l)
    if e.get('property') == pid and e.get('key') == key and e.get('status') == 'known':
        e['status'] = 'fixed'; e['commit'] = commit; n += 1
        e = {k: e[k] for k in ['status', 'property', 'key', 'commit'] + [k for k in e if k not in ('status', 'property', 'key', 'commit')]}
    out.append(json.dumps(e, ensure_ascii=False))
open(p, 'w').write("\n".join(out) + "\n")
print(f"flipped {n}")
