"""Print the standard builder prompt for one property: python tools/agent_prompt.py C12 'extra hints'"""
import json, sys
pid = sys.argv[1]
extra = sys.argv[2] if len(sys.argv) > 2 else ""
p = next(json.loads(l) for l in open('/verif/properties.jsonl') if json.loads(l)['id'] == pid)
print(f"""You are one of several builders working in parallel on a verification framework in /verif for the Python package in /repo
(iris-hep/func_adl_xAOD: compiles func_adl/qastle LINQ-style query ASTs into C++ analysis code for ATLAS xAOD / CMS AOD / miniAOD).
The technique is fixed: machine-checked proof in Lean 4 of theorems about an executable model, with the model tied to /repo's
current source on every run (translator regenerating Lean data from the source, and/or a correspondence harness running model and
real code on the same inputs), and a failing-input search that evaluates the decidable Spec on the real implementation's output.
The sandbox has no network. Lean 4.33 (lean/lake on PATH), Batteries/Mathlib importable module-by-module, /venv/bin/python (3.12, repo
installed editable, func_adl, qastle, jinja2, pytest, hypothesis), g++ 12, clang 14, bash are available.

YOUR JOB: build the complete check for property {pid} and make it pass on the clean tree.

Property {pid} — {p['title']}
Statement: {p['statement']}
Quantifier: {p['quantifier']['text']}
Why tests can't settle it: {p['why_tests_cant']}
Anchors: {json.dumps(p['anchors'])}

READ FIRST, in this order:
 1. /verif/tools/GUIDE.md  (conventions, file layout, rules — binding)
 2. /verif/DESIGN.md §2, §7 and the section '### {pid}' of §4 (what to model, theorem names, tie, catches, expected partiality; Appendix A has reading notes on the translator)
 3. the finished reference: /verif/lean/FaxVerif/C15/*.lean, /verif/tools/props/c15.py, /verif/tools/vlib.py
 4. the anchored source files in /repo (note: several `fix:` commits were already made — `git -C /repo log --oneline`; model the code AS IT IS NOW)

DELIVER (only these paths; touch nothing else; do not git commit; never modify /repo — use a scratch worktree + VERIF_REPO for mutation tests as the guide says):
  /verif/lean/FaxVerif/{pid}/Model.lean, Spec.lean, Proofs.lean, Theorems.lean, Driver.lean  (+ /verif/lean/FaxVerif/Generated/{pid}*.lean if you use a translator)
  /verif/tools/props/{pid.lower()}.py   (+ helper files under /verif/tools/{pid.lower()}_*/ if needed, e.g. stubs)
  /verif/corpus/{pid}/*.json (optional), lines appended to /verif/known_findings.jsonl (only genuine, reproduced defects)

QUALITY BAR
 - The theorems are the main deliverable: universally quantified (no bound on sizes/depths/lengths), proved with no sorry/axiom/native_decide;
   state the property at full strength, prove as much of it as you can, name partial results `_partial` with explicit decidable hypotheses,
   prove `_counterexample`s where the code really violates the statement. More theorems covering more of the anchored code is better than a thin claim.
 - The tie must be real: the model's executable definitions are run against the real functions on many generated inputs each run
   (and tables/templates/scripts are regenerated from the source each run). A realistic source change that breaks the property while
   still passing the repo's tests must make the check exit 1 with a concrete failing input in the replay file; a harmless refactor must not.
 - `./check {pid} --tier quick` ≤ ~60 s, `--tier thorough` ≤ ~10 min, exit 0 on the clean tree for VERIF_SEED 0..5, evidence validates.
 - Work autonomously until done; do not stop at a skeleton. If something in the DESIGN section proves infeasible, do the strongest feasible
   thing and say exactly what you did instead.
{extra}
FINAL REPORT (short): files written; the theorems proved (name + one line each) and which are partial and why; what the tie covers;
the mutations you tried and whether each was caught; genuine defects found (failing input, observed vs expected, proposed minimal patch);
anything I must know to maintain the check (timings, flakiness risks).""")
