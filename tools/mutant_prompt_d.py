"""Prompt for a round-d 'break the property' agent: python tools/mutant_prompt_d.py C05 d
Same text as mutant_prompt.py plus the one-line ideas of earlier rounds (from DESIGN §9) so the agent looks elsewhere."""
import json, re, subprocess, sys
pid, tag = sys.argv[1], sys.argv[2]
base = subprocess.run([sys.executable, '/verif/tools/mutant_prompt.py', pid, tag], capture_output=True, text=True).stdout
ideas = []
for l in open('/verif/DESIGN.md'):
    m = re.match(r'\| ([C0-9a-z/ \-]+?) \| (.*?) \| (.*?) \|', l)
    if m and pid in m.group(1) and re.search(r'C\d\d-', m.group(1)):
        ideas.append(f"  - {m.group(2)} (needs: {m.group(3)})")
extra = ("\nIDEAS ALREADY USED by earlier testers (do NOT repeat these or close variants; find other mechanisms, other files, other "
         "query features):\n" + "\n".join(ideas) + "\n") if ideas else ""
print(base.replace("FINAL REPORT:", extra + "\nFINAL REPORT:"))
