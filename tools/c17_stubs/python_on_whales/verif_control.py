"""Script and recorder shared between the harness and the stand-in docker client."""
from typing import Any, Dict, List


class Control:
    def __init__(self):
        self.reset({})

    def reset(self, script: Dict[str, Any]):
        """script keys (all optional):
        chunks      : list of [kind, latin-1 text of the bytes] the container prints, in order
        ending      : "success" | "docker_error" | "other_error"   (how the stream ends)
        at_call     : bool — the failure is raised by docker.run itself instead of by the stream
        write_result: bool — the container leaves `result_name` in the directory mounted at /results
        result_name : file name the container writes (default ANALYSIS.root)
        payload     : text written into the result file
        """
        self.script = dict(script)
        self.calls: List[Dict[str, Any]] = []
        self.events: List[str] = []


control = Control()
