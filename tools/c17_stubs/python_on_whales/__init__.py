"""Stand-in for `python_on_whales` used ONLY by the C17 check (/verif/tools/props/c17.py).

The real package is not installed in the sandbox and no docker daemon exists.  This package
exposes exactly what func_adl_xAOD/common/local_dataset.py touches:

    import python_on_whales
    from python_on_whales import docker
    docker.run(image, command, volumes=..., remove=..., stream=...)   -> iterator of (kind, bytes)
    python_on_whales.exceptions.DockerException

`docker.run` is *scripted* per test case through `python_on_whales.verif_control` and *records*
every call (positional and keyword arguments, the content of the directory mounted at /scripts
at call time, whether the run directory exists, ...).  The harness puts this directory on
sys.path; nothing in /repo refers to it.
"""
from . import exceptions  # noqa: F401
from .exceptions import DockerException  # noqa: F401
from .verif_control import control as verif_control  # noqa: F401
from .client import DockerClient

docker = DockerClient()

__all__ = ["docker", "DockerClient", "DockerException", "exceptions", "verif_control"]
