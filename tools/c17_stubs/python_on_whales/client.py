"""The stand-in `docker` object: records its arguments, plays the scripted container."""
import os
from pathlib import Path
from typing import Any, Dict

from .exceptions import DockerException
from .verif_control import control


class OtherContainerFailure(RuntimeError):
    "A failure of the container machinery that is not a DockerException"


def _vol_src(volumes, mount: str):
    for v in volumes or []:
        try:
            if len(v) >= 2 and str(v[1]).rstrip("/") == mount.rstrip("/"):
                return v[0]
        except TypeError:
            pass
    return None


def _snapshot_dir(p) -> Dict[str, Any]:
    res: Dict[str, Any] = {"exists": False, "files": [], "filelist": None, "mode": None}
    try:
        d = Path(p)
        if d.is_dir():
            res["exists"] = True
            res["mode"] = oct(d.stat().st_mode & 0o777)
            res["files"] = sorted(x.name for x in d.iterdir())
            fl = d / "filelist.txt"
            if fl.is_file():
                res["filelist"] = fl.read_text()
            res["executable"] = sorted(x.name for x in d.iterdir() if x.is_file() and os.access(x, os.X_OK))
    except Exception as e:  # recorded, never raised into the code under test
        res["error"] = f"{type(e).__name__}: {e}"
    return res


class DockerClient:
    def run(self, *args, **kwargs):
        script = control.script
        volumes = kwargs.get("volumes")
        scripts_src = _vol_src(volumes, "/scripts")
        results_src = _vol_src(volumes, "/results")
        rec = {
            "args": list(args),
            "kwargs": dict(kwargs),
            "scripts_src": scripts_src,
            "results_src": results_src,
            "scripts_dir": _snapshot_dir(scripts_src) if scripts_src is not None else None,
        }
        control.calls.append(rec)
        control.events.append("run")

        ending = script.get("ending", "success")

        def fail():
            if ending == "docker_error":
                raise DockerException(["docker", "run"] + [str(a) for a in args[:1]], 125, b"", b"container failed")
            raise OtherContainerFailure("container machinery failed")

        if script.get("at_call") and ending != "success":
            control.events.append("fail-at-call")
            fail()

        def stream():
            for i, (kind, text) in enumerate(script.get("chunks", [])):
                control.events.append(f"chunk{i}")
                yield (kind, text.encode("latin-1"))
            # the container leaves its result (a failing container may leave one too: written, then a later step fails)
            if script.get("write_result", True) and results_src is not None:
                try:
                    (Path(results_src) / script.get("result_name", "ANALYSIS.root")).write_text(script.get("payload", "payload"))
                    control.events.append("result-written")
                except Exception as e:
                    control.events.append(f"result-write-failed:{type(e).__name__}")
            if ending != "success":
                control.events.append("fail-in-stream")
                fail()
            control.events.append("container-exit-0")

        if kwargs.get("stream"):
            return stream()
        # non-streaming call: python_on_whales returns the container's stdout as str
        out = b"".join(c for _, c in stream())
        return out.decode(errors="replace")
