"""Same constructor signature as python_on_whales.exceptions.DockerException."""
from typing import List, Optional


class DockerException(Exception):
    def __init__(
        self,
        command_launched: List[str],
        return_code: int,
        stdout: Optional[bytes] = None,
        stderr: Optional[bytes] = None,
    ):
        self.docker_command = command_launched
        self.return_code = return_code
        self.stdout = None if stdout is None else stdout.decode(errors="replace")
        self.stderr = None if stderr is None else stderr.decode(errors="replace")
        super().__init__(
            f"The docker command executed was `{' '.join(map(str, command_launched))}`.\n"
            f"It returned with code {return_code}\n"
        )


class NoSuchImage(DockerException):
    pass


class NoSuchContainer(DockerException):
    pass
