"""g++ oracle for the compiler group: compile the REAL generated per-event code, booking code and
class declarations against a mock of the synthetic event data model (the one every generated query
declares through its own metadata, tools/qgen.py) and a stand-in for the event store / TTree, run it
over the generated events, and return the rows it writes (or the fault).

This validates `lean/FaxVerif/Cpp/Sem.lean` and `tools/cparse.py` against a real C++ compiler and
gives C02's "compilable" clause an executable meaning.
"""
from __future__ import annotations

import os
import shutil
import subprocess
import tempfile
from concurrent.futures import ThreadPoolExecutor
from typing import Any, Dict, List, Optional

import qgen

NS = qgen.PREFIX

COMMON = r"""
#include <vector>
#include <string>
#include <map>
#include <stdexcept>
#include <cmath>
#include <numeric>
#include <cstdio>
#include <functional>
#include <type_traits>
#include <sstream>
#include <iostream>

static int g_status = 0;
struct Printer { std::string name; std::function<void()> print; };

template <class T> struct is_vec : std::false_type {};
template <class T> struct is_vec<std::vector<T>> : std::true_type {};
template <class T> void print_val(const T& v) {
  if constexpr (is_vec<T>::value) { printf("["); bool first = true; for (const auto& x : v) { if (!first) printf(", "); first = false; print_val(x); } printf("]"); }
  else if constexpr (std::is_pointer<T>::value) { printf("<pointer>"); }
  else if constexpr (std::is_same<T, bool>::value) { printf("%d", v ? 1 : 0); }
  else if constexpr (std::is_integral<T>::value) { printf("%lld", (long long)v); }
  else { printf("%.17g", (double)v); }
}
template <class T> const char* type_name() {
  if constexpr (std::is_same<T,int>::value) return "int";
  else if constexpr (std::is_same<T,double>::value) return "double";
  else if constexpr (std::is_same<T,float>::value) return "float";
  else if constexpr (std::is_same<T,bool>::value) return "bool";
  else if constexpr (std::is_same<T,std::vector<int>>::value) return "std::vector<int>";
  else if constexpr (std::is_same<T,std::vector<double>>::value) return "std::vector<double>";
  else if constexpr (std::is_same<T,std::vector<float>>::value) return "std::vector<float>";
  else if constexpr (std::is_same<T,std::vector<bool>>::value) return "std::vector<bool>";
  else if constexpr (std::is_same<T,std::vector<std::vector<double>>>::value) return "std::vector<std::vector<double>>";
  else if constexpr (std::is_same<T,std::vector<std::vector<int>>>::value) return "std::vector<std::vector<int>>";
  else return "other";
}
struct TTree {
  std::string name; std::vector<Printer> branches;
  TTree() {}
  TTree(const char* n, const char*) : name(n) {}
  template <class T> void Branch(const char* bname, T* addr) {
    printf("BRANCH %s %s %s\n", name.c_str(), bname, type_name<T>());
    branches.push_back({bname, [addr]() { print_val(*addr); }});
  }
  void Fill() { printf("ROW %s", name.c_str()); for (auto& b : branches) { printf(" | "); b.print(); } printf("\n"); }
};
static std::map<std::string, TTree*> g_trees;
"""


def elem_struct(ns: str, t: str) -> str:
    return f"""
namespace {ns} {{
struct {t} {{
  int _i = 0, _j = 0; float _f = 0; double _d = 0, _g = 0; bool _b = false;
  std::vector<double> _vs; std::vector<{t}> _kids;
  int i() const {{ return _i; }} int j() const {{ return _j; }} float f() const {{ return _f; }}
  double d() const {{ return _d; }} double g() const {{ return _g; }} bool b() const {{ return _b; }}
  std::vector<double> vs() const {{ return _vs; }} std::vector<{t}> kids() const {{ return _kids; }}
}};
}}
"""


def header(backend: str) -> str:
    ns = NS[backend]
    h = COMMON
    for t in qgen.COLLS.values():
        h += elem_struct(ns, t)
    if backend == "atlas":
        for t in qgen.COLLS.values():
            h += f"namespace {ns} {{ struct {t}Container : std::vector<const {t}*> {{}}; }}\n"
        h += r"""
struct StatusCode { enum V { SUCCESS, FAILURE } v; StatusCode(V x) : v(x) {} bool isSuccess() const { return v == SUCCESS; } bool isFailure() const { return v != SUCCESS; } explicit operator bool() const { return v == SUCCESS; } };
struct EvtStore {
  std::map<std::string, std::pair<std::string, const void*>> banks;
  template <class T> StatusCode retrieve(const T*& out, const std::string& bank) {
    printf("RETRIEVE %s\n", bank.c_str());
    auto it = banks.find(bank);
    if (it == banks.end()) return StatusCode::FAILURE;
    out = static_cast<const T*>(it->second.second); return StatusCode::SUCCESS;
  }
};
static EvtStore g_store;
static EvtStore* evtStore() { return &g_store; }
static bool book(const TTree& t) { g_trees[t.name] = new TTree(t); return true; }
static TTree* tree(const char* n) { return g_trees.at(n); }
// the algorithm's messaging macros (AsgMessaging): the text is built and dropped
#define ANA_MSG_LVL(x) do { std::ostringstream vp_msg_; vp_msg_ << x; } while (0)
#define ANA_MSG_VERBOSE(x) ANA_MSG_LVL(x)
#define ANA_MSG_DEBUG(x) ANA_MSG_LVL(x)
#define ANA_MSG_INFO(x) ANA_MSG_LVL(x)
#define ANA_MSG_WARNING(x) ANA_MSG_LVL(x)
#define ANA_MSG_ERROR(x) ANA_MSG_LVL(x)
#define ANA_CHECK(x) do { if (!(x)) { g_status = 1; return StatusCode::FAILURE; } } while (0)
"""
    else:
        for t in qgen.COLLS.values():
            h += f"namespace {ns} {{ typedef std::vector<{t}> {t}Collection; }}\n"
        h += r"""
namespace edm {
template <class T> struct Handle { const T* p = nullptr; const T& operator*() const { if (!p) throw std::logic_error("invalid handle"); return *p; } const T* operator->() const { return p; } };
struct InputTag { std::string label; InputTag(const char* l) : label(l) {} InputTag(const std::string& l) : label(l) {} };
template <class T> struct EDGetTokenT { std::string label; };
template <class T> struct Service { T* operator->() { static T t; return &t; } };
struct LogSink { LogSink(const char* = "") {} template <class T> LogSink& operator<<(const T&) { return *this; } };
typedef LogSink LogInfo; typedef LogSink LogWarning; typedef LogSink LogError; typedef LogSink LogVerbatim;
}
using edm::Handle;
struct TFileService { template <class T> T* make(const char* n, const char* title) { auto t = new T(n, title); g_trees[n] = t; return t; } };
struct Event {
  std::map<std::string, const void*> banks;
  template <class T> bool getByLabel(const std::string& bank, edm::Handle<T>& h) const { printf("RETRIEVE %s\n", bank.c_str()); auto it = banks.find(bank); if (it == banks.end()) return false; h.p = static_cast<const T*>(it->second); return true; }
  template <class T> bool getByToken(const edm::EDGetTokenT<T>& tok, edm::Handle<T>& h) const { return getByLabel(tok.label, h); }
};
static Event iEvent;
template <class T> edm::EDGetTokenT<T> consumes(const edm::InputTag& tag) { edm::EDGetTokenT<T> t; t.label = tag.label; return t; }
static TTree* myTree = nullptr;
"""
    return h


def cxx_obj(o: Dict[str, Any], ns: str) -> str:
    a = {x["k"]: x["v"] for x in o["o"]["a"]}
    ty = o["o"]["ty"]

    def num(v):
        return str(v.get("i", v.get("d")))

    kids = ", ".join(cxx_obj(k, ns) for k in a["kids"]["v"])
    vs = ", ".join(num(v) for v in a["vs"]["v"])
    return (
        "[]{ " + ty + " o; "
        f"o._i = {num(a['i'])}; o._j = {num(a['j'])}; o._f = {num(a['f'])}; o._d = {num(a['d'])}; o._g = {num(a['g'])}; "
        f"o._b = {'true' if a['b']['b'] else 'false'}; o._vs = {{{vs}}}; o._kids = {{{kids}}}; return o; }}()"
    )


MAIN_FILE = {"atlas": ("query.cxx", "StatusCode query :: execute ()"), "cms_aod": ("Analyzer.cc", "void Analyzer::analyze("), "cms_miniaod": ("Analyzer.cc", "void Analyzer::analyze(")}


def exec_block(backend: str, r: Dict[str, Any]) -> Optional[str]:
    """The per-event method's body `{ … }` cut out of the RENDERED main source file (so that whatever the template
    puts around the generated statements — a try/catch, an early return — is part of what is compiled and run)."""
    fname, head = MAIN_FILE[backend]
    text = (r.get("files") or {}).get(fname)
    if not text or head not in text:
        return None
    i = text.index("{", text.index(head))
    depth, j, in_str = 0, i, False
    while j < len(text):
        ch = text[j]
        if in_str:
            if ch == "\\":
                j += 1
            elif ch == '"':
                in_str = False
        elif ch == '"':
            in_str = True
        elif ch == "{":
            depth += 1
        elif ch == "}":
            depth -= 1
            if depth == 0:
                return text[i : j + 1]
        j += 1
    return None


def template_defines(backend: str, r: Dict[str, Any]) -> str:
    """`#define` blocks (with their continuation lines) of the rendered main source file: macros the template itself
    introduces for the generated statements are part of the text that is compiled"""
    fname, _ = MAIN_FILE[backend]
    text = (r.get("files") or {}).get(fname) or ""
    out, lines, i = [], text.splitlines(), 0
    while i < len(lines):
        if lines[i].lstrip().startswith("#define"):
            blk = [lines[i]]
            while blk[-1].rstrip().endswith("\\") and i + 1 < len(lines):
                i += 1
                blk.append(lines[i])
            name = blk[0].split()[1].split("(")[0] if len(blk[0].split()) > 1 else ""
            out.append(f"#undef {name}")
            out += blk
        i += 1
    return "\n".join(out) + "\n"


def program(backend: str, r: Dict[str, Any], events: List[Dict[str, Any]]) -> str:
    ns = NS[backend]
    src = header(backend)
    src += "\n// ---- class-level declarations\n" + "".join(x if isinstance(x, str) else " ".join(x) for x in r["class_decl"]) + "\n"
    # as in the templates: ATLAS initialize()/execute() return a StatusCode, CMS beginJob/analyze are void
    blk = exec_block(backend, r)
    src += template_defines(backend, r)
    if backend == "atlas":
        src += "static StatusCode book_all() {\n" + "\n".join(r["book"]) + "\nreturn StatusCode::SUCCESS;\n}\n"
        src += "static StatusCode execute()\n" + (blk if blk is not None else "{\n" + "\n".join(r["query"]) + "\nreturn StatusCode::SUCCESS;\n}") + "\n"
    else:
        src += "static void book_all()\n" + "\n".join(r["book"]) + "\n"
        src += "static void execute()\n" + (blk if blk is not None else "\n".join(r["query"])) + "\n"
    # main: no argument = all events in order (one job); "rev" = all events in reverse order; "<k>" = event k alone
    src += "#include <cstring>\n#include <cstdlib>\n"
    for k, ev in enumerate(events):
        src += f"static void load_{k}() {{\n"
        for bi, b in enumerate(ev["banks"]):
            coll = next(c for c in qgen.COLLS if qgen.cont_type(backend, c) == b["type"])
            t = qgen.COLLS[coll]
            objs = ", ".join(cxx_obj(o, ns) for o in b["content"]["v"])
            var = f"b{bi}_" + "".join(ch for ch in b["bank"] if ch.isalnum())
            bank_lit = '"' + "".join({"\\": "\\\\", '"': '\\"', "?": "\\?"}.get(ch, ch) for ch in b["bank"]) + '"'
            src += f"    static std::vector<{ns}::{t}> {var}_{k} = {{{objs}}};\n"
            if backend == "atlas":
                src += f"    static {ns}::{t}Container {var}_c{k}; if ({var}_c{k}.empty()) for (auto& x : {var}_{k}) {var}_c{k}.push_back(&x);\n"
                src += f'    g_store.banks[{bank_lit}] = {{"{b["type"]}", &{var}_c{k}}};\n'
            else:
                src += f'    iEvent.banks[{bank_lit}] = &{var}_{k};\n'
        src += "}\n"
    src += "static bool run_event(int k) {\n  bool faulted = false;\n  switch (k) {\n"
    for k in range(len(events)):
        src += f"    case {k}: load_{k}(); break;\n"
    src += "  }\n"
    src += '  printf("EVENT %d\\n", k); g_status = 0;\n'
    src += '  try { execute(); if (g_status) { printf("FAULT retrieveFailed\\n"); faulted = true; } } catch (const std::out_of_range&) { printf("FAULT loud\\n"); faulted = true; } catch (const std::runtime_error&) { printf("FAULT loud\\n"); faulted = true; } catch (const std::logic_error&) { printf("FAULT retrieveFailed\\n"); faulted = true; }\n'
    src += ("  g_store.banks.clear();\n" if backend == "atlas" else "  iEvent.banks.clear();\n")
    src += "  return faulted;\n}\n"
    src += f"int main(int argc, char** argv) {{\n  book_all();\n  const int n = {len(events)};\n"
    src += '  // a faulting event ends the job (an exception / failed status stops EventLoop and cmsRun)\n  if (argc > 1 && !strcmp(argv[1], "rev")) { for (int k = n - 1; k >= 0; --k) if (run_event(k)) break; }\n'
    src += "  else if (argc > 1) { run_event(atoi(argv[1])); }\n"
    src += "  else { for (int k = 0; k < n; ++k) if (run_event(k)) break; }\n"
    src += "  return 0;\n}\n"
    return src


def run_one(backend: str, r: Dict[str, Any], events: List[Dict[str, Any]], syntax_only=False) -> Dict[str, Any]:
    d = tempfile.mkdtemp(prefix="vp_gxx_")
    try:
        cc = os.path.join(d, "job.cxx")
        with open(cc, "w") as f:
            f.write(program(backend, r, events))
        if syntax_only:
            p = subprocess.run(["g++", "-std=c++17", "-fsyntax-only", "-w", cc], capture_output=True, text=True, timeout=120)
            return {"compiled": p.returncode == 0, "errors": p.stderr[-1500:]}
        exe = os.path.join(d, "job")
        p = subprocess.run(["g++", "-std=c++17", "-O0", "-w", "-o", exe, cc], capture_output=True, text=True, timeout=180)
        if p.returncode != 0:
            return {"compiled": False, "errors": p.stderr[-1500:]}
        q = subprocess.run([exe], capture_output=True, text=True, timeout=60)
        return {"compiled": True, "rc": q.returncode, "events": parse_output(q.stdout), "branches": [l.split()[1:] for l in q.stdout.splitlines() if l.startswith("BRANCH")]}
    finally:
        shutil.rmtree(d, ignore_errors=True)


def syntax_check(backend: str, r: Dict[str, Any], events: List[Dict[str, Any]]) -> Dict[str, Any]:
    """g++ -fsyntax-only on the real text: does it compile, and does it contain an implicit narrowing conversion
    from a floating value to an integer variable (`-Wfloat-conversion`)? The Lean semantics does not convert on
    assignment, so such a program is handed to g++ for its rows."""
    d = tempfile.mkdtemp(prefix="vp_gxx_")
    try:
        cc = os.path.join(d, "job.cxx")
        with open(cc, "w") as f:
            f.write(program(backend, r, events[:1]))
        p = subprocess.run(["g++", "-std=c++17", "-fsyntax-only", "-Wfloat-conversion", cc], capture_output=True, text=True, timeout=120)
        narrowing = [l for l in p.stderr.splitlines() if "-Wfloat-conversion" in l and ("to ‘int’" in l or "to 'int'" in l or "to ‘bool’" in l)]
        return {"compiled": p.returncode == 0, "errors": p.stderr[-1500:] if p.returncode != 0 else "", "narrowing": narrowing[:5]}
    finally:
        shutil.rmtree(d, ignore_errors=True)


def syntax_checks(jobs: List[tuple], workers: int = 14) -> List[Dict[str, Any]]:
    with ThreadPoolExecutor(max_workers=workers) as ex:
        return list(ex.map(lambda j: syntax_check(*j), jobs))


def run_case(backend: str, r: Dict[str, Any], events: List[Dict[str, Any]], per_event=True, job=False, rev=False) -> Dict[str, Any]:
    """Compile once; run each event alone (`per`), all events as one job (`job`), the reversed job (`rev`)."""
    d = tempfile.mkdtemp(prefix="vp_gxx_")
    try:
        cc = os.path.join(d, "job.cxx")
        with open(cc, "w") as f:
            f.write(program(backend, r, events))
        exe = os.path.join(d, "job")
        p = subprocess.run(["g++", "-std=c++17", "-O0", "-w", "-o", exe, cc], capture_output=True, text=True, timeout=180)
        if p.returncode != 0:
            return {"compiled": False, "errors": p.stderr[-1500:]}

        def go(args):
            q = subprocess.run([exe] + args, capture_output=True, text=True, timeout=60)
            return {"compiled": True, "rc": q.returncode, "events": parse_output(q.stdout), "branches": [l.split()[1:] for l in q.stdout.splitlines() if l.startswith("BRANCH")]}

        res: Dict[str, Any] = {"compiled": True}
        if per_event:
            res["per"] = [go([str(k)]) for k in range(len(events))]
        if job:
            res["job"] = go([])
        if rev:
            res["rev"] = go(["rev"])
        return res
    finally:
        shutil.rmtree(d, ignore_errors=True)


def run_cases(jobs: List[tuple], workers: int = 14) -> List[Dict[str, Any]]:
    """jobs: (backend, result, events, per_event, job, rev)"""
    with ThreadPoolExecutor(max_workers=workers) as ex:
        return list(ex.map(lambda j: run_case(*j), jobs))


def parse_output(out: str) -> List[Dict[str, Any]]:
    evs: List[Dict[str, Any]] = []
    for l in out.splitlines():
        if l.startswith("EVENT "):
            evs.append({"rows": []})
        elif l.startswith("ROW ") and evs:
            evs[-1]["rows"].append([c.strip() for c in l.split(" | ")[1:]])
        elif l.startswith("FAULT ") and evs:
            evs[-1]["fault"] = l.split()[1]
    return evs


def run_many(jobs: List[tuple], workers: int = 14, syntax_only=False) -> List[Dict[str, Any]]:
    with ThreadPoolExecutor(max_workers=workers) as ex:
        return list(ex.map(lambda j: run_one(j[0], j[1], j[2], syntax_only), jobs))


def num_eq(cxx: str, lean_num: str) -> bool:
    """compare one printed C++ cell with the Lean `num` rendering (numbers by value, lists element-wise)"""
    import re

    def flat(s):
        return [float(x) for x in re.findall(r"-?(?:\d+\.?\d*(?:[eE][-+]?\d+)?|inf|nan)", s.replace("NaN", "nan"))]

    a, b = flat(cxx), flat(lean_num)
    if cxx.count("[") != lean_num.count("["):
        return False
    if len(a) != len(b):
        return False
    # the Lean driver prints doubles with 6 decimals (C's %f): equal up to that rendering
    # … and a `float`-typed accessor makes <cmath> compute in single precision (std::exp(float) is float): relative 3e-6
    return all((x == y) or (x != x and y != y) or abs(x - y) <= 6e-7 + 3e-6 * max(abs(x), abs(y)) for x, y in zip(a, b))
