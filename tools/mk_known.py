"""One-off helper: turn hand-written failing queries into known_findings.jsonl entries with a
concrete failing event (found by random search with the property's own judge)."""
import json, random, sys
sys.path.insert(0, '/verif/tools'); sys.path.insert(0, '/repo')
import vlib, cgroup, qgen
from cgroup import Case

V = lambda n: {"k": "var", "n": n}
M = lambda o, n: {"k": "meth", "o": o, "n": n}
def coll(c, bank, e="e"): return {"k": "coll", "e": V(e), "c": c, "bank": bank}
def Sel(s, x, f): return {"k": "Select", "s": s, "x": x, "f": f}
def Whr(s, x, f): return {"k": "Where", "s": s, "x": x, "f": f}
def SM(s, x, f): return {"k": "SelectMany", "s": s, "x": x, "f": f}
DS = {"k": "ds"}
I = lambda v: {"k": "int", "v": v}
def B(op, a, b): return {"k": "bin", "op": op, "a": a, "b": b}
def Cmp(op, a, b): return {"k": "cmp", "op": op, "a": a, "b": b}
T = lambda *es: {"k": "tuple", "es": list(es)}

FINDINGS = [
 ("C01", "atlas", "Sum over a SelectMany inside a lambda: the accumulator is declared inside the outer loop, so the sum restarts for every outer element and the last partial sum is written",
  Sel(SM(DS, "e", coll("Bs", "bb")), "x", B("*", M(V("x"), "j"), {"k": "Sum", "s": SM(M(V("x"), "kids"), "k", M(V("k"), "vs"))}))),
 ("C01", "cms_aod", "a column built with a nested SelectMany in an element-level row: Fill is placed inside the inner loops, one row per inner element instead of one row per outer element",
  Sel(SM(DS, "e", coll("As", "ba")), "x", Sel(SM(M(V("x"), "kids"), "k", M(V("k"), "kids")), "z", M(V("x"), "j")))),
 ("C01", "atlas", "Sum over a Select whose body ignores its variable: the update statement is hoisted out of the loop and executed once",
  Sel(SM(DS, "e", coll("Bs", "bb")), "x", {"k": "Sum", "s": Sel(M(V("x"), "vs"), "v", M(V("x"), "i"))})),
 ("C01", "cms_miniaod", "tuple of (Count over a SelectMany, sequence): the scalar column is assigned inside the outer loop only, so it is unset (or stale) when the outer collection is empty",
  Sel(DS, "e", T({"k": "Count", "s": SM(coll("As", "ba2"), "a", M(V("a"), "vs"))}, Sel(coll("Bs", "bb"), "b", M(V("b"), "j"))))),
 ("C01", "cms_aod", "a 2-D column in an element-level row: Fill is placed inside the loop over the inner sequence (one row per inner element)",
  Sel(SM(DS, "e", coll("Bs", "bb")), "x", Sel(M(V("x"), "kids"), "k", M(V("k"), "vs")))),
 ("C01", "cms_aod", "a 1-D column with a Where in an element-level row: the row is dropped when the inner filter rejects every element (Fill placed inside the inner if)",
  Sel(SM(DS, "e", coll("Bs", "bb")), "x", Whr(Sel(M(V("x"), "kids"), "k", M(V("k"), "d")), "v", Cmp(">", V("v"), I(100))))),
 ("C01", "atlas", "a bare collection-valued method as a column is refused (AssertionError) although it is a sequence of numbers",
  Sel(SM(DS, "e", coll("Bs", "bb")), "x", M(V("x"), "vs"))),
 ("C01", "atlas", "Max() is seeded with 0 (func_adl aggregate shortcut): the maximum of all-negative values is reported as 0",
  Sel(DS, "e", {"k": "Max", "s": Sel(coll("As", "ba"), "a", B("-", M(V("a"), "d"), I(50)))})),
 ("C01", "atlas", "Min() is seeded with 0: the minimum of all-positive values is reported as 0",
  Sel(DS, "e", {"k": "Min", "s": Sel(coll("As", "ba"), "a", B("+", M(V("a"), "j"), I(50)))})),
 ("C01", "atlas", "self-join through one shared collection node (collection bound to a lambda parameter and traversed inside its own loop): the inner traversal reuses the outer loop",
  Sel(Sel(DS, "e", coll("As", "ba")), "js", Sel(V("js"), "j", {"k": "Count", "s": Whr(V("js"), "k", Cmp(">", M(V("k"), "d"), M(V("j"), "d")))}))),
 ("C04", "atlas", "First() over a Select whose body ignores its variable never fails on an empty sequence: the guarded capture is hoisted out of the loop, so a value is written instead of a loud failure",
  Sel(SM(DS, "e", coll("As", "ba2")), "x", T(M(V("x"), "j"), {"k": "First", "s": Sel(M(V("x"), "vs"), "v", M(V("x"), "i"))}))),
 ("C04", "atlas", "First() over a SelectMany inside a lambda: the is_first flag is declared inside the outer loop, so First is taken per outer element and an empty inner sequence throws although the flattened sequence is not empty",
  Sel(Sel(DS, "e", coll("As", "ba2")), "js", Sel(V("js"), "x", {"k": "First", "s": SM(M(V("x"), "kids"), "k", M(V("k"), "vs"))}))),
 ("C05", "cms_miniaod", "tuple of (Count over a SelectMany, sequence): the scalar column is assigned only inside the outer loop; on an event with an empty outer collection the previous event's value is written again",
  Sel(DS, "e", T({"k": "Count", "s": SM(coll("As", "ba2"), "a", M(V("a"), "vs"))}, Sel(coll("Bs", "bb"), "b", M(V("b"), "j"))))),
]

class Ctx0(vlib.Ctx):
    pass

def main():
    import importlib
    out = []
    for pid, backend, what, q in FINDINGS:
        prop = importlib.import_module(f"props.{pid.lower()}")
        ctx = vlib.Ctx(prop, "quick", 0)
        rng = random.Random(hash(what) & 0xffff)
        found = None
        for attempt in range(60):
            nev = 3 if pid == "C05" else 1
            evs = [qgen.gen_event(rng, backend, qgen.banks_used(q), empty_bias=0.4) for _ in range(nev)]
            c = Case(backend, q, [], "known", evs)
            if pid == "C05":
                r = Case(backend, q, [], "known", list(reversed(evs)))
                cgroup.translate(c); 
                if not c.result["ok"]: print("refused", what); break
                r.result, r.package = c.result, c.package
                cgroup.run_cases(ctx, [c], with_query=False); cgroup.run_cases(ctx, [r], with_query=False)
                sub = prop._Collector(ctx); prop.judge(sub, c, r)
                hit = sub.hit
            else:
                cgroup.translate(c); cgroup.run_cases(ctx, [c])
                hit = prop.judge(c) if hasattr(prop, "judge") else None
                if hit and hit.get("kind") == "broken": hit = None
            if hit:
                found = (c, hit); break
        if not found:
            print("NOT REPRODUCED:", pid, what[:60]); continue
        c, hit = found
        out.append({"status": "known", "property": pid, "key": c.key(), "what": what, "input": c.to_json()})
        print("ok", pid, c.source()[:100], "|", str(hit.get("what"))[:80])
    with open('/verif/known_findings.jsonl', 'a') as f:
        for e in out:
            f.write(json.dumps(e) + "\n")

main()
