"""dev: run hand-written idiom queries through the C04 judge (clean-tree probe)."""
import sys, random, json, copy
sys.path.insert(0, '/verif/tools')
import os
sys.path.insert(0, os.environ.get("VERIF_REPO", "/repo"))
import vlib, cgroup, qgen, pipeline as P
import props.c04 as c04

ctx = vlib.Ctx(c04, "quick", 0)
rng = random.Random(1)


def V(n): return {"k": "var", "n": n}
def M(o, n): return {"k": "meth", "o": V(o), "n": n}
def I(v): return {"k": "int", "v": v}
def D(v): return {"k": "dbl", "v": v}
def coll(e, c="As", bank="ba"): return {"k": "coll", "e": V(e), "c": c, "bank": bank}
def Sel(s, x, f): return {"k": "Select", "s": s, "x": x, "f": f}
def Whe(s, x, f): return {"k": "Where", "s": s, "x": x, "f": f}
def cmp(op, a, b): return {"k": "cmp", "op": op, "a": a, "b": b}


def S(e="e1"): return Sel(coll(e), "x2", M("x2", "d"))
def SW(e="e1"): return Sel(Whe(coll(e), "x3", cmp(">", M("x3", "d"), D("1.0"))), "x2", M("x2", "d"))


Q = {}
for nm, s in (("plain", S), ("where", SW)):
    Q[f"if-true-{nm}"] = {"k": "if", "c": cmp(">", {"k": "Count", "s": s()}, I(0)), "a": {"k": "First", "s": s()}, "b": D("-1.0")}
    Q[f"if-false-{nm}"] = {"k": "if", "c": cmp("==", {"k": "Count", "s": s()}, I(0)), "a": D("-1.0"), "b": {"k": "First", "s": s()}}
    Q[f"and-{nm}"] = {"k": "and", "a": cmp(">", {"k": "Count", "s": s()}, I(0)), "b": cmp(">", {"k": "First", "s": s()}, D("1.0"))}
    Q[f"or-{nm}"] = {"k": "or", "a": cmp("==", {"k": "Count", "s": s()}, I(0)), "b": cmp(">", {"k": "First", "s": s()}, D("1.0"))}
    Q[f"if-arith-{nm}"] = {"k": "bin", "op": "+", "a": {"k": "if", "c": cmp(">", {"k": "Count", "s": s()}, I(0)), "a": {"k": "bin", "op": "*", "a": {"k": "First", "s": s()}, "b": D("2.0")}, "b": D("-1.0")}, "b": D("1.0")}
Q["const-sum"] = {"k": "Sum", "s": Sel(coll("e1"), "x2", I(1))}
Q["const-count"] = {"k": "Count", "s": Sel(coll("e1"), "x2", I(1))}
Q["const-vec"] = Sel(coll("e1"), "x2", I(1))
Q["const-first"] = {"k": "First", "s": Sel(coll("e1"), "x2", D("1.5"))}
Q["nested-const-sum"] = Sel(coll("e1"), "x5", {"k": "bin", "op": "+", "a": M("x5", "d"), "b": {"k": "Sum", "s": Sel(M("x5", "kids") if False else coll("e1", "Bs", "bb"), "x6", I(1))}})
Q["nested-const-sum-kids"] = Sel(coll("e1"), "x5", {"k": "Sum", "s": Sel({"k": "meth", "o": V("x5"), "n": "kids"}, "x6", I(1))})

cases = []
names = []
for nm, body in Q.items():
    for b in P.BACKENDS[:1] if len(sys.argv) < 2 else P.BACKENDS:
        q = Sel({"k": "ds"}, "e1", body)
        banks = qgen.banks_used(q)
        evs = [qgen.gen_event(rng, b, banks, empty_bias=0.5) for _ in range(5)]
        cases.append(cgroup.Case(b, q, ["col1"], "select", evs))
        names.append(nm + ":" + b)
# event-level Where with guard
wq = Sel(Whe({"k": "ds"}, "e1", {"k": "and", "a": cmp(">", {"k": "Count", "s": S()}, I(0)), "b": cmp(">", {"k": "First", "s": S()}, D("1.0"))}), "e7", Sel(coll("e7"), "x8", M("x8", "d")))
cases.append(cgroup.Case("atlas", wq, ["col1"], "where_select", [qgen.gen_event(rng, "atlas", qgen.banks_used(wq), empty_bias=0.5) for _ in range(5)]))
names.append("where-guard")
c04._P.evaluate(ctx, cases)
for nm, c in zip(names, cases):
    if not c.result["ok"]:
        print(nm, "REFUSED", c.result["error"], c.result["message"][:200])
        continue
    hit = c04.judge(c)
    ex = cgroup.exec_outcomes(c)
    print(nm, "OK" if hit is None else ("HIT " + hit["what"]), [cgroup.fault_class(d) for d in c.answer.get("denote", [])] if "bad" not in c.answer else c.answer)
    if hit is not None and "-v" in sys.argv:
        print(c.source()); print("\n".join(c.result["query"])); print(json.dumps(hit.get("observed"))[:600])
