"""Text tie between the Lean translator model of the CAPTURED-VARIABLE nested-iteration fragment
(`Gen.compileC`, lean/FaxVerif/Gen/Capture.lean) and the real translator.

Fragment (outer chain = an event collection filtered by pure `Where`s, elements stay objects; inside the lambda over
its elements ANOTHER event-level collection is iterated with predicates / projections that mention BOTH loop variables):
  (a) ds.Select(e -> {name: e.Coll(bank).Where*.Select(y -> XE), ...})                        vector column
  (b) ds.Select(e -> {name: e.Coll(bank).Where*.Select(y -> e.Coll2(bank2).{Select|Where}*), ...})   2-D column
      ((a) and (b) columns mixed in one row)
  XE     = pure expression of y | e.Coll2(bank2).{Select|Where}*.Count() | ....Sum() | + - * / comparisons, -, not
  steps of a captured chain: lambdas over `t` whose bodies (CE) mix pure expressions of `t` (inner) and of `y` (outer)

Constraints of the fragment (respected by the generator; the driver's "wt" re-checks them on every query):
every `Select` body of a captured chain mentions the INNER variable (bodies built from the outer element only are a
known translator defect), `Where` conditions are inner-only / mixed / (about 10%) outer-only, Sum / 2-D chains end
in numbers, the outer chain has `Where` steps only, arithmetic is well typed.

For every generated query: the model's package text comes from the Lean driver
(`FaxVerif/Gen/CaptureDriver.lean`, op `compileC`), the implementation's from the real pipeline
(`pipeline.translate_functional`); both are parsed with the same parser (`cparse`) and compared modulo a
bijective renaming of declared identifiers (first-occurrence numbering) and the value of floating
literals (`gentie.canon_package`). Additionally the model's package is EXECUTED in the Lean semantics on
generated events — event by event from the initial class state, and as ONE job over all the events — and
compared with the Lean denotation of the query.

    run_stream(ctx_or_rng, n) -> (agree, total, first_disagreement)

`ctx_or_rng`: a vlib check context (its `.rng` and `.driver` are used) or a `random.Random`.
Standalone:  /venv/bin/python tools/gentie_capture.py [n] [seed]
"""
from __future__ import annotations

import json
import os
import random
import subprocess
import sys
from pathlib import Path
from typing import Any, Dict, List, Optional, Tuple

sys.path.insert(0, str(Path(__file__).resolve().parent))

import gentie  # noqa: E402
import qgen  # noqa: E402
import pipeline as P  # noqa: E402
from gentie_nested import _pe_src, chain_src, _fault_class, _norm_num, _same_outcome  # noqa: E402

DRIVER = "FaxVerif/Gen/CaptureDriver.lean"
DRIVER_IMPORTS = ["FaxVerif.Cpp.Json", "FaxVerif.Cpp.Check", "FaxVerif.Gen.Render", "FaxVerif.Gen.Capture"]
LEAN = Path(__file__).resolve().parent.parent / "lean"
OUTER = "y"  # Gen.outerVar
CAP = "t"  # Gen.capVar: the parameter of every lambda of a captured chain

LAST_STATS: Dict[str, int] = {}
LAST_DISAGREEMENTS: List[Dict[str, Any]] = []  # every disagreement of the last run_stream (with its events)

BANKS = {"As": ["ba", "ba2"], "Bs": ["bb"]}

# ---------------------------------------------------------------- predicates on CE (mirrors of Gen.usesItPE / usesInner)


def uses_it_pe(p) -> bool:
    if isinstance(p, dict):
        if p.get("k") in ("it", "meth"):
            return True
        return any(uses_it_pe(v) for v in p.values())
    return False


def uses_inner(e: Dict[str, Any]) -> bool:
    k = e["k"]
    if k == "inner":
        return uses_it_pe(e["p"])
    if k == "outer":
        return False
    return any(uses_inner(e[x]) for x in ("a", "b") if x in e)


def uses_outer(e: Dict[str, Any]) -> bool:
    k = e["k"]
    if k == "outer":
        return uses_it_pe(e["p"])
    if k == "inner":
        return False
    return any(uses_outer(e[x]) for x in ("a", "b") if x in e)


def where_mode(e: Dict[str, Any]) -> str:
    i, o = uses_inner(e), uses_outer(e)
    return "mixed" if i and o else ("inner-only" if i else "outer-only")


# ---------------------------------------------------------------- generation


class CaptureGen:
    """Type-directed generator of the captured-variable fragment."""

    def __init__(self, rng):
        self.rng = rng
        self.lite = gentie.LiteGen(rng)

    # -- leaves
    def inner_leaf(self, cur, ty, depth=1):
        return {"k": "inner", "p": self.lite.pe(cur, ty, depth)}

    def outer_leaf(self, ty, depth=1):
        return {"k": "outer", "p": self.lite.pe(None, ty, depth)}

    def inner_dep(self, cur, ty):
        """an inner leaf of type `ty` that uses `t` (None when no such leaf exists: int wanted, current value double)"""
        for _ in range(20):
            p = self.lite.dep(self.lite.pe(cur, ty, 1), cur, ty)
            if p is not None and uses_it_pe(p):
                return {"k": "inner", "p": p}
        return None

    def outer_dep(self, ty):
        for _ in range(20):
            p = self.lite.dep(self.lite.pe(None, ty, 1), None, ty)
            if p is not None and uses_it_pe(p):
                return {"k": "outer", "p": p}
        return {"k": "outer", "p": {"k": "meth", "n": "i", "ty": "int"}}

    # -- 2-variable expressions
    def ce(self, cur, ty: str, depth: int, p_inner: float = 0.6) -> Dict[str, Any]:
        """cur: None = the inner element is an object, else the numeric type of the inner current value"""
        r = self.rng
        if ty != "bool" and (depth <= 0 or r.random() < 0.3):
            if r.random() < p_inner:
                return self.inner_leaf(cur, ty, r.choice([0, 1, 1, 2]))
            return self.outer_leaf(ty, r.choice([0, 1, 1]))
        if ty == "bool":
            if depth <= 0 or r.random() < 0.15:
                # a one-variable condition
                if r.random() < p_inner:
                    return {"k": "inner", "p": self.lite.pe(cur, "bool", max(depth, 1))}
                return {"k": "outer", "p": self.lite.pe(None, "bool", max(depth, 1))}
            if r.random() < 0.85:
                t = r.choice(["int", "double"])
                return {"k": "cmp", "op": r.choice(["<", "<=", ">", ">=", "==", "!="]), "a": self.ce(cur, t, depth - 1, p_inner), "b": self.ce(cur, t, depth - 1, p_inner)}
            return {"k": "not", "a": self.ce(cur, "bool", depth - 1, p_inner)}
        c = r.choice(["bin", "bin", "bin", "div", "neg"] if ty == "double" else ["bin", "bin", "neg"])
        if c == "bin":
            ta = ty if ty == "int" else r.choice(["int", "double"])
            tb = ty if ty == "int" else ("double" if ta == "int" else r.choice(["int", "double"]))
            return {"k": "bin", "op": r.choice(["+", "-", "*"]), "a": self.ce(cur, ta, depth - 1, p_inner), "b": self.ce(cur, tb, depth - 1, p_inner)}
        if c == "div":
            b = r.choice([{"k": "int", "v": 2}, {"k": "dbl", "v": "4.0"}, {"k": "int", "v": 4}])
            return {"k": "bin", "op": "/", "a": self.ce(cur, r.choice(["int", "double"]), depth - 1, p_inner), "b": {"k": "inner" if p_inner >= 0.5 else "outer", "p": b}}
        return {"k": "neg", "a": self.ce(cur, ty, depth - 1, p_inner)}

    def ce_mode(self, cur, ty: str, depth: int, mode: str) -> Optional[Dict[str, Any]]:
        """mode: 'inner-only' | 'mixed' | 'outer-only' (which variables the expression mentions)"""
        r = self.rng
        p_inner = {"inner-only": 1.0, "mixed": 0.55, "outer-only": 0.0}[mode]
        for _ in range(12):
            e = self.ce(cur, ty, depth, p_inner)
            if where_mode(e) == mode and (uses_inner(e) or uses_outer(e)):
                return e
        # explicit constructions
        if mode == "inner-only":
            return self.inner_dep(cur, ty)
        if mode == "outer-only":
            return self.outer_dep(ty)
        if ty == "bool":
            t = r.choice(["int", "double"])
            a, b = self.inner_dep(cur, t), self.outer_dep(t)
            if a is None:
                a = self.inner_dep(cur, "double")
            if r.random() < 0.5:
                a, b = b, a
            return {"k": "cmp", "op": r.choice(["<", "<=", ">", ">=", "==", "!="]), "a": a, "b": b}
        a, b = self.inner_dep(cur, ty), self.outer_dep(ty)
        if a is None:
            return None
        if r.random() < 0.5:
            a, b = b, a
        return {"k": "bin", "op": r.choice(["+", "-", "*"]), "a": a, "b": b}

    def sel_body(self, cur, ty: str) -> Optional[Dict[str, Any]]:
        """body of a captured `Select`: mentions the INNER variable (constraint 1) and is not the identity
        (`Select(lambda t: t)` is removed by func_adl's normaliser before the translator sees the query)"""
        r = self.rng
        for _ in range(20):
            e = self.ce_mode(cur, ty, r.choice([1, 2, 2]), r.choice(["inner-only", "mixed", "mixed"]))
            if e is not None and uses_inner(e) and not (e["k"] == "inner" and e["p"].get("k") == "it"):
                return e
        leaf = {"k": "it"} if cur is not None else {"k": "meth", "n": "i", "ty": "int"}
        return {"k": "bin", "op": "*", "a": {"k": "inner", "p": leaf}, "b": {"k": "inner", "p": {"k": "int", "v": 2}}}

    def whr_cond(self, cur) -> Dict[str, Any]:
        r = self.rng
        u = r.random()
        mode = "outer-only" if u < 0.1 else ("mixed" if u < 0.7 else "inner-only")
        return self.ce_mode(cur, "bool", r.choice([1, 1, 2]), mode)

    # -- outer chain: objects stay objects -> Where steps only, conditions use their variable
    def outer(self) -> Dict[str, Any]:
        r = self.rng
        coll = r.choice(["As", "Bs"])
        bank = r.choice(BANKS[coll])
        steps = []
        for _ in range(r.choice([0, 0, 1, 1, 2, 3])):
            steps.append({"k": "whr", "e": self.lite.dep(self.lite.pe(None, "bool", 2), None, "bool")})
        return {"coll": coll, "bank": bank, "steps": steps}

    # -- captured inner chain over e.Coll(bank)
    def cchain(self, oc: Dict[str, Any], want: str) -> Tuple[Dict[str, Any], Optional[str]]:
        """oc: the outer chain (the inner one iterates the same collection / bank in about a quarter of the cases);
        want: 'any' | 'num' (ends in numbers) | 'int' (ends in int) | 'double'"""
        r = self.rng
        if r.random() < 0.25:
            coll, bank = oc["coll"], oc["bank"]
        else:
            coll = r.choice(["As", "Bs"])
            bank = r.choice(BANKS[coll])
        cur: Optional[str] = None
        steps: List[Dict[str, Any]] = []
        for _ in range(r.choice([0, 1, 1, 1, 2, 2, 3])):
            u = r.random()
            if cur is None and want != "any" and u < 0.35:
                ty = "int" if want == "int" else r.choice(["int", "double"])
                steps.append({"k": "sel", "e": self.sel_body(cur, ty)})
                cur = ty
            elif cur is not None and cur != "int" and want != "int" and u < 0.35:
                steps.append({"k": "sel", "e": self.sel_body(cur, "double")})
                cur = "double"
            elif cur == "int" and u < 0.25:
                steps.append({"k": "sel", "e": self.sel_body(cur, "int")})
            else:
                steps.append({"k": "whr", "e": self.whr_cond(cur)})
        if want in ("num", "int", "double") and cur is None:
            ty = "int" if want == "int" else ("double" if want == "double" else r.choice(["int", "double"]))
            steps.append({"k": "sel", "e": self.sel_body(None, ty)})
            cur = ty
        return {"coll": coll, "bank": bank, "steps": steps}, cur

    def agg(self, oc, ty: str) -> Dict[str, Any]:
        r = self.rng
        if ty == "int":
            if r.random() < 0.6:
                return {"k": "ccount", "c": self.cchain(oc, "any")[0]}
            return {"k": "csum", "c": self.cchain(oc, "int")[0]}
        if r.random() < 0.25:
            return {"k": "ccount", "c": self.cchain(oc, "any")[0]}
        return {"k": "csum", "c": self.cchain(oc, "num")[0]}

    def xe(self, oc, ty: str, depth: int) -> Dict[str, Any]:
        r = self.rng
        if ty == "bool":
            t = r.choice(["int", "double"])
            e = {"k": "cmp", "op": r.choice(["<", "<=", ">", ">=", "==", "!="]), "a": self.xe(oc, t, depth - 1), "b": self.xe(oc, t, depth - 1)}
            return {"k": "not", "a": e} if r.random() < 0.15 else e
        if depth <= 0 or r.random() < 0.35:
            if r.random() < 0.75:
                return self.agg(oc, ty)
            return {"k": "pure", "p": self.lite.pe(None, ty, 1)}
        c = r.choice(["bin", "bin", "div", "neg"] if ty == "double" else ["bin", "neg"])
        if c == "bin":
            ta = ty if ty == "int" else r.choice(["int", "double"])
            tb = ty if ty == "int" else ("double" if ta == "int" else r.choice(["int", "double"]))
            return {"k": "bin", "op": r.choice(["+", "-", "*"]), "a": self.xe(oc, ta, depth - 1), "b": self.xe(oc, tb, depth - 1)}
        if c == "div":
            b = r.choice([{"k": "pure", "p": {"k": "int", "v": 2}}, {"k": "pure", "p": {"k": "dbl", "v": "4.0"}},
                          {"k": "bin", "op": "+", "a": {"k": "ccount", "c": self.cchain(oc, "any")[0]}, "b": {"k": "pure", "p": {"k": "int", "v": 1}}}])
            return {"k": "bin", "op": "/", "a": self.xe(oc, r.choice(["int", "double"]), depth - 1), "b": b}
        return {"k": "neg", "a": self.xe(oc, ty, depth - 1)}

    def xe_with_agg(self, oc, ty: str, depth: int) -> Dict[str, Any]:
        e = self.xe(oc, ty, depth)
        for _ in range(6):
            if has_agg(e):
                break
            e = self.xe(oc, ty, depth)
        return e

    def cq(self) -> Dict[str, Any]:
        r = self.rng
        cols = []
        for i in range(r.choice([1, 1, 2, 2, 3])):
            nm = f"c{i}_{r.choice(['pt', 'eta', 'n'])}"
            oc = self.outer()
            if r.random() < 0.6:
                cols.append({"name": nm, "k": "agg", "c": oc, "e": self.xe_with_agg(oc, r.choice(["int", "double", "double", "bool"]), r.choice([0, 0, 1, 2]))})
            else:
                cols.append({"name": nm, "k": "twoD", "c": oc, "ic": self.cchain(oc, "num")[0]})
        return {"k": "eventRows", "cols": cols}


def has_agg(e) -> bool:
    if isinstance(e, dict):
        if e.get("k") in ("ccount", "csum"):
            return True
        return any(has_agg(v) for v in e.values())
    if isinstance(e, list):
        return any(has_agg(v) for v in e)
    return False


def cchains_of(e, acc: List[Dict[str, Any]]):
    """all the captured chains of a column / an expression"""
    if isinstance(e, dict):
        if e.get("k") in ("ccount", "csum"):
            acc.append(e["c"])
            return
        if e.get("k") == "twoD":
            acc.append(e["ic"])
            return
        for v in e.values():
            cchains_of(v, acc)
    elif isinstance(e, list):
        for v in e:
            cchains_of(v, acc)


def count_ops(cq: Dict[str, Any], acc: Dict[str, int]):
    def bump(k, n=1):
        acc[k] = acc.get(k, 0) + n

    def walk(e):
        if isinstance(e, dict):
            if e.get("k") in ("ccount", "csum"):
                bump(e["k"])
            for v in e.values():
                walk(v)
        elif isinstance(e, list):
            for v in e:
                walk(v)

    for col in cq["cols"]:
        bump(col["k"])
        walk(col.get("e"))
        chains: List[Dict[str, Any]] = []
        cchains_of(col, chains)
        if len(chains) >= 2:
            bump("several-captured-chains-in-one-column")
        if col["c"]["steps"]:
            bump("outer-where")
        for ic in chains:
            bump("captured-chain")
            bump("inner:" + ic["coll"])
            if (ic["coll"], ic["bank"]) == (col["c"]["coll"], col["c"]["bank"]):
                bump("same-collection")
            if not ic["steps"]:
                bump("inner-no-steps")
            if any(s["k"] == "whr" for s in ic["steps"]):
                bump("inner-where")
            if any(s["k"] == "sel" for s in ic["steps"]):
                bump("inner-select")
            if any(uses_outer(s["e"]) for s in ic["steps"]):
                bump("captures-outer-variable")
            for s in ic["steps"]:
                if s["k"] == "whr":
                    bump(where_mode(s["e"]) + "-where")
                else:
                    bump(("mixed" if uses_outer(s["e"]) else "inner-only") + "-select")


def inside_constraints(cq: Dict[str, Any]) -> bool:
    """constraint (1), python side: every captured `Select` body mentions the inner variable"""
    for col in cq["cols"]:
        chains: List[Dict[str, Any]] = []
        cchains_of(col, chains)
        for ic in chains:
            for s in ic["steps"]:
                if s["k"] == "sel" and not uses_inner(s["e"]):
                    return False
    return True


# ---------------------------------------------------------------- CQ -> python source text (mirror of Gen.CQ.toQuery)


def ce_src(e: Dict[str, Any]) -> str:
    k = e["k"]
    if k == "inner":
        return _pe_src(CAP, e["p"])
    if k == "outer":
        return _pe_src(OUTER, e["p"])
    if k in ("bin", "cmp"):
        return f"({ce_src(e['a'])} {e['op']} {ce_src(e['b'])})"
    if k == "neg":
        return f"(-{ce_src(e['a'])})"
    if k == "not":
        return f"(not {ce_src(e['a'])})"
    raise ValueError(k)


def cchain_src(ev: str, ic: Dict[str, Any]) -> str:
    src = f"{ev}.{ic['coll']}({json.dumps(ic['bank'])})"
    for st in ic["steps"]:
        src = f"{src}.{'Select' if st['k'] == 'sel' else 'Where'}(lambda {CAP}: {ce_src(st['e'])})"
    return src


def xe_src(ev: str, e: Dict[str, Any]) -> str:
    k = e["k"]
    R = lambda a: xe_src(ev, a)
    if k == "pure":
        return _pe_src(OUTER, e["p"])
    if k == "ccount":
        return cchain_src(ev, e["c"]) + ".Count()"
    if k == "csum":
        return cchain_src(ev, e["c"]) + ".Sum()"
    if k in ("bin", "cmp"):
        return f"({R(e['a'])} {e['op']} {R(e['b'])})"
    if k == "neg":
        return f"(-{R(e['a'])})"
    if k == "not":
        return f"(not {R(e['a'])})"
    raise ValueError(k)


def cq_source(cq: Dict[str, Any], mds: List[Dict[str, Any]]) -> str:
    """the call tree the backend receives"""
    s = "ds0"
    for d in mds:
        s = f"MetaData({s}, {d!r})"
    items = []
    for col in cq["cols"]:
        ch = chain_src("e", col["c"])
        body = xe_src("e", col["e"]) if col["k"] == "agg" else cchain_src("e", col["ic"])
        items.append(f"{json.dumps(col['name'])}: {ch}.Select(lambda {OUTER}: {body})")
    return f"Select({s}, lambda e: {{{', '.join(items)}}})"



# ---------------------------------------------------------------- CQ -> user-level query JSON (qgen / cgroup format; mirror of Gen.CQ.toQuery)


def ce_q(e: Dict[str, Any]) -> Dict[str, Any]:
    k = e["k"]
    if k == "inner":
        return gentie.pe_q(CAP, e["p"])
    if k == "outer":
        return gentie.pe_q(OUTER, e["p"])
    if k in ("bin", "cmp"):
        return {"k": k, "op": e["op"], "a": ce_q(e["a"]), "b": ce_q(e["b"])}
    if k in ("neg", "not"):
        return {"k": k, "a": ce_q(e["a"])}
    raise ValueError(k)


def cchain_q(ev: str, ic: Dict[str, Any]) -> Dict[str, Any]:
    q = {"k": "coll", "e": {"k": "var", "n": ev}, "c": ic["coll"], "bank": ic["bank"]}
    for st in ic["steps"]:
        q = {"k": "Select" if st["k"] == "sel" else "Where", "s": q, "x": CAP, "f": ce_q(st["e"])}
    return q


def xe_q(ev: str, e: Dict[str, Any]) -> Dict[str, Any]:
    k = e["k"]
    if k == "pure":
        return gentie.pe_q(OUTER, e["p"])
    if k == "ccount":
        return {"k": "Count", "s": cchain_q(ev, e["c"])}
    if k == "csum":
        return {"k": "Sum", "s": cchain_q(ev, e["c"])}
    if k in ("bin", "cmp"):
        return {"k": k, "op": e["op"], "a": xe_q(ev, e["a"]), "b": xe_q(ev, e["b"])}
    if k in ("neg", "not"):
        return {"k": k, "a": xe_q(ev, e["a"])}
    raise ValueError(k)


def cq_query(cq: Dict[str, Any]) -> Tuple[Dict[str, Any], List[str]]:
    """the query in the JSON form of the differential machinery (cgroup.Case): used to turn a text disagreement
    into a concrete failing input by executing the IMPLEMENTATION's own output against the denotation"""
    names = [c["name"] for c in cq["cols"]]
    es = []
    for col in cq["cols"]:
        body = xe_q("e", col["e"]) if col["k"] == "agg" else cchain_q("e", col["ic"])
        es.append({"k": "Select", "s": gentie.chain_q("e", col["c"]), "x": OUTER, "f": body})
    return {"k": "Select", "s": {"k": "ds"}, "x": "e", "f": {"k": "dict", "ks": names, "es": es}}, names


# ---------------------------------------------------------------- events


def banks_of(cq: Dict[str, Any]) -> Dict[str, str]:
    """ALL the banks the query reads: of the outer chains and of the captured inner chains"""
    banks: Dict[str, str] = {}
    for col in cq["cols"]:
        banks[col["c"]["bank"]] = col["c"]["coll"]
        chains: List[Dict[str, Any]] = []
        cchains_of(col, chains)
        for ic in chains:
            banks[ic["bank"]] = ic["coll"]
    return banks


def gen_event(rng, backend: str, cq: Dict[str, Any], faulty: bool) -> Dict[str, Any]:
    ev = qgen.gen_event(rng, backend, banks_of(cq))
    if faulty:
        for b in ev["banks"]:
            objs = b["content"]["v"]
            for i in range(len(objs)):
                u = rng.random()
                if u < 0.1:
                    objs[i] = {"null": True}
                elif u < 0.2:
                    drop = rng.choice(["i", "j", "f", "d", "g", "b"])
                    objs[i]["o"]["a"] = [a for a in objs[i]["o"]["a"] if a["k"] != drop]
    return ev


# ---------------------------------------------------------------- the stream


def _run_driver(reqs: List[Dict[str, Any]]) -> List[Dict[str, Any]]:
    if not reqs:
        return []
    inp = "\n".join(json.dumps(r, ensure_ascii=False) for r in reqs) + "\n"
    p = subprocess.run(["lake", "env", "lean", "--run", DRIVER], cwd=str(LEAN), capture_output=True, text=True, input=inp, timeout=1800)
    lines = [l for l in p.stdout.split("\n") if l.strip()]
    if p.returncode != 0 or len(lines) != len(reqs):
        return [{"bad": f"driver failed rc={p.returncode}: {p.stderr[-500:]}"} for _ in reqs]
    out = []
    for l in lines:
        try:
            out.append(json.loads(l))
        except Exception:
            out.append({"bad": "unparsable: " + l[:200]})
    return out


def run_stream(ctx_or_rng, n: int, events_per_query: int = 4) -> Tuple[int, int, Optional[Dict[str, Any]]]:
    """Generate `n` queries of the captured-variable fragment (backends in rotation), compare model text with the
    real translator's, and the executed model (per event and as a job) with the query's denotation.
    Returns (agree, total, first_disagreement)."""
    ctx = ctx_or_rng if hasattr(ctx_or_rng, "driver") and hasattr(ctx_or_rng, "rng") else None
    rng = ctx.rng if ctx is not None else ctx_or_rng
    stats: Dict[str, int] = {}

    def count(name, k=1):
        stats[name] = stats.get(name, 0) + k
        if ctx is not None:
            ctx.count("capture-tie:" + name, k)

    reqs, meta = [], []
    for i in range(n):
        b = P.BACKENDS[i % 3]
        cq = CaptureGen(rng).cq()
        for _ in range(20):
            if gentie.valid(cq) and inside_constraints(cq):
                break
            count("regenerated")
            cq = CaptureGen(rng).cq()
        if not (gentie.valid(cq) and inside_constraints(cq)):
            continue
        src = cq_source(cq, qgen.metadata(b))
        r = P.translate_functional(b, src)
        faulty = rng.random() < 0.3
        evs = [gen_event(rng, b, cq, faulty) for _ in range(events_per_query)]
        reqs.append({"op": "compileC", "backend": b, "colls": gentie.colls_json(b), "cq": cq, "events": evs})
        meta.append((b, cq, cq_source(cq, []), r, evs))
    outs = ctx.driver(DRIVER, reqs) if ctx is not None else _run_driver(reqs)
    agree, total, first = 0, 0, None
    LAST_DISAGREEMENTS.clear()
    for (b, cq, src, r, evs), o in zip(meta, outs):
        total += 1
        count("total")
        count("backend:" + b)
        count("shape:" + "+".join(sorted({c["k"] for c in cq["cols"]})))
        count(f"columns:{len(cq['cols'])}")
        ops: Dict[str, int] = {}
        count_ops(cq, ops)
        for k, v in ops.items():
            count("op:" + k, v)
        if ctx is not None:
            ctx.case(f"capture|{b}|{src}", True, {"backend": b, "fragment_query": src})
        bad = None
        if "bad" in o:
            bad = {"kind": "driver", "what": o["bad"]}
        elif not o.get("wt"):
            bad = {"kind": "generator-outside-fragment", "what": "the driver says the generated query is outside the proved fragment (wt = false): the generator must stay inside"}
        elif not r["ok"]:
            count("inside-proved-fragment")
            bad = {"kind": "refused", "what": f"a query of the modelled fragment is refused ({r['error']}: {r.get('message', '')[:200]})"}
        else:
            count("inside-proved-fragment")
            d = gentie.first_diff(gentie.model_canon(o), gentie.impl_canon(r))
            if d is not None:
                bad = {"kind": "text", "first_difference": d, "model_body": o.get("body"), "impl_body": r["query"]}
            else:
                count("text-agree")
                all_ok = True
                for ex, de in zip(o["exec"], o["denote"]):
                    if _fault_class(de) != "ok":
                        count("event:query-faults")
                        all_ok = False
                    else:
                        count("event:rows")
                        if ex.get("rows") == de.get("rows"):
                            count("event:rows-typed-equal")
                        vals = [v for row in de.get("num", []) for v in row]
                        if any(v != "[]" for v in vals):
                            count("event:outer-element-kept")
                        if any(c in v for v in vals for c in "123456789"):
                            count("event:non-zero-value")
                    ok, why = _same_outcome(ex, de)
                    if not ok:
                        bad = {"kind": "model-instance", "what": f"Gen.compileC executed vs denote: {why}", "exec": ex, "denote": de, "model_body": o.get("body")}
                        break
                if bad is None and all_ok:
                    # the job over all the events = the concatenation of the per-event denotations
                    want = _norm_num([row for de in o["denote"] for row in de["num"]])
                    job = o.get("job", {})
                    count("job:checked")
                    if _fault_class(job) != "ok" or _norm_num(job.get("num")) != want:
                        bad = {"kind": "model-instance", "what": "Gen.compileC run as ONE job vs the per-event denotations", "job": job, "want": want, "model_body": o.get("body")}
        if bad is None:
            agree += 1
            count("backend-agree:" + b)
        else:
            count("disagree:" + bad["kind"])
            bad.update({"backend": b, "source": src, "cq": cq})
            LAST_DISAGREEMENTS.append(dict(bad, events=evs))
            if first is None:
                first = bad
            if os.environ.get("CAPTURE_TIE_ALL"):
                print("DISAGREE", bad["kind"], b, src, bad.get("first_difference") or bad.get("what"))
    LAST_STATS.clear()
    LAST_STATS.update(stats)
    return agree, total, first


if __name__ == "__main__":
    n = int(sys.argv[1]) if len(sys.argv) > 1 else 240
    seed = int(sys.argv[2]) if len(sys.argv) > 2 else int(os.environ.get("VERIF_SEED", "1"))
    a, t, first = run_stream(random.Random(f"capture-tie:{seed}"), n)
    print(f"capture tie: {a}/{t} agree (seed {seed})")
    for k in sorted(LAST_STATS):
        print(f"  {k}: {LAST_STATS[k]}")
    if first is not None:
        print("FIRST DISAGREEMENT:")
        print(json.dumps({k: v for k, v in first.items() if k not in ("model_body", "impl_body")}, indent=1)[:3000])
        if first.get("model_body"):
            print("--- model")
            print("\n".join(first["model_body"]))
        if first.get("impl_body"):
            print("--- implementation")
            print("\n".join(first["impl_body"]))
        sys.exit(1)
