"""C02 (parser extension) — N-version tie of the Lean parser of the emitted text
(lean/FaxVerif/Cpp/Parse.lean) with tools/cparse.py.

    run_stream(ctx, programs, n_fuzz)
        programs : [(backend, source, result)] — every program the generated stream of C02 translated
                   (result = tools/pipeline.py dict of the REAL translator's text)
        * the Lean parser's statement tree (canonical JSON) = the decoded tree of cparse.parse_body +
          qgen._attach_retrieve_types, on the per-event body AND on the booking block;
        * the Lean printer on that tree = Gen.renderS (the printer of the Gen drivers), and = the text itself modulo
          what the emitter fixes (indentation, blank lines) and the spellings the printer does not have
          (`T x = e;` for `T x (e);`, C escapes inside string literals / messages, user-supplied fragments);
        * wherever the hypothesis `StmtOk` of the round-trip theorem holds of the tree, parse(render(tree)) = tree
          (the theorem instantiated — counted, so that the share of real programs under the theorem is measured);
        * class-level declarations: classDecl = cparse.parse_class_decl; booking code: parseBook = cparse.parse_book;
        * n_fuzz generated expression texts WITHOUT the emitter's redundant parentheses and statement lines with
          small damages (the emitted text is fully parenthesised, so real programs do not exercise precedence):
          Lean parseExpr / parseLine = cparse.parse_expr / parse_line.
    A difference is a broken correspondence (`ctx.disagreement`).

Stand-alone:  /venv/bin/python tools/c02_parsetie.py [n_programs] [seed]
"""
from __future__ import annotations

import copy
import re
import sys
from typing import Any, Dict, List, Tuple

DRIVER = "FaxVerif/Cpp/ParseDriver.lean"


def _ref_body(lines: List[str]) -> Dict[str, Any]:
    import cparse
    import qgen

    body = cparse.parse_body(lines)
    _fill_ty(body)
    qgen._attach_retrieve_types(body, {})
    return body


def _fill_ty(node: Any):
    """cparse leaves `ty` to qgen; a retrieve that qgen does not reach (not inside a block) still needs the key"""
    if isinstance(node, dict):
        if node.get("k") == "retrieve":
            node.setdefault("ty", "?")
        for v in node.values():
            _fill_ty(v)
    elif isinstance(node, list):
        for v in node:
            _fill_ty(v)


def _squash(s: str) -> str:
    """a line without blanks and parentheses: what the printer may spell differently (`(!(x))` for `!x`); the TREE is
    compared exactly, this is the check on the text"""
    return re.sub(r"[\s()]", "", s)


def _loosely(a: str, b: str) -> bool:
    x, y = _squash(a), _squash(b)
    # `T x = e;` is printed `T x (e);`
    return x == y or re.sub(r"(?<![=!<>])=(?!=)", "", x, count=1) == y


def text_agrees(lines: List[str], rendered: List[str]) -> Tuple[bool, Any, int]:
    """(agrees, first difference, number of lines equal only up to the known spellings)"""
    src = [l.strip() for l in lines if l.strip() != ""]
    if len(src) != len(rendered):
        return False, {"lines": len(src), "rendered": len(rendered)}, 0
    loose = 0
    for a, b in zip(src, rendered):
        if a == b:
            continue
        # parentheses / initialiser spelling; C escapes: the printer writes the unescaped characters back as they are
        if _loosely(a, b) or ("\\" in a and _loosely(_unesc(a), b)):
            loose += 1
            continue
        return False, {"text": a, "rendered": b}, loose
    return True, None, loose


def _unesc(s: str) -> str:
    import cparse

    return re.sub(r'"(?:[^"\\]|\\.)*"', lambda m: '"' + cparse.unescape_c(m.group(0)) + '"', s)


# ------------------------------------------------------------------------------------------------ fuzz

_ATOMS = ["a", "b1", "_c", "x::y", "std::pow", "1", "20", "2.5", ".5", "1.", "3e2", "1.5e-3", "2E+4", "true", "false", '"s"', '"a\\"b"', '"q\\\\z"', '"t\\tn\\nr\\r0\\0q\\\'x"', "i_obj1"]
_BIN = ["+", "-", "*", "/", "%", "<", "<=", ">", ">=", "==", "!=", "&&", "||"]
_UN = ["-", "+", "!", "*", "&"]


def gen_expr(rng, depth: int) -> str:
    r = rng.random()
    if depth <= 0 or r < 0.18:
        return rng.choice(_ATOMS)
    if r < 0.48:
        sp = rng.choice(["", "", " "])
        return gen_expr(rng, depth - 1) + sp + rng.choice(_BIN) + sp + gen_expr(rng, depth - 1)
    if r < 0.58:
        return rng.choice(_UN) + gen_expr(rng, depth - 1)
    if r < 0.70:
        return "(" + gen_expr(rng, depth - 1) + ")"
    if r < 0.82:
        args = ", ".join(gen_expr(rng, depth - 2) for _ in range(rng.randint(0, 3)))
        return gen_expr(rng, depth - 1) + rng.choice([".", "->"]) + rng.choice(["f", "pt", "at"]) + rng.choice(["", f"({args})"])
    if r < 0.90:
        args = ", ".join(gen_expr(rng, depth - 2) for _ in range(rng.randint(0, 3)))
        return rng.choice(["f", "std::sin", "g::h"]) + f"({args})"
    if r < 0.95:
        return f"static_cast<{rng.choice(['double', 'int', 'const xAOD::Jet *', 'std::vector<float>'])}>({gen_expr(rng, depth - 1)})"
    return gen_expr(rng, depth - 1) + "[" + gen_expr(rng, depth - 2) + "]"


def damage(rng, s: str) -> str:
    if not s or rng.random() < 0.55:
        return s
    i = rng.randrange(len(s))
    k = rng.random()
    if k < 0.4:
        return s[:i] + s[i + 1 :]
    if k < 0.8:
        return s[:i] + rng.choice(list("()<>=!&|+-*/%.,:;?[]\"\\ {}x1e#")) + s[i:]
    j = rng.randrange(len(s))
    i, j = min(i, j), max(i, j)
    return s[:i] + s[j:]


_TYPES = ["int", "double", "bool", "auto", "const xAOD::JetContainer*", "const xAOD::Jet *", "edm::Handle<reco::TrackCollection>",
          "std::vector<std::vector<double>>", "unsigned int", "const int", "std::map<int, float>::iterator", "return", "delete", "tree", "x.y"]
_NAMES = ["x", "_col12", "result", "tree", "throw", "iEvent", "v1", "9x", "a b"]


def gen_line(rng) -> str:
    e = gen_expr(rng, 3)
    n = rng.choice(_NAMES)
    shapes = [
        lambda: f"{rng.choice(_TYPES)} {n};",
        lambda: f"{rng.choice(_TYPES)} {n} ({e});",
        lambda: f"{rng.choice(_TYPES)} {n} = {e};",
        lambda: f"{rng.choice(_TYPES)} {n}({e});",
        lambda: f"{n} = {e};",
        lambda: f"{n}={e};",
        lambda: f"{n}.push_back({e});",
        lambda: f"{n}.clear();",
        lambda: f'tree("{rng.choice(["t", "a_b", "q\\\\\"z", ""])}")->Fill();',
        lambda: "myTree->Fill();",
        lambda: f'throw std::runtime_error("{rng.choice(["boom", "a (b) \\\\\"c\\\\\" d", "x\\\\n"])}");',
        lambda: f"ANA_CHECK (evtStore()->retrieve({n}, {e}));",
        lambda: f"iEvent.getByLabel({e}, {n});",
        lambda: f"iEvent.getByToken(tok1, {n});",
        lambda: f"for (auto &&{n} : {e})",
        lambda: f"if ({e})",
        lambda: f"return {e};",
        lambda: e + ";",
    ]
    return damage(rng, rng.choice(shapes)())


def gen_book_line(rng) -> str:
    t = rng.choice(["atlas_xaod_tree", "t", "a\\\"b", ""])
    n = rng.choice(_NAMES)
    shapes = [
        lambda: f'ANA_CHECK (book (TTree ("{t}", "My analysis ntuple")));',
        lambda: f'auto myTree = tree ("{t}");',
        lambda: f'myTree = fs->make<TTree>("{t}", "My analysis ntuple");',
        lambda: f'myTree->Branch("{t}", &{n});',
        lambda: f'{n} = consumes<{rng.choice(["pat::MuonCollection", "std::vector<reco::Track>", ""])}>(edm::InputTag({gen_expr(rng, 1)}));',
        lambda: "edm::Service<TFileService> fs;",
        lambda: rng.choice(["{", "}", "", "  "]),
    ]
    return damage(rng, rng.choice(shapes)())


def fuzz_requests(rng, n: int) -> List[Tuple[str, Any, Dict[str, Any]]]:
    import cparse

    out = []
    for i in range(n):
        if i % 8 == 7:
            lines = [gen_book_line(rng) for _ in range(rng.randint(1, 5))]
            out.append(("book", lines, {"op": "book", "lines": lines, "cparse": cparse.parse_book(lines)}))
        elif i % 2 == 0:
            t = damage(rng, gen_expr(rng, rng.randint(1, 5)))
            out.append(("expr", t, {"op": "expr", "text": t, "cparse": cparse.parse_expr(t)}))
        else:
            l = gen_line(rng)
            lines = ["{", l, "{" if (l.startswith("for") or l.startswith("if")) and l.endswith(")") else "", "}" if (l.startswith("for") or l.startswith("if")) and l.endswith(")") else "", "}"]
            out.append(("line", l, {"op": "parse", "lines": lines, "cparse": _ref_body(lines)}))
    return out


# ------------------------------------------------------------------------------------------------ stream


def run_stream(ctx, programs: List[Tuple[str, str, Dict[str, Any]]], n_fuzz: int, report: bool = True) -> Dict[str, int]:
    import cparse

    reqs: List[Dict[str, Any]] = []
    meta: List[Tuple[str, Any]] = []
    for backend, source, r in programs:
        for part in ("query", "book"):
            lines = list(r[part])
            reqs.append({"op": "parse", "lines": lines, "cparse": _ref_body(lines)})
            meta.append((part, (backend, source, lines)))
        reqs.append({"op": "book", "lines": list(r["book"]), "cparse": cparse.parse_book(r["book"])})
        meta.append(("bookcode", (backend, source, list(r["book"]))))
        cd = [x if isinstance(x, str) else " ".join(x) for x in r["class_decl"]]
        reqs.append({"op": "decl", "lines": cd})
        meta.append(("decl", (backend, source, cd, [{"t": c["t"], "n": c["n"]} for c in cparse.parse_class_decl(r["class_decl"])])))
    for kind, text, rq in fuzz_requests(ctx.rng, n_fuzz):
        reqs.append(rq)
        meta.append(("fuzz-" + kind, text))
    stats = {"disagreements": 0}
    if not reqs:
        return stats
    ans = ctx.driver(DRIVER, reqs, timeout=900)

    def differ(stream, case, model, impl):
        stats["disagreements"] += 1
        if report:
            ctx.disagreement(stream, case, model, impl)

    for (kind, info), rq, a in zip(meta, reqs, ans):
        if "bad" in a:
            differ("parse-tie: the Lean parser's driver did not answer", {"kind": kind, "input": info if isinstance(info, str) else info[:2]}, a, None)
            continue
        if kind in ("query", "book"):
            backend, source, lines = info
            case = {"backend": backend, "source": source, "part": kind, "lines": lines}
            if report:
                ctx.count(f"parse-tie:{kind}")
                ctx.count("parse-tie:lines", len(lines))
            if not a["same"]:
                differ("parse-tie: Lean parser (Cpp/Parse.lean) vs tools/cparse.py on the translator's text", case, a.get("lean"), a.get("ref"))
                continue
            if not a["gen_same"]:
                differ("parse-tie: Lean printer renderLines vs Gen.renderS on the parsed tree", case, a["render"], None)
            if kind == "query":
                ok, diff, loose = text_agrees(lines, a["render"])
                if report:
                    ctx.count("parse-tie:lines-respelled(parentheses / T x = e / escapes)", loose)
                if not ok and not _has_user_text(lines):
                    differ("parse-tie: render (parse text) vs the text", case, diff, None)
                elif report:
                    ctx.count("parse-tie:text-reprinted-exactly" if ok else "parse-tie:has-user-fragment")
                if report:
                    ctx.count("parse-tie:expressions", a.get("exprs", 0))
                    ctx.count("parse-tie:expressions-under-parseExpr_render(exprWf)", a.get("exprs_wf", 0))
                    ctx.count("parse-tie:under-parse_render(StmtWf)" if a.get("wf_syn") else "parse-tie:outside-StmtWf")
                if a.get("wf_syn") and not a["wf"]:
                    differ("parse-tie: StmtWf holds but StmtOk does not (contradicts ListOk_of_ListWf)", case, None, None)
                if a["wf"]:
                    if report:
                        ctx.count("parse-tie:under-the-round-trip-theorem(StmtOk)")
                    if not a["reparse"]:
                        differ("parse-tie: StmtOk holds but parse (render t) is not t (contradicts C02.parse_render)", case, a["render"], None)
                elif report:
                    ctx.count("parse-tie:outside-StmtOk")
                if report:
                    ctx.case(("parse-tie", backend, source), len(lines) >= 8, None)
        elif kind == "bookcode":
            backend, source, lines = info
            if report:
                ctx.count("parse-tie:booking-code(parse_book)")
            if not a["same"]:
                differ("parse-tie: booking code, Lean parseBook vs cparse.parse_book", {"backend": backend, "source": source, "book": lines}, {k: a.get(k) for k in ("trees", "branches", "tokens", "other")}, rq["cparse"])
        elif kind == "decl":
            backend, source, cd, ref = info
            if report:
                ctx.count("parse-tie:class-declarations", len(cd))
            if a["vars"] != ref:
                differ("parse-tie: class declarations, Lean classDecl vs cparse.parse_class_decl", {"backend": backend, "source": source, "class_decl": cd}, a["vars"], ref)
        else:
            if report:
                ctx.count(f"parse-tie:{kind}")
                if kind != "fuzz-book":
                    ctx.count(f"parse-tie:{kind}:{'unparsable' if _unparsable(rq) else 'parsed'}")
            if not a["same"]:
                differ(f"parse-tie: Lean parser vs tools/cparse.py on a generated {kind[5:]} text", {"kind": kind, "text": info}, a.get("lean"), a.get("ref"))
    return stats


def _unparsable(rq: Dict[str, Any]) -> bool:
    c = rq["cparse"]
    if rq["op"] == "expr":
        return c.get("k") == "opaque"
    body = c.get("body") or []
    return c.get("k") == "line" or any(isinstance(s, dict) and s.get("k") == "line" for s in body)


def _has_user_text(lines: List[str]) -> bool:
    """`auto result = <user text>;` blocks of user functions: the printer re-spells the parsed expression"""
    return any(l.strip().startswith("auto ") for l in lines)


if __name__ == "__main__":
    sys.path.insert(0, "/verif/tools")
    import random

    import vlib  # noqa: F401  (puts the repo on sys.path)
    import cgroup

    n = int(sys.argv[1]) if len(sys.argv) > 1 else 60
    seed = int(sys.argv[2]) if len(sys.argv) > 2 else 0

    class Ctx:
        rng = random.Random(seed)
        tier = "quick"
        counts: Dict[str, int] = {}
        bad: List[Any] = []

        def count(self, k, n=1):
            self.counts[k] = self.counts.get(k, 0) + n

        def case(self, *a):
            pass

        def disagreement(self, stream, case, model, impl):
            self.bad.append((stream, case, model, impl))

        def driver(self, rel, reqs, timeout=600):
            import json
            import subprocess

            inp = "\n".join(json.dumps(r, ensure_ascii=False) for r in reqs) + "\n"
            p = subprocess.run(["lake", "env", "lean", "--run", rel], cwd="/verif/lean", input=inp, capture_output=True, text=True, timeout=timeout)
            out = [l for l in p.stdout.split("\n") if l.strip()]
            if p.returncode != 0 or len(out) != len(reqs):
                print(p.stderr[-2000:])
                return [{"bad": "driver"} for _ in reqs]
            return [json.loads(l) for l in out]

    ctx = Ctx()
    progs = []
    for i in range(n):
        c = cgroup.gen_case(ctx.rng, backend=cgroup.P.BACKENDS[i % 3], nevents=1)
        cgroup.translate(c)
        if c.result["ok"]:
            progs.append((c.backend, c.source(), c.result))
    st = run_stream(ctx, progs, int(sys.argv[3]) if len(sys.argv) > 3 else 400)
    for k in sorted(ctx.counts):
        print(f"{k:60s} {ctx.counts[k]}")
    import json

    for b in ctx.bad[:8]:
        print("DIFF", b[0])
        print("   case :", json.dumps(b[1])[:600])
        print("   lean :", json.dumps(b[2])[:900])
        print("   ref  :", json.dumps(b[3])[:900])
    print("disagreements:", len(ctx.bad))
