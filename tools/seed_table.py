"""Print the seeded-change results table from seeded/*/meta.json"""
import json, glob, os
for d in sorted(glob.glob('/verif/seeded/*')):
    m = json.load(open(d + '/meta.json'))
    row = []
    for k, v in m.get('checks', {}).items():
        kind = v.get('replay_kind')
        res = 'exit0' if v['exit'] == 0 else ('CAUGHT' if kind == 'failing-input' else ('nfi' if kind == 'no-failing-input-found' else f"exit{v['exit']}"))
        row.append(f"{k}:{res}")
    print(os.path.basename(d), 'confirmed' if m.get('confirmed') else 'UNCONFIRMED', ' '.join(row))
