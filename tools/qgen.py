"""Type-directed generator of func_adl queries over a synthetic event data model that every
query declares for itself through metadata (DESIGN Appendix B), plus events, plus the
conversion of a pipeline result into the `Package` JSON the Lean driver decodes.

A query is a JSON tree (the user-level `Linq.Query` of lean/FaxVerif/Linq/Query.lean); it can be
rendered to func_adl source text (string lambdas) and is sent as is to the Lean `denote`.
"""
from __future__ import annotations

import json
import re
from typing import Any, Dict, List, Optional, Tuple

import cparse

PREFIX = {"atlas": "xAOD", "cms_aod": "reco", "cms_miniaod": "pat"}
CONT = {"atlas": "Container", "cms_aod": "Collection", "cms_miniaod": "Collection"}
MDTYPE = {
    "atlas": "add_atlas_event_collection_info",
    "cms_aod": "add_cms_aod_event_collection_info",
    "cms_miniaod": "add_cms_miniaod_event_collection_info",
}
COLLS = {"As": "Aa", "Bs": "Bb"}
SCALAR_METHODS = {"i": "int", "j": "int", "f": "float", "d": "double", "g": "double", "b": "bool"}


def elem_type(backend: str, coll: str) -> str:
    return f"{PREFIX[backend]}::{COLLS[coll]}"


def cont_type(backend: str, coll: str) -> str:
    return f"{PREFIX[backend]}::{COLLS[coll]}{CONT[backend]}"


def metadata(backend: str) -> List[Dict[str, Any]]:
    pre, mds = PREFIX[backend], []
    for c, t in COLLS.items():
        d = {
            "metadata_type": MDTYPE[backend],
            "name": c,
            "include_files": [f"{pre}{t}/{t}{CONT[backend]}.h"],
            "container_type": cont_type(backend, c),
            "element_type": elem_type(backend, c),
            "contains_collection": True,
        }
        if backend == "atlas":
            d["link_libraries"] = [f"{pre}{t}"]
        mds.append(d)
        et = elem_type(backend, c)
        for m, rt in SCALAR_METHODS.items():
            mds.append({"metadata_type": "add_method_type_info", "type_string": et, "method_name": m, "return_type": rt})
        mds.append({"metadata_type": "add_method_type_info", "type_string": et, "method_name": "vs", "return_type_element": "double", "return_type_collection": "std::vector<double>"})
        mds.append({"metadata_type": "add_method_type_info", "type_string": et, "method_name": "kids", "return_type_element": et, "return_type_collection": f"std::vector<{et}>"})
    # a user-supplied one-statement C++ function (its code lands in a block of its own with a local `result`)
    mds.append(USERFN)
    return mds


# (its parameters are called like accessors of the data model, so that the text of one argument can contain the name of
# the other parameter: substitution must be simultaneous)
USERFN = {"metadata_type": "add_cpp_function", "name": "vpf", "include_files": [], "arguments": ["d", "i"], "code": ["auto result = d + i;"], "return_type": "double"}


def coll_types(backend: str) -> List[Dict[str, str]]:
    return [{"name": c, "type": cont_type(backend, c)} for c in COLLS]


# ---------------------------------------------------------------- rendering


def lit_dbl(v: str) -> str:
    return v


def render(q: Dict[str, Any]) -> str:
    k = q["k"]
    R = render
    if k == "var":
        return q["n"]
    if k == "int":
        return str(q["v"]) if q["v"] >= 0 else f"({q['v']})"
    if k == "dbl":
        return q["v"] if not q["v"].startswith("-") else f"({q['v']})"
    if k == "bool":
        return "True" if q["v"] else "False"
    if k == "str":
        return repr(q["v"])
    if k == "meth":
        return f"{R(q['o'])}.{q['n']}()"
    if k == "coll":
        return f"{R(q['e'])}.{q['c']}({json.dumps(q['bank'])})"
    if k == "bin":
        return f"({R(q['a'])} {q['op']} {R(q['b'])})"
    if k == "cmp":
        return f"({R(q['a'])} {q['op']} {R(q['b'])})"
    if k == "neg":
        return f"(-{R(q['a'])})"
    if k == "not":
        return f"(not {R(q['a'])})"
    if k in ("and", "or"):
        # `flat`: written without inner parentheses, so that Python parses ONE n-ary BoolOp (a and b and c)
        if q.get("flat") and isinstance(q["a"], dict) and q["a"].get("k") == k:
            inner = R(dict(q["a"], flat=True))
            return f"({inner[1:-1]} {k} {R(q['b'])})"
        return f"({R(q['a'])} {k} {R(q['b'])})"
    if k == "if":
        return f"({R(q['a'])} if {R(q['c'])} else {R(q['b'])})"
    if k in ("Select", "Where", "SelectMany"):
        return f"{R(q['s'])}.{k}(lambda {q['x']}: {R(q['f'])})"
    if k in ("Count", "Sum", "Min", "Max", "First"):
        return f"{R(q['s'])}.{k}()"
    if k == "Aggregate":
        return f"{R(q['s'])}.Aggregate({R(q['seed'])}, lambda {q['acc']}, {q['x']}: {R(q['f'])})"
    if k == "tuple":
        return "(" + ", ".join(R(e) for e in q["es"]) + ("," if len(q["es"]) == 1 else "") + ")"
    if k == "list":
        return "[" + ", ".join(R(e) for e in q["es"]) + "]"
    if k == "dict":
        return "{" + ", ".join(f"{json.dumps(kk)}: {R(e)}" for kk, e in zip(q["ks"], q["es"])) + "}"
    if k == "sub":
        return f"{R(q['a'])}[{q['i']}]"
    if k == "key":
        return f"{R(q['a'])}.{q['key']}"
    if k == "fn":
        return f"{q['f']}(" + ", ".join(R(a) for a in q["args"]) + ")"
    raise ValueError(k)


def render_functional(q: Dict[str, Any], mds: List[Dict[str, Any]]) -> str:
    """The query as the call tree the backend receives: Select(Where(MetaData(ds0, {...}), lambda …), lambda …)."""
    def R(c):
        if c["k"] == "ds":
            s = "ds0"
            for d in mds:
                s = f"MetaData({s}, {d!r})"
            return s
        if c["k"] in ("Select", "Where", "SelectMany") :
            return f"{c['k']}({R(c['s'])}, lambda {c['x']}: {render(c['f'])})"
        raise ValueError("top level must be a chain of Select/Where/SelectMany over ds")
    return R(q)


def render_top(backend: str, q: Dict[str, Any], md: Optional[List[Dict[str, Any]]] = None) -> str:
    """Source text `ds.MetaData(..)….Op('lambda e: …')…` for an event-level chain."""
    chain = []
    cur = q
    while cur["k"] != "ds":
        if cur["k"] not in ("Select", "Where", "SelectMany"):
            raise ValueError("top level must be a chain of Select/Where/SelectMany over ds")
        chain.append(cur)
        cur = cur["s"]
    chain.reverse()
    mds = metadata(backend) if md is None else md
    s = "ds" + "".join(f".MetaData({d!r})" for d in mds)
    for c in chain:
        lam = f"lambda {c['x']}: {render(c['f'])}"
        s += f".{c['k']}({lam!r})"
    return s


# ---------------------------------------------------------------- generation

NUM = ("int", "double")
SHADOW_PCT = 27  # per cent of the generated queries in which the shadowing pass is attempted (see Gen.shadow_pass)
FIRST_LAZY_PCT = 7  # per cent of the generated queries replaced by one of the family `First() over a projection whose value is a declared variable` (see Gen.first_lazy_pass)
LABEL_PCT = 55  # per cent of the final rows with >= 2 dict columns whose labels are replaced by a group of near-identical labels (see label_pass)
LABEL_ROW_PCT = 12  # ... of the final tuple / list rows with >= 2 columns that are turned into such a dict


class Gen:
    def __init__(self, rng, backend: str, allow_first=True, allow_minmax=False, allow_fn=True, max_depth=3, strict=True, guard_w=1, shadow=SHADOW_PCT, first_lazy=FIRST_LAZY_PCT, labels=LABEL_PCT):
        self.first_lazy = first_lazy  # per cent of the queries replaced by the first-of-lazy-projection family (decided by the query's own text)
        self.first_lazy_form = None  # (value form, terminal form) of the last query when it is of that family
        self.labels = labels  # per cent of the final dict rows that get a group of near-identical labels (decided by the query's own text)
        self.labelled = None  # the label group given to the last query's final row
        self.shadow = shadow  # per cent of the queries in which the shadowing pass is attempted (decided by the query's own text)
        self.sites: List[Tuple[Dict[str, Any], str, Any, str]] = []  # numeric expressions in the scope of an object parameter: (node, parameter, its type, type of the node)
        self.shadowed = 0  # number of parameters the pass renamed in the last query
        self.shadowed_strong = 0  # ... of them with the outer parameter used afterwards as a plain name
        self.guard_w = guard_w  # weight of the guarded-First idioms (Count()>0 guards in if-else / and / or)
        self.rng = rng
        self.backend = backend
        self.n = 0
        self.allow_first = allow_first
        self.allow_minmax = allow_minmax
        self.allow_fn = allow_fn
        self.max_depth = max_depth
        self.strict = strict  # stay outside the listed defect classes
        self.banks: Dict[str, str] = {}  # bank -> collection name
        self.ops: Dict[str, int] = {}

    def op(self, name):
        self.ops[name] = self.ops.get(name, 0) + 1

    def fresh(self, base="x"):
        self.n += 1
        return f"{base}{self.n}"

    def uses(self, q, x) -> bool:
        if isinstance(q, dict):
            if q.get("k") == "var" and q.get("n") == x:
                return True
            return any(self.uses(v, x) for v in q.values())
        if isinstance(q, list):
            return any(self.uses(v, x) for v in q)
        return False

    def lazily(self, gen):
        self.lazy = getattr(self, "lazy", 0) + 1
        try:
            return gen()
        finally:
            self.lazy -= 1

    def has_source(self, env) -> bool:
        opened = getattr(self, "open_srcs", []) if self.strict else []
        return any(t == "event" or (isinstance(t, tuple) and (t[0] == "obj" or (t[0] == "seqsrc" and json.dumps(t[1], sort_keys=True) not in opened))) for _, t in env)

    def has_var(self, q) -> bool:
        if isinstance(q, dict):
            return q.get("k") == "var" or any(self.has_var(v) for v in q.values())
        if isinstance(q, list):
            return any(self.has_var(v) for v in q)
        return False

    def guarded_first(self, env, depth, ty):
        import copy

        """The idioms users write to protect First(): the guard and the First range over the same sequence.
        double: `First(s) if Count(s) > 0 else c`, `c if Count(s) == 0 else First(s)` (First possibly inside arithmetic);
        bool:   `Count(s) > 0 and First(s) > c`, `Count(s) == 0 or First(s) > c`."""
        import copy

        r = self.rng
        if not self.has_source(env):
            return None
        s, et = self.seq(env, max(depth - 1, 0), "num")
        if et not in NUM:
            return None
        self.op("First")
        self.op("Count")
        cnt = {"k": "Count", "s": copy.deepcopy(s)}
        fst = {"k": "First", "s": s}
        if r.random() < 0.4:
            fst = {"k": "bin", "op": r.choice(["+", "-", "*"]), "a": fst, "b": self.lazily(lambda: self.leaf(env, "double"))}
        nonempty = r.choice([{"k": "cmp", "op": ">", "a": cnt, "b": {"k": "int", "v": 0}}, {"k": "cmp", "op": ">=", "a": cnt, "b": {"k": "int", "v": 1}}, {"k": "cmp", "op": "!=", "a": cnt, "b": {"k": "int", "v": 0}}])
        empty = {"k": "cmp", "op": "==", "a": cnt, "b": {"k": "int", "v": 0}}
        if ty == "bool":
            test = {"k": "cmp", "op": r.choice(["<", ">", ">=", "=="]), "a": fst, "b": self.const(r.choice(NUM))}
            if r.random() < 0.35 and isinstance(et, str):
                # three operands in one chain: the sequence is non-empty, its filtered part is non-empty, First of the
                # filtered part — the second operand protects the third
                x = self.fresh()
                pred = {"k": "cmp", "op": r.choice([">", "<", ">="]), "a": {"k": "var", "n": x}, "b": self.const(et if et in NUM else "double")}
                fs = {"k": "Where", "s": copy.deepcopy(s), "x": x, "f": pred}
                cnt2 = {"k": "Count", "s": copy.deepcopy(fs)}
                test2 = {"k": "cmp", "op": r.choice(["<", ">", ">="]), "a": {"k": "First", "s": fs}, "b": self.const(r.choice(NUM))}
                self.op("Where"); self.op("Count"); self.op("First")
                if r.random() < 0.5:
                    self.op("and"); self.op("and")
                    return {"k": "and", "flat": True, "a": {"k": "and", "a": nonempty, "b": {"k": "cmp", "op": ">", "a": cnt2, "b": {"k": "int", "v": 0}}}, "b": test2}
                self.op("or"); self.op("or")
                return {"k": "or", "flat": True, "a": {"k": "or", "a": empty, "b": {"k": "cmp", "op": "==", "a": cnt2, "b": {"k": "int", "v": 0}}}, "b": test2}
            if r.random() < 0.5:
                self.op("and")
                return {"k": "and", "a": nonempty, "b": test}
            self.op("or")
            return {"k": "or", "a": empty, "b": test}
        self.op("if")
        other = self.const("double") if r.random() < 0.7 else self.lazily(lambda: self.scalar(env, max(depth - 1, 0), "double"))
        if r.random() < 0.25:
            # First() inside the TEST of the conditional (guarded by and / or), the conditional's value consumed by
            # an enclosing operator: the result variable must be visible where it is used
            tcmp = {"k": "cmp", "op": r.choice(["<", ">", ">="]), "a": fst, "b": self.const(r.choice(NUM))}
            test = r.choice([{"k": "and", "a": nonempty, "b": tcmp}, {"k": "or", "a": empty, "b": tcmp}, tcmp, tcmp])  # (unguarded: the query itself fails on an empty sequence)
            self.op(test["k"] if test["k"] != "cmp" else "cmp")
            cond = {"k": "if", "c": test, "a": self.lazily(lambda: self.leaf(env, "double")), "b": other}
            if r.random() < 0.5:
                self.op("fn")
                return {"k": "fn", "f": "fabs", "args": [cond]}
            return {"k": "bin", "op": r.choice(["+", "-", "*"]), "a": cond, "b": self.leaf(env, "double")}
        if r.random() < 0.5:
            return {"k": "if", "c": nonempty, "a": fst, "b": other}
        return {"k": "if", "c": empty, "a": other, "b": fst}

    def dep(self, f, x, et, ty):
        """Make the lambda body `f` (of type ty) mention its own variable x (of element type et):
        bodies that ignore their variable are a listed defect class (value hoisted out of the loop)."""
        if not self.strict or self.uses(f, x) or (not self.has_var(f) and ty != "bool"):
            return f  # (a constant projection is fine; only a body made of OUTER variables is the listed defect)
        # (a PREDICATE always looks at its element: a filter that ignores it lets the generated code skip a faulting
        # projection in front of it, which the eager reference evaluates — a laziness difference the property leaves open)
        if isinstance(et, tuple):
            leafn = {"k": "meth", "o": {"k": "var", "n": x}, "n": "i" if ty == "int" else self.rng.choice(["i", "d"])}
            leafb = {"k": "meth", "o": {"k": "var", "n": x}, "n": "b"}
        else:
            leafn = {"k": "var", "n": x}
            leafb = {"k": "cmp", "op": ">", "a": {"k": "var", "n": x}, "b": {"k": "int", "v": 0}}
        if ty == "bool":
            return {"k": self.rng.choice(["and", "or"]), "a": leafb, "b": f}
        if ty == "int" and not isinstance(et, tuple) and et != "int":
            return {"k": "bin", "op": "+", "a": f, "b": {"k": "Count", "s": {"k": "var", "n": "__never__"}}} if False else f
        return {"k": "bin", "op": self.rng.choice(["+", "-", "*"]), "a": f, "b": leafn}

    def _top_lambda_uses(self, s):
        return True

    def _srcs_in(self, q, acc=None):
        acc = [] if acc is None else acc
        if isinstance(q, dict):
            if q.get("k") in ("sub", "key") and isinstance(q.get("a"), dict) and q["a"].get("k") == "var":
                acc.append(json.dumps(q, sort_keys=True))
            for v in q.values():
                self._srcs_in(v, acc)
        elif isinstance(q, list):
            for v in q:
                self._srcs_in(v, acc)
        return acc

    def lam(self, env, x, et, depth, ty, over=None):
        # `over`: the sequence this lambda ranges over. A component of a tuple of collections that is being traversed
        # must not be traversed again inside its own loop (listed defect: self-join through one shared node).
        opened = self._srcs_in(over) if over is not None else []
        self.open_srcs = getattr(self, "open_srcs", []) + opened
        try:
            return self._lam(env, x, et, depth, ty)
        finally:
            self.open_srcs = self.open_srcs[: len(self.open_srcs) - len(opened)]

    def _lam(self, env, x, et, depth, ty):
        # `in_lam` > 0: inside the body of a projection / predicate. An index expression there is evaluated by the
        # generated code only where its value is consumed (Count() or First() of the projection do not evaluate it
        # for every element) while the reference semantics maps the body over all elements: whether a bad index in
        # an unconsumed projection must fail is not fixed by the property, so indexes are generated in row columns only.
        self.in_lam = getattr(self, "in_lam", 0) + 1
        try:
            return self._site(self.dep(self.scalar(env + [(x, et)], depth, ty), x, et, ty), env + [(x, et)], ty)
        finally:
            self.in_lam -= 1

    # ---- sequences; returns (expr, elemtype) where elemtype in int,double,bool,("obj",coll),("seq",t)
    def coll(self, env):
        c = self.rng.choice(list(COLLS))
        bank = self.rng.choice({"As": ["ba", "ba2"], "Bs": ["bb"]}[c])
        if c == "Bs" and self.rng.random() < 0.15:
            # bank names are arbitrary strings: quote, apostrophe, backslash, question marks (the name also lands in the
            # text of First()'s error message)
            bank = self.rng.choice(ODD_BANKS)
        self.banks[bank] = c
        ev = next(n for n, t in env if t == "event")
        self.op("coll")
        return {"k": "coll", "e": {"k": "var", "n": ev}, "c": c, "bank": bank}, ("obj", c)

    def objs_in(self, env):
        return [(n, t) for n, t in env if isinstance(t, tuple) and t[0] == "obj"]

    def seq(self, env, depth, want=None):
        """A sequence expression. want: None | 'obj' | 'num' | 'scalar'."""
        r = self.rng
        has_event = any(t == "event" for _, t in env)
        choices = ["coll", "coll"] if has_event else []
        objs = self.objs_in(env)
        srcs = [t for _, t in env if isinstance(t, tuple) and t[0] == "seqsrc"]  # components of a tuple / dict of collections
        if self.strict:
            srcs = [t for t in srcs if json.dumps(t[1], sort_keys=True) not in getattr(self, "open_srcs", [])]
        if srcs:
            choices += ["seqsrc"] * 3
        if not has_event and not objs and not srcs:
            raise ValueError("no sequence source in scope")
        if objs:
            choices += ["kids", "vs", "vs"] if want != "obj" else ["kids", "kids"]
        if depth > 0:
            choices += ["select", "select", "where", "where"]
            if not self.strict:
                choices += ["selectmany"]
        c = r.choice(choices)
        if c == "seqsrc":
            import copy

            _, expr, et0 = r.choice(srcs)
            self.op("seqsrc")
            if want == "num":
                x = self.fresh()
                self.op("Select")
                tt = r.choice(NUM)
                return {"k": "Select", "s": copy.deepcopy(expr), "x": x, "f": self.lam(env, x, et0, max(depth - 1, 0), tt, over=expr)}, tt
            return copy.deepcopy(expr), et0
        if want == "num" and c in ("coll", "kids"):
            # turn a sequence of objects into a sequence of numbers
            s, et = self.seq(env, depth - 1 if depth > 0 else 0, "obj")
            x = self.fresh()
            self.op("Select")
            tt = "double" if et == "double" else r.choice(NUM)
            return {"k": "Select", "s": s, "x": x, "f": self.lam(env, x, et, max(depth - 1, 0), tt, over=s)}, tt
        if c == "coll":
            return self.coll(env)
        if c == "kids":
            n, t = r.choice(objs)
            self.op("kids")
            return {"k": "meth", "o": {"k": "var", "n": n}, "n": "kids"}, t
        if c == "vs":
            n, t = r.choice(objs)
            self.op("vs")
            return {"k": "meth", "o": {"k": "var", "n": n}, "n": "vs"}, "double"
        if c == "select":
            s, et = self.seq(env, depth - 1)
            x = self.fresh()
            if want == "obj" and isinstance(et, tuple):
                return s, et
            ty = "double" if et == "double" else r.choice(NUM)
            self.op("Select")
            return {"k": "Select", "s": s, "x": x, "f": self.lam(env, x, et, depth - 1, ty, over=s)}, ty
        if c == "where":
            s, et = self.seq(env, depth - 1, want)
            x = self.fresh()
            self.op("Where")
            return {"k": "Where", "s": s, "x": x, "f": self.lam(env, x, et, depth - 1, "bool", over=s)}, et
        if c == "selectmany":
            s, et = self.seq(env, depth - 1, "obj")
            if not (isinstance(et, tuple) and et[0] == "obj"):
                return s, et
            x = self.fresh()
            self.op("SelectMany")
            if want == "obj" or r.random() < 0.5:
                return {"k": "SelectMany", "s": s, "x": x, "f": {"k": "meth", "o": {"k": "var", "n": x}, "n": "kids"}}, et
            return {"k": "SelectMany", "s": s, "x": x, "f": {"k": "meth", "o": {"k": "var", "n": x}, "n": "vs"}}, "double"
        raise AssertionError

    # ---- scalars
    def const(self, ty):
        r = self.rng
        if ty == "int":
            return {"k": "int", "v": r.choice([0, 1, 2, 3, 5, -1, -2])}
        if ty == "double":
            return {"k": "dbl", "v": r.choice(["0.5", "1.5", "2.0", "2.5", "-1.5", "0.25", "10.0", "1e1", "3.0"])}
        return {"k": "bool", "v": r.random() < 0.5}

    def leaf(self, env, ty):
        r = self.rng
        objs = self.objs_in(env)
        nums = [(n, t) for n, t in env if t == ty] + ([(n, t) for n, t in env if t == "int"] if ty == "double" else [])
        if getattr(self, "lazy", 0) > 0:
            # inside an arm of a conditional / a later operand of and-or: a variable bound to the VALUE of an earlier
            # projection is computed by the generated code only where it is used, while the reference maps the
            # projection over every element — if that projection can fail (First, index) the two differ in laziness
            # in a way the property does not fix; such variables are used in unconditional positions only
            nums = []
        opts = []
        if objs:
            opts += ["meth"] * 4
        if nums:
            opts += ["var"] * 2
        opts += ["const"]
        c = r.choice(opts)
        if c == "meth":
            n, t = r.choice(objs)
            ms = {"int": ["i", "j"], "double": ["d", "g", "f", "i"], "bool": ["b"]}[ty]
            self.op("meth")
            return {"k": "meth", "o": {"k": "var", "n": n}, "n": r.choice(ms)}
        if c == "var":
            return {"k": "var", "n": r.choice(nums)[0]}
        return self.const(ty)

    def scalar(self, env, depth, ty):
        try:
            return self._scalar(env, depth, ty)
        except ValueError as e:
            if "no sequence source" not in str(e):
                raise
            return self.leaf(env, ty)  # nothing to range over here (every source is already being traversed)

    def _scalar(self, env, depth, ty):
        r = self.rng
        if depth <= 0 or r.random() < 0.25:
            return self.leaf(env, ty)
        if ty == "bool":
            c = r.choice(["cmp", "cmp", "cmp", "and", "or", "not", "leaf", "cmpcount"] + (["gfirst"] * self.guard_w if self.allow_first else []))
            if c == "gfirst":
                g = self.guarded_first(env, depth, "bool")
                if g is not None:
                    return g
                c = "cmp"
            if c == "cmp":
                t = r.choice(NUM)
                self.op("cmp")
                return {"k": "cmp", "op": r.choice(["<", "<=", ">", ">=", "==", "!="]), "a": self.scalar(env, depth - 1, t), "b": self.scalar(env, depth - 1, t)}
            if c == "cmpcount":
                s, _ = self.seq(env, depth - 1)
                self.op("Count")
                self.op("cmp")
                return {"k": "cmp", "op": r.choice([">", ">=", "=="]), "a": {"k": "Count", "s": s}, "b": {"k": "int", "v": r.choice([0, 1, 2])}}
            if c in ("and", "or"):
                self.op(c)
                if r.random() < 0.3:
                    self.op(c)
                    return {"k": c, "flat": True, "a": {"k": c, "a": self.scalar(env, depth - 1, "bool"), "b": self.lazily(lambda: self.scalar(env, depth - 1, "bool"))}, "b": self.lazily(lambda: self.scalar(env, depth - 1, "bool"))}
                return {"k": c, "a": self.scalar(env, depth - 1, "bool"), "b": self.lazily(lambda: self.scalar(env, depth - 1, "bool"))}
            if c == "not":
                self.op("not")
                return {"k": "not", "a": self.scalar(env, depth - 1, "bool")}
            return self.leaf(env, ty)
        # numeric
        opts = ["bin"] * 4 + ["count", "sum", "agg", "neg", "if", "leaf"]
        if ty == "double":
            opts += ["div", "pow", "index"]
            if self.allow_fn:
                opts += ["fn", "userfn"]
            if self.allow_first:
                opts += ["first"] + ["gfirst"] * self.guard_w
            if self.allow_minmax:
                opts += ["minmax"]
        c = r.choice(opts)
        if c == "bin":
            op = r.choice(["+", "-", "*"])
            self.op(op)
            ta = ty if ty == "int" else r.choice(NUM)
            tb = ty if ty == "int" else ("double" if ta == "int" else r.choice(NUM))
            return {"k": "bin", "op": op, "a": self.scalar(env, depth - 1, ta), "b": self.scalar(env, depth - 1, tb)}
        if c == "pow":
            self.op("**")
            form = r.choice(["sq", "sq", "neg_count", "two_neg"])
            if form == "sq":
                return {"k": "bin", "op": "**", "a": self.scalar(env, depth - 1, r.choice(NUM)), "b": {"k": "int", "v": r.choice([2, 3])}}
            if not self.has_source(env):
                return {"k": "bin", "op": "**", "a": self.scalar(env, depth - 1, r.choice(NUM)), "b": {"k": "int", "v": 2}}
            sq, _ = self.seq(env, max(depth - 1, 0))
            self.op("Count")
            if form == "neg_count":  # an int base that is never 0, a negative int exponent: a fraction in Python
                return {"k": "bin", "op": "**", "a": {"k": "bin", "op": "+", "a": {"k": "Count", "s": sq}, "b": {"k": "int", "v": 1}}, "b": {"k": "int", "v": r.choice([-1, -2])}}
            return {"k": "bin", "op": "**", "a": {"k": "int", "v": 2}, "b": {"k": "neg", "a": {"k": "Count", "s": sq}}}
        if c == "index":
            # constant index into a collection: out of range must fail loudly (.at()), in range gives that element
            objs = self.objs_in(env)
            has_event = any(t == "event" for _, t in env)
            forms = (["coll"] if has_event else []) + (["vs", "kids"] if objs else [])
            if not forms or getattr(self, "in_lam", 0) > 0:
                return self.leaf(env, ty)
            form = r.choice(forms)
            self.op("sub")
            i = r.choice([0, 0, 1, 2])
            if form == "coll":
                sc, et = self.coll(env)
                return {"k": "meth", "o": {"k": "sub", "a": sc, "i": i}, "n": r.choice(["d", "g", "f", "i"])}
            n, t = r.choice(objs)
            if form == "vs":
                self.op("vs")
                return {"k": "sub", "a": {"k": "meth", "o": {"k": "var", "n": n}, "n": "vs"}, "i": i}
            self.op("kids")
            return {"k": "meth", "o": {"k": "sub", "a": {"k": "meth", "o": {"k": "var", "n": n}, "n": "kids"}, "i": i}, "n": r.choice(["d", "g", "i"])}
        if c == "div":
            self.op("/")
            return {"k": "bin", "op": "/", "a": self.scalar(env, depth - 1, r.choice(NUM)), "b": r.choice([{"k": "int", "v": 2}, {"k": "dbl", "v": "4.0"}, {"k": "int", "v": 4}])}
        if c == "count":
            s, _ = self.seq(env, depth - 1)
            self.op("Count")
            return {"k": "Count", "s": s}
        if c == "sum":
            s, et = self.seq(env, depth - 1, "num")
            if et not in NUM:
                self.op("Count")
                return {"k": "Count", "s": s}
            if ty == "int" and et != "int":
                self.op("Count")
                return {"k": "Count", "s": s}
            self.op("Sum")
            return {"k": "Sum", "s": s}
        if c == "agg":
            s, et = self.seq(env, depth - 1)
            if ty == "int" and et == "double":
                self.op("Count")
                return {"k": "Count", "s": s}
            a, x = self.fresh("acc"), self.fresh("v")
            self.op("Aggregate")
            body = {"k": "bin", "op": r.choice(["+", "+", "*"]), "a": {"k": "var", "n": a}, "b": self.lam(env, x, et, 0, ty)}
            return {"k": "Aggregate", "s": s, "seed": self.const(ty), "acc": a, "x": x, "f": body}
        if c == "neg":
            self.op("neg")
            return {"k": "neg", "a": self.scalar(env, depth - 1, ty)}
        if c == "if":
            if ty != "double":
                return self.leaf(env, ty)
            self.op("if")
            return {"k": "if", "c": self.scalar(env, depth - 1, "bool"), "a": self.lazily(lambda: self.scalar(env, depth - 1, r.choice(NUM))), "b": self.lazily(lambda: self.scalar(env, depth - 1, r.choice(NUM)))}
        if c == "userfn":
            # the user function of the synthetic metadata, often twice in one expression (two snippet blocks side by side)
            self.op("userfn")
            one = lambda: {"k": "fn", "f": "vpf", "args": [self.scalar(env, depth - 1, "double"), self.leaf(env, r.choice(NUM))]}
            if r.random() < 0.5:
                self.op("userfn")
                return {"k": "bin", "op": r.choice(["+", "-", "*"]), "a": one(), "b": one()}
            return one()
        if c == "fn":
            self.op("fn")
            f = r.choice(["sqrt", "sin", "cos", "exp", "fabs"])
            return {"k": "fn", "f": f, "args": [self.scalar(env, depth - 1, "double")]}
        if c == "gfirst":
            g = self.guarded_first(env, depth, "double")
            return g if g is not None else self.leaf(env, ty)
        if c == "first":
            # unguarded First over a sequence of numbers
            s, et = self.seq(env, depth - 1, "num")
            if et not in NUM:
                return self.leaf(env, ty)
            self.op("First")
            return {"k": "First", "s": s}
        if c == "minmax":
            s, et = self.seq(env, depth - 1, "num")
            if et not in NUM:
                return self.leaf(env, ty)
            k = r.choice(["Min", "Max"])
            self.op(k)
            return {"k": k, "s": s}
        return self.leaf(env, ty)

    # ---- shadowing: nested lambdas that re-use the name of an enclosing parameter
    def _site(self, node, env, ty):
        """remember a numeric expression generated in the scope of an object-valued parameter (the innermost one)"""
        objs = self.objs_in(env)
        if ty in NUM and objs and isinstance(node, dict):
            self.sites.append((node, objs[-1][0], objs[-1][1], ty))
        return node

    def shadow_pass(self, q):
        """In a fixed share of the queries (decided by the query's own text: no draw from the generator's random
        stream) a nested lambda gets the NAME of an enclosing lambda's parameter, where the enclosing body goes on
        using its parameter after the nested lambda was applied:
            lambda j: j.kids().Select(lambda j: j.d()).Sum() + j.d()
        Names are all the translator has to tell the two apart. In this order: (1) rename the parameter of a nested
        lambda that is there already (never changes what the query means: the inner body does not mention the outer
        parameter); (2) first append a use of the outer parameter to a numeric outer body (`… + j.d()`), then (1);
        (3) graft a small aggregate with a shadowing lambda, followed by a use of the outer parameter, onto a numeric
        expression in the scope of an object parameter; (4) rename where the later use is one the translator never
        sees as a name (event parameter, in-lined step). In place; returns q."""
        import random as _random
        import zlib

        self.shadowed = self.shadowed_strong = 0
        h = zlib.crc32(json.dumps(q, sort_keys=True).encode())
        if h % 100 >= self.shadow:
            return q
        r = _random.Random(h)
        for _ in range(r.choice([1, 1, 2])):
            cs = shadow_candidates(q, self.strict)
            strong = [c for c in cs if c[4] and free_in(c[2]["f"], c[2]["x"])]
            if not strong and self._append_use(q, cs, r):
                cs = shadow_candidates(q, self.strict)
                strong = [c for c in cs if c[4] and free_in(c[2]["f"], c[2]["x"])]
            if not strong and self._graft(q, r):
                continue
            pool = strong if strong and r.random() < 0.9 else [c for c in cs if c[3]]
            if not pool:
                break
            out, x, n, _, st = r.choice(pool)
            if shadow_rename(q, n, x):
                self.shadowed += 1
                self.shadowed_strong += 1 if st else 0
        return q

    def _live_sites(self, q):
        live = set()

        def walk(n):
            if isinstance(n, dict):
                live.add(id(n))
                for v in n.values():
                    walk(v)
            elif isinstance(n, list):
                for v in n:
                    walk(v)

        walk(q)
        binder = {}
        for b in binders_in(q):
            for v in bound_vars(b):
                binder.setdefault(v, []).append(b)
        inl = inlined_steps(q)
        res = []
        for node, z, et, ty in self.sites:
            bs = binder.get(z, [])
            if id(node) not in live or len(bs) != 1 or not (isinstance(et, tuple) and et[0] == "obj"):
                continue
            if (self.strict and bs[0].get("k") == "Where") or id(bs[0]) in inl or not _inside(bs[0]["f"], node):
                continue
            res.append((node, z, et, ty, bs[0]))
        return res

    def _append_use(self, q, cands, r) -> bool:
        """make one generated lambda with a numeric body use its parameter once more, at the end of its body"""
        outs = {id(out["f"]): x for out, x, _, _, _ in cands if out.get("k") == "Select"}
        opts = [(node, z, ty) for node, z, et, ty, b in self._live_sites(q) if outs.get(id(node)) == z]
        if not opts:
            return False
        node, z, ty = r.choice(opts)
        old = dict(node)
        node.clear()
        node.update({"k": "bin", "op": r.choice(["+", "-", "*"]), "a": old, "b": self._leaf_of(z, ty, r)})
        return True

    def _leaf_of(self, z, ty, r):
        return {"k": "meth", "o": {"k": "var", "n": z}, "n": r.choice(["i", "j"]) if ty == "int" else r.choice(["i", "d", "g", "f"])}

    def _graft(self, q, r) -> bool:
        """node  ~>  ((node op AGG) op z.m())  where AGG is an aggregate over z's own sub-collection whose lambda is
        called z as well"""
        opts = self._live_sites(q)
        if not opts:
            return False
        node, z, et, ty, _ = r.choice(opts)
        V = lambda: {"k": "var", "n": z}
        forms = ["count_b", "count_i", "count_vs"] + ([] if ty == "int" else ["sum_kids", "sum_kids", "sum_vs", "first_guarded"])
        form = r.choice(forms)
        if form == "count_b":
            agg = {"k": "Count", "s": {"k": "Where", "s": {"k": "meth", "o": V(), "n": "kids"}, "x": z, "f": {"k": "meth", "o": V(), "n": "b"}}}
        elif form == "count_i":
            agg = {"k": "Count", "s": {"k": "Where", "s": {"k": "meth", "o": V(), "n": "kids"}, "x": z, "f": {"k": "cmp", "op": r.choice([">", "<", ">="]), "a": {"k": "meth", "o": V(), "n": r.choice(["i", "d"])}, "b": {"k": "int", "v": r.choice([0, 1, 2])}}}}
        elif form == "count_vs":
            agg = {"k": "Count", "s": {"k": "Where", "s": {"k": "meth", "o": V(), "n": "vs"}, "x": z, "f": {"k": "cmp", "op": r.choice([">", "<"]), "a": V(), "b": {"k": "dbl", "v": r.choice(["0.5", "1.5"])}}}}
        elif form == "sum_kids":
            agg = {"k": "Sum", "s": {"k": "Select", "s": {"k": "meth", "o": V(), "n": "kids"}, "x": z, "f": {"k": "meth", "o": V(), "n": r.choice(["d", "g", "i"])}}}
        elif form == "sum_vs":
            agg = {"k": "Sum", "s": {"k": "Select", "s": {"k": "meth", "o": V(), "n": "vs"}, "x": z, "f": {"k": "bin", "op": "*", "a": V(), "b": {"k": "int", "v": 2}}}}
        else:
            import copy

            s = {"k": "Select", "s": {"k": "meth", "o": V(), "n": "kids"}, "x": z, "f": {"k": "meth", "o": V(), "n": r.choice(["d", "g"])}}
            agg = {"k": "if", "c": {"k": "cmp", "op": ">", "a": {"k": "Count", "s": copy.deepcopy(s)}, "b": {"k": "int", "v": 0}}, "a": {"k": "First", "s": s}, "b": {"k": "dbl", "v": "0.5"}}
        old = dict(node)
        new = {"k": "bin", "op": r.choice(["+", "-", "*"]), "a": {"k": "bin", "op": r.choice(["+", "-"]), "a": old, "b": agg}, "b": self._leaf_of(z, ty, r)}
        node.clear()
        node.update(new)
        if not scopes_plain(q):
            node.clear()
            node.update(old)
            return False
        self.shadowed += 1
        self.shadowed_strong += 1
        return True

    # ---- First() over a projection whose value is a declared variable
    def first_lazy_pass(self, q, names, form):
        """In a fixed share of the queries (decided by the query's own text: no draw from the generator's random
        stream) the query is REPLACED by one of the family
            coll[.Where(p)].Select(lambda j: V)[.Where(lambda v: …)].First()
        where the translator has to emit statements for V and holds its value in a declared variable: a conditional
        expression, an and / or, a Count() / Sum() / Aggregate() over a sub-collection (or over another collection,
        compared with j). First() must capture the value the FIRST kept element gives, inside its `if (is_first)`
        guard. The new query ranges over exactly the banks of the one it replaces (the events drawn for it consume
        the same random numbers); `gen_event` makes the first events of such a query rich (see `enrich_event`)."""
        import random as _random
        import zlib

        self.first_lazy_form = None
        if not self.allow_first or self.first_lazy <= 0:
            return q, names, form
        h = zlib.crc32(("first-lazy|" + json.dumps(q, sort_keys=True)).encode())
        if h % 100 >= self.first_lazy:
            return q, names, form
        banks = dict(banks_used(q))
        if not banks:
            return q, names, form
        r = _random.Random(h)
        q2, names2, form2 = self._first_lazy(r, banks)
        self.banks = dict(banks)
        self.ops = dict(ops_used(q2))
        return q2, names2, form2

    def _fl_value(self, r, x, ev=None, other=None):
        """(V, type, form): an expression over the element x (an object) whose value the translator keeps in a
        variable it declares. `other` = (collection, bank) of another collection of the event `ev`."""
        M = lambda n, v=x: {"k": "meth", "o": {"k": "var", "n": v}, "n": n}
        I = lambda *vs: {"k": "int", "v": r.choice(vs)}
        D = lambda *vs: {"k": "dbl", "v": r.choice(vs)}
        num = lambda v=x: M(r.choice(["d", "g", "f", "i", "d"]), v)
        def cond(v=x):
            c = r.choice(["b", "d", "i", "g"])
            if c == "b":
                return M("b", v)
            if c == "i":
                return {"k": "cmp", "op": r.choice([">", ">=", "<", "!="]), "a": M("i", v), "b": I(0, 1, 2)}
            return {"k": "cmp", "op": r.choice([">", "<", ">="]), "a": M(c, v), "b": D("0.5", "1.5", "2.0", "1.0")}
        def kids_chain(v=x, filt=None):
            s = {"k": "meth", "o": {"k": "var", "n": v}, "n": "kids"}
            if filt if filt is not None else r.random() < 0.4:
                k = self.fresh()
                s = {"k": "Where", "s": s, "x": k, "f": cond(k)}
            return s
        forms = ["if", "if", "if_const", "and", "or", "and3", "count_kids", "count_kids", "count_vs", "sum_kids", "sum_kids", "sum_vs", "agg", "if_count", "if_nested", "first_guarded"]
        if ev is not None and other is not None:
            forms += ["count_cross", "count_cross"]
        if self.allow_minmax:
            forms += ["max_kids"]
        form = r.choice(forms)
        if form == "if":
            return {"k": "if", "c": cond(), "a": num(), "b": num()}, "double", form
        if form == "if_const":
            arms = [num(), D("0.25", "10.0", "-1.5")]
            r.shuffle(arms)
            return {"k": "if", "c": cond(), "a": arms[0], "b": arms[1]}, "double", form
        if form in ("and", "or"):
            return {"k": form, "a": cond(), "b": cond()}, "bool", form
        if form == "and3":
            k = r.choice(["and", "or"])
            return {"k": k, "flat": True, "a": {"k": k, "a": cond(), "b": cond()}, "b": cond()}, "bool", form
        if form == "count_kids":
            return {"k": "Count", "s": kids_chain()}, "int", form
        if form == "count_vs":
            s = {"k": "meth", "o": {"k": "var", "n": x}, "n": "vs"}
            if r.random() < 0.5:
                v = self.fresh()
                s = {"k": "Where", "s": s, "x": v, "f": {"k": "cmp", "op": r.choice([">", "<"]), "a": {"k": "var", "n": v}, "b": D("0.5", "1.5")}}
            return {"k": "Count", "s": s}, "int", form
        if form == "count_cross":
            t = self.fresh()
            oc, ob = other
            src = {"k": "coll", "e": {"k": "var", "n": ev}, "c": oc, "bank": ob}
            m = r.choice(["d", "g", "i"])
            return {"k": "Count", "s": {"k": "Where", "s": src, "x": t, "f": {"k": "cmp", "op": r.choice([">", "<", ">="]), "a": M(m, t), "b": M(m)}}}, "int", form
        if form == "sum_kids":
            k = self.fresh()
            m = r.choice(["d", "g", "i", "d"])
            return {"k": "Sum", "s": {"k": "Select", "s": kids_chain(), "x": k, "f": M(m, k)}}, ("int" if m == "i" else "double"), form
        if form == "sum_vs":
            s = {"k": "meth", "o": {"k": "var", "n": x}, "n": "vs"}
            if r.random() < 0.5:
                v = self.fresh()
                s = {"k": "Select", "s": s, "x": v, "f": {"k": "bin", "op": "*", "a": {"k": "var", "n": v}, "b": I(2, 3)}}
            return {"k": "Sum", "s": s}, "double", form
        if form == "max_kids":
            k = self.fresh()
            return {"k": r.choice(["Min", "Max"]), "s": {"k": "Select", "s": kids_chain(filt=False), "x": k, "f": M("d", k)}}, "double", form
        if form == "agg":
            a, k = self.fresh("acc"), self.fresh("v")
            if r.random() < 0.5:
                return {"k": "Aggregate", "s": kids_chain(), "seed": D("0.5", "0.0", "1.5"), "acc": a, "x": k, "f": {"k": "bin", "op": "+", "a": {"k": "var", "n": a}, "b": M(r.choice(["d", "g"]), k)}}, "double", form
            return {"k": "Aggregate", "s": kids_chain(), "seed": I(0, 1), "acc": a, "x": k, "f": {"k": "bin", "op": "+", "a": {"k": "var", "n": a}, "b": M(r.choice(["i", "j"]), k)}}, "int", form
        if form == "if_count":
            return {"k": "if", "c": {"k": "cmp", "op": r.choice([">", ">=", "=="]), "a": {"k": "Count", "s": kids_chain()}, "b": I(0, 1, 2)}, "a": num(), "b": num()}, "double", form
        if form == "if_nested":
            inner = {"k": "if", "c": cond(), "a": num(), "b": D("0.25", "10.0")}
            if r.random() < 0.5:
                return {"k": "if", "c": cond(), "a": inner, "b": num()}, "double", form
            return {"k": "if", "c": cond(), "a": num(), "b": inner}, "double", form
        # the element's own first child, guarded
        import copy

        k = self.fresh()
        s = {"k": "Select", "s": kids_chain(), "x": k, "f": M(r.choice(["d", "g"]), k)}
        return {"k": "if", "c": {"k": "cmp", "op": ">", "a": {"k": "Count", "s": copy.deepcopy(s)}, "b": {"k": "int", "v": 0}}, "a": {"k": "First", "s": s}, "b": D("0.5", "-1.5")}, "double", "first_guarded"

    def _fl_chain(self, r, src, ev=None, other=None):
        """src[.Where(p)].Select(lambda j: V)[.Where(lambda v: …)]  ->  (sequence, type of V, value form)"""
        M = lambda n, v: {"k": "meth", "o": {"k": "var", "n": v}, "n": n}
        if r.random() < 0.4:
            w = self.fresh()
            p = r.choice([M("b", w), {"k": "cmp", "op": r.choice([">", "<", ">="]), "a": M(r.choice(["d", "g"]), w), "b": {"k": "dbl", "v": r.choice(["0.5", "1.0", "1.5"])}}, {"k": "cmp", "op": r.choice([">", ">=", "!="]), "a": M("i", w), "b": {"k": "int", "v": r.choice([0, 1])}}])
            src = {"k": "Where", "s": src, "x": w, "f": p}
        x = self.fresh()
        v, ty, vform = self._fl_value(r, x, ev, other)
        s = {"k": "Select", "s": src, "x": x, "f": v}
        if ty != "bool" and r.random() < 0.12:
            y = self.fresh()
            s = {"k": "Where", "s": s, "x": y, "f": {"k": "cmp", "op": r.choice([">", ">=", "<"]), "a": {"k": "var", "n": y}, "b": {"k": "int", "v": r.choice([0, 1, 2])}}}
            vform += "+where"
        return s, ty, vform

    def _first_lazy(self, r, banks):
        import copy

        bl = sorted(banks.items())
        bank, c = r.choice(bl)
        rest = [(b, cc) for b, cc in bl if b != bank]
        e = self.fresh("e")
        E = lambda: {"k": "var", "n": e}
        C = lambda b, cc, ev=None: {"k": "coll", "e": {"k": "var", "n": ev or e}, "c": cc, "bank": b}
        ds = {"k": "ds"}
        terms = ["col", "col", "arith", "guarded", "cmp", "two", "row", "row", "where", "nested"]
        if len(bl) == 1:
            terms += ["two_step", "two_step", "per_object", "per_object"]
        term = r.choice(terms)
        other = None
        if rest:
            ob, oc = rest[0]
            other = (oc, ob)
        used = {bank}

        def note(vform):
            if "count_cross" in vform and other:
                used.add(other[1])

        def scalar_of(s, ty, how, in_event=True):
            """a scalar built around First(s) (in_event: the event parameter is in scope)"""
            fst = {"k": "First", "s": s}
            if ty == "bool":
                if how == "arith":
                    return {"k": "if", "c": fst, "a": {"k": "dbl", "v": "1.5"}, "b": {"k": "dbl", "v": "-1.5"}}, "double"
                if how == "cmp":
                    return {"k": "not", "a": fst}, "bool"
                if how == "guarded":
                    cnt = {"k": "Count", "s": copy.deepcopy(s)}
                    return {"k": r.choice(["and"]), "a": {"k": "cmp", "op": ">", "a": cnt, "b": {"k": "int", "v": 0}}, "b": fst}, "bool"
                return fst, "bool"
            if how == "arith":
                if self.allow_fn and ty == "double" and r.random() < 0.3:
                    return {"k": "fn", "f": "fabs", "args": [fst]}, "double"
                return {"k": "bin", "op": r.choice(["+", "-", "*"]), "a": fst, "b": r.choice([{"k": "int", "v": 2}, {"k": "dbl", "v": "0.5"}] + ([{"k": "Count", "s": C(bank, c)}] if in_event else []))}, ty
            if how == "cmp":
                return {"k": "cmp", "op": r.choice([">", "<", ">=", "=="]), "a": fst, "b": {"k": "int", "v": r.choice([0, 1, 2])}}, "bool"
            if how == "guarded":
                cnt = {"k": "Count", "s": copy.deepcopy(s)}
                d = {"k": "dbl", "v": r.choice(["0.5", "10.0"])} if ty == "double" else {"k": "int", "v": r.choice([0, -1])}
                if r.random() < 0.5:
                    return {"k": "if", "c": {"k": "cmp", "op": r.choice([">", "!="]), "a": cnt, "b": {"k": "int", "v": 0}}, "a": fst, "b": d}, ty
                return {"k": "if", "c": {"k": "cmp", "op": "==", "a": cnt, "b": {"k": "int", "v": 0}}, "a": d, "b": fst}, ty
            return fst, ty

        def row_of(cols, ev):
            """the final row: the given columns plus one column per bank not used yet"""
            cols = list(cols)
            for b, cc in bl:
                if b not in used:
                    if r.random() < 0.5:
                        cols.append({"k": "Count", "s": C(b, cc, ev)})
                    else:
                        y = self.fresh()
                        cols.append({"k": "Select", "s": C(b, cc, ev), "x": y, "f": {"k": "meth", "o": {"k": "var", "n": y}, "n": r.choice(["d", "i", "g"])}})
            if len(cols) == 1 and term != "row":
                return cols[0], ["col1"]
            if term == "row" and len(cols) == 1:
                y = self.fresh()
                cols.append({"k": "Select", "s": C(bank, c, ev), "x": y, "f": {"k": "meth", "o": {"k": "var", "n": y}, "n": r.choice(["d", "i", "g"])}} if r.random() < 0.6 else {"k": "Count", "s": C(bank, c, ev)})
            r.shuffle(cols)
            shape = r.choice(["tuple", "dict", "list"])
            if shape == "dict":
                ks = [f"k{i}_{r.choice(['pt', 'eta', 'n'])}" for i in range(len(cols))]
                return {"k": "dict", "ks": ks, "es": cols}, ks
            return {"k": shape, "es": cols}, [f"col{i}" for i in range(len(cols))]

        if term == "two_step":
            js = self.fresh("js")
            s, ty, vform = self._fl_chain(r, {"k": "var", "n": js})
            col, _ = scalar_of(s, ty, r.choice(["col", "col", "arith", "guarded"]), False)
            self.first_lazy_form = (vform, term)
            return {"k": "Select", "s": {"k": "Select", "s": ds, "x": e, "f": C(bank, c)}, "x": js, "f": col}, ["col1"], "two_step"
        if term == "per_object":
            o = self.fresh()
            s, ty, vform = self._fl_chain(r, {"k": "meth", "o": {"k": "var", "n": o}, "n": "kids"})
            col, _ = scalar_of(s, ty, r.choice(["col", "guarded", "guarded", "arith"]), False)
            self.first_lazy_form = (vform, term)
            return {"k": "Select", "s": {"k": "SelectMany", "s": ds, "x": e, "f": C(bank, c)}, "x": o, "f": col}, ["col1"], "selectmany"
        if term == "nested":
            # one First per element of the collection: a vector column
            o = self.fresh()
            s, ty, vform = self._fl_chain(r, {"k": "meth", "o": {"k": "var", "n": o}, "n": "kids"}, e, other)
            note(vform)
            col, _ = scalar_of(s, ty, "guarded" if ty != "bool" or True else "col")
            body, names = row_of([{"k": "Select", "s": C(bank, c), "x": o, "f": col}], None)
            self.first_lazy_form = (vform, term)
            return {"k": "Select", "s": ds, "x": e, "f": body}, names, "select"
        s, ty, vform = self._fl_chain(r, C(bank, c), e, other)
        note(vform)
        if term == "two":
            s2, ty2, vform2 = self._fl_chain(r, C(bank, c), e, other)
            note(vform2)
            vform += "|" + vform2
            if ty == "bool" or ty2 == "bool":
                a, _ = scalar_of(s, ty, "arith" if ty == "bool" else "col")
                b2, _ = scalar_of(s2, ty2, "arith" if ty2 == "bool" else "col")
            else:
                a, b2 = {"k": "First", "s": s}, {"k": "First", "s": s2}
            col = {"k": "bin", "op": r.choice(["+", "-", "*"]), "a": a, "b": b2}
        elif term == "where":
            e2 = self.fresh("e")
            cond, _ = scalar_of(s, ty, "col" if ty == "bool" else "cmp")
            if r.random() < 0.5:
                cond = {"k": "and", "a": {"k": "cmp", "op": ">", "a": {"k": "Count", "s": copy.deepcopy(s)}, "b": {"k": "int", "v": 0}}, "b": cond}
            y = self.fresh()
            cols = [{"k": "Select", "s": C(bank, c, e2), "x": y, "f": {"k": "meth", "o": {"k": "var", "n": y}, "n": r.choice(["d", "i", "g"])}} if r.random() < 0.5 else {"k": "Count", "s": C(bank, c, e2)}]
            if "count_cross" in vform and other and r.random() < 0.5:
                used.discard(other[1])  # (shown as a column of its own as well)
            body, names = row_of(cols, e2)
            self.first_lazy_form = (vform, term)
            return {"k": "Select", "s": {"k": "Where", "s": ds, "x": e, "f": cond}, "x": e2, "f": body}, names, "where_select"
        else:
            col, _ = scalar_of(s, ty, term if term in ("arith", "guarded", "cmp") else "col")
        body, names = row_of([col], None)
        self.first_lazy_form = (vform, term)
        return {"k": "Select", "s": ds, "x": e, "f": body}, names, "select"

    # ---- labels of the final row
    def label_pass(self, q, names):
        """In a fixed share of the queries whose final row has >= 2 labelled columns (decided by the query's own
        text: no draw from the generator's random stream) the labels are replaced by a group of labels that differ
        only in characters that cannot be part of an identifier (`mu.pt`, `mu_pt`, `mu pt`: every storage variable
        is named after the identifier characters of its label), or that extend one another by digits (`jet`,
        `jet1`: the name counter is glued to the label). `names` is updated in place; returns q.
        (Listed finding kept outside: a label that extends another by digits comes AFTER it — `x1` before `x` can
        give the two columns one variable when the counter of `x` is ten times larger.)"""
        import random as _random
        import zlib

        self.labelled = None
        body = q.get("f") if isinstance(q, dict) and q.get("k") == "Select" else None
        if self.labels <= 0 or not isinstance(body, dict) or body.get("k") not in ("dict", "tuple", "list") or len(body.get("es", [])) < 2:
            return q
        h = zlib.crc32(("labels|" + json.dumps(q, sort_keys=True)).encode())
        if h % 100 >= (self.labels if body["k"] == "dict" else self.labels * LABEL_ROW_PCT // LABEL_PCT):
            return q
        r = _random.Random(h)
        n = len(body["es"])
        ordered, group = r.choice(LABEL_GROUPS)
        idx = sorted(r.sample(range(len(group)), min(n, len(group))))
        labels = [group[i] for i in idx]
        if not ordered:
            r.shuffle(labels)
        old = list(body["ks"]) if body["k"] == "dict" else [f"k{i}_{r.choice(['pt', 'eta', 'n'])}" for i in range(n)]
        pos = sorted(r.sample(range(n), len(labels)))
        ks = list(old)
        for p, l in zip(pos, labels):
            ks[p] = l
        if body["k"] != "dict":
            body["k"] = "dict"
        body["ks"] = ks
        names[:] = ks
        self.labelled = labels
        return q

    # ---- columns and tops
    def column(self, env, depth):
        r = self.rng
        c = r.choice(["scalar"] * 3 + ["seq"] * 2 + ["seqseq"])
        if c == "scalar":
            t = r.choice(["int", "double", "double", "bool"])
            return self._site(self.scalar(env, depth, t), env, t), 0
        if c == "seq":
            s, et = self.seq(env, depth, "scalar")
            if self.strict and s.get("k") == "meth" and not isinstance(et, tuple):
                # a bare collection-valued method as a column is refused today (listed finding)
                x = self.fresh()
                s = {"k": "Select", "s": s, "x": x, "f": {"k": "bin", "op": "*", "a": {"k": "var", "n": x}, "b": {"k": "int", "v": 2}}}
            if isinstance(et, tuple):
                x = self.fresh()
                self.op("Select")
                s = {"k": "Select", "s": s, "x": x, "f": self.lam(env, x, et, max(depth - 1, 0), r.choice(["int", "double"]), over=s)}
            elif self.strict and not self._top_lambda_uses(s):
                pass
            return s, 1
        # sequence of sequences: objects -> their vs() (possibly transformed)
        s, et = self.seq(env, max(depth - 1, 0), "obj")
        if not isinstance(et, tuple):
            return s, 1
        x = self.fresh()
        inner = {"k": "meth", "o": {"k": "var", "n": x}, "n": "vs"}
        if r.random() < 0.5:
            y = self.fresh()
            if r.random() < 0.3:
                # the inner projection uses the ENCLOSING element only (one entry per inner element all the same): as a
                # column this is fine (the listed defect is an aggregate / First over such a projection)
                inner = {"k": "Select", "s": inner, "x": y, "f": self.dep(self.scalar([(x, et)], 1, "double"), x, et, "double")}
            else:
                inner = {"k": "Select", "s": inner, "x": y, "f": self.dep(self.scalar(env + [(x, et), (y, "double")], 1, "double"), y, "double", "double")}
            self.op("Select")
        self.op("Select")
        self.op("vs")
        return {"k": "Select", "s": s, "x": x, "f": inner}, 2

    def body(self, env, depth, allow_seq=True):
        r = self.rng
        shape = r.choice(["single", "single", "tuple", "dict", "list"])
        ncols = 1 if shape == "single" else r.randint(1, 3)
        cols = []
        for _ in range(ncols):
            if allow_seq:
                cols.append(self.column(env, depth)[0])
            else:
                t = r.choice(["int", "double", "double", "bool"])
                cols.append(self._site(self.scalar(env, depth, t), env, t))
        if shape == "single":
            return cols[0], ["col1"]
        if shape == "tuple":
            return {"k": "tuple", "es": cols}, [f"col{i}" for i in range(ncols)]
        if shape == "list":
            return {"k": "list", "es": cols}, [f"col{i}" for i in range(ncols)]
        ks = [f"k{i}_{r.choice(['pt', 'eta', 'n'])}" for i in range(ncols)]
        return {"k": "dict", "ks": ks, "es": cols}, ks

    def top_first_mix(self):
        q, names, form = self._top_first_mix()
        q = self.shadow_pass(q)
        return self.label_pass(q, names), names, form

    def top(self):
        q, names, form = self.first_lazy_pass(*self._top())
        q = self.shadow_pass(q)
        return self.label_pass(q, names), names, form

    def _top_first_mix(self):
        """event-level row mixing vector columns with an (unguarded) First column: on an event where the
        First's sequence is empty the job must fail, not skip the event with half-built columns"""
        r = self.rng
        e = self.fresh("e")
        env = [(e, "event")]
        d = r.randint(1, 2)
        cols = []
        for _ in range(r.randint(1, 2)):
            s, et = self.seq(env, d, "num")
            if et not in NUM:
                return self._top()
            if self.strict and s.get("k") == "meth":
                x = self.fresh()
                s = {"k": "Select", "s": s, "x": x, "f": {"k": "bin", "op": "*", "a": {"k": "var", "n": x}, "b": {"k": "int", "v": 2}}}
            cols.append(s)
        s2, et2 = self.seq(env, d, "num")
        if et2 not in NUM:
            return self._top()
        self.op("First")
        cols.append({"k": "First", "s": s2})
        r.shuffle(cols)
        return {"k": "Select", "s": {"k": "ds"}, "x": e, "f": {"k": "tuple", "es": cols}}, [f"col{i}" for i in range(len(cols))], "select"

    def _top(self):
        r = self.rng
        d = r.randint(1, self.max_depth)
        form = r.choice(["select", "select", "select", "where_select", "selectmany", "selectmany", "selectmany_where", "two_step", "selectmany2", "two_step_tuple"])
        if r.random() < 0.08:
            form = r.choice(["two_step_scalar", "two_step_twice"])
        e = self.fresh("e")
        env = [(e, "event")]
        ds = {"k": "ds"}
        if form == "select":
            b, names = self.body(env, d)
            return {"k": "Select", "s": ds, "x": e, "f": b}, names, form
        if form == "where_select":
            e2 = self.fresh("e")
            cond = self.scalar(env, d, "bool")
            b, names = self.body([(e2, "event")], d)
            return {"k": "Select", "s": {"k": "Where", "s": ds, "x": e, "f": cond}, "x": e2, "f": b}, names, form
        if form == "two_step_scalar":
            # first compute one event-level value, then build a row in which that SAME value feeds several columns
            # (after func_adl's simplification every use is the one shared AST object)
            ty = r.choice(["int", "double"])
            first = self.scalar(env, d, ty)
            n = self.fresh("n")
            uses = [{"k": "var", "n": n}, {"k": "var", "n": n}]
            if r.random() < 0.7:
                uses.append({"k": "bin", "op": r.choice(["+", "*"]), "a": {"k": "var", "n": n}, "b": {"k": "int", "v": r.choice([2, 3])}})
            if r.random() < 0.3:
                uses.append({"k": "var", "n": n})
            r.shuffle(uses)
            shape = r.choice(["tuple", "dict", "list"])
            self.op(shape)
            if shape == "dict":
                ks = [f"k{i}_{r.choice(['pt', 'eta', 'n'])}" for i in range(len(uses))]
                b, names = {"k": "dict", "ks": ks, "es": uses}, ks
            else:
                b, names = {"k": shape, "es": uses}, [f"col{i}" for i in range(len(uses))]
            return {"k": "Select", "s": {"k": "Select", "s": ds, "x": e, "f": first}, "x": n, "f": b}, names, "two_step"
        if form == "two_step_twice":
            # a parameter bound to a FILTERED collection is traversed twice, side by side; the second traversal's body
            # needs statements of its own (a conditional): each traversal must get its own loop
            sc, et = self.coll(env)
            x0 = self.fresh()
            self.op("Where")
            sc = {"k": "Where", "s": sc, "x": x0, "f": self.lam([], x0, et, 1, "bool")}
            js = self.fresh("js")
            y1, y2 = self.fresh(), self.fresh()
            self.op("Select"); self.op("Select"); self.op("if")
            c1 = {"k": "Select", "s": {"k": "var", "n": js}, "x": y1, "f": self.lam([], y1, et, 1, r.choice(["int", "double"]))}
            c2 = {"k": "Select", "s": {"k": "var", "n": js}, "x": y2, "f": {"k": "if", "c": self.lam([], y2, et, 1, "bool"), "a": self.lam([], y2, et, 1, "double"), "b": {"k": "dbl", "v": r.choice(["10.0", "0.5"])}}}
            cols = [c1, c2] if r.random() < 0.7 else [c2, c1]
            shape = r.choice(["tuple", "list"])
            self.op(shape)
            return {"k": "Select", "s": {"k": "Select", "s": ds, "x": e, "f": sc}, "x": js, "f": {"k": shape, "es": cols}}, ["col0", "col1"], "two_step"
        if form == "two_step_tuple":
            # the common idiom: first select a tuple / dict of collections, then build the row from its components
            n = r.randint(2, 3)
            comps = []
            for _ in range(n):
                sc, et = self.coll(env)
                if r.random() < 0.3:
                    x0 = self.fresh()
                    self.op("Where")
                    sc = {"k": "Where", "s": sc, "x": x0, "f": self.lam([], x0, et, 1, "bool")}
                comps.append((sc, et))
            t = self.fresh("t")
            if r.random() < 0.5:
                self.op("tuple")
                first = {"k": "tuple", "es": [c for c, _ in comps]}
                env2 = [(f"{t}#{i}", ("seqsrc", {"k": "sub", "a": {"k": "var", "n": t}, "i": i}, et)) for i, (_, et) in enumerate(comps)]
            else:
                self.op("dict")
                ks = [f"c{i}" for i in range(n)]
                first = {"k": "dict", "ks": ks, "es": [c for c, _ in comps]}
                env2 = [(f"{t}#{i}", ("seqsrc", {"k": "key", "a": {"k": "var", "n": t}, "key": ks[i]}, et)) for i, (_, et) in enumerate(comps)]
            src = {"k": "Select", "s": ds, "x": e, "f": first}
            if r.random() < 0.3:
                tw = self.fresh("t")
                envw = [(nm.replace(t, tw), ("seqsrc", json.loads(json.dumps(ex).replace(f'"n": "{t}"', f'"n": "{tw}"')), et)) for nm, (_, ex, et) in env2]
                self.op("Where")
                src = {"k": "Where", "s": src, "x": tw, "f": self.scalar(envw, 1, "bool")}
            b, names = self.body(env2, d)
            return {"k": "Select", "s": src, "x": t, "f": b}, names, form
        if form == "selectmany2":
            # rows per inner element of a two-level SelectMany, with columns from the inner AND the enclosing object
            sc, et = self.coll(env)
            a, k = self.fresh("a"), self.fresh("k")
            ncols = r.randint(2, 3)
            cols = []
            for i in range(ncols):
                who = (k, et) if i == 0 else ((a, et) if (i == ncols - 1 or r.random() < 0.4) else (k, et))
                cols.append(self.dep(self.scalar([who], 1, r.choice(["int", "double"])), who[0], who[1], "double"))
            r.shuffle(cols)
            self.op("SelectMany"); self.op("SelectMany"); self.op("Select"); self.op("kids")
            inner = {"k": "Select", "s": {"k": "meth", "o": {"k": "var", "n": a}, "n": "kids"}, "x": k, "f": {"k": "tuple", "es": cols} if ncols > 1 else cols[0]}
            q = {"k": "SelectMany", "s": {"k": "SelectMany", "s": ds, "x": e, "f": sc}, "x": a, "f": inner}
            return q, [f"col{i}" for i in range(ncols)] if ncols > 1 else ["col1"], form
        if form in ("selectmany", "selectmany_where"):
            s, et = self.seq(env, max(d - 1, 0), "obj")
            if not isinstance(et, tuple):
                x = self.fresh()
                return {"k": "Select", "s": {"k": "SelectMany", "s": ds, "x": e, "f": s}, "x": x, "f": {"k": "var", "n": x}}, ["col1"], form
            src = {"k": "SelectMany", "s": ds, "x": e, "f": s}
            if form == "selectmany_where":
                x0 = self.fresh()
                src = {"k": "Where", "s": src, "x": x0, "f": self.lam([], x0, et, d, "bool")}
            x = self.fresh()
            # no event variable in scope here: columns are built from the element only
            b, names = self.body([(x, et)], d, allow_seq=(not self.strict and r.random() < 0.4))
            return {"k": "Select", "s": src, "x": x, "f": b}, names, form
        # two_step: first select the collection, then work on it
        s, et = self.coll(env)
        js = self.fresh("js")
        x = self.fresh()
        if self.allow_first and r.random() < 0.12 * (1 + self.guard_w):
            # several First() over the one sequence bound to the parameter (they share its loop), side by side
            def one_first():
                y = self.fresh()
                src = {"k": "var", "n": js}
                if not self.strict and r.random() < 0.4:
                    # (listed finding: with a filter on one of them the shared loop computes the combination from one element)
                    z = self.fresh()
                    self.op("Where")
                    src = {"k": "Where", "s": src, "x": z, "f": self.lam([], z, et, 1, "bool")}
                self.op("First")
                self.op("Select")
                return {"k": "First", "s": {"k": "Select", "s": src, "x": y, "f": {"k": "meth", "o": {"k": "var", "n": y}, "n": r.choice(["d", "g", "f", "i"])}}}

            inner = {"k": "bin", "op": r.choice(["+", "-", "*"]), "a": one_first(), "b": one_first()}
            if r.random() < 0.5:
                self.op("if")
                self.op("Count")
                inner = {"k": "if", "c": {"k": "cmp", "op": "==", "a": {"k": "Count", "s": {"k": "var", "n": js}}, "b": {"k": "int", "v": 0}}, "a": {"k": "dbl", "v": "0.5"}, "b": inner}
            return {"k": "Select", "s": {"k": "Select", "s": ds, "x": e, "f": s}, "x": js, "f": inner}, ["col1"], "two_step"
        inner = {"k": "Select", "s": {"k": "var", "n": js}, "x": x, "f": self.lam([], x, et, d, r.choice(["int", "double"]))}
        if r.random() < 0.5:
            inner = {"k": "Count", "s": inner} if r.random() < 0.5 else inner
        return {"k": "Select", "s": {"k": "Select", "s": ds, "x": e, "f": s}, "x": js, "f": inner}, ["col1"], "two_step"


ODD_BANKS = ['q"z', "q'z", "q\\z", "q??/z"]

# (ordered?, labels): labels of one group are made into the same identifier, or into identifiers that extend one
# another by digits (ordered: the shorter label first, see Gen.label_pass)
LABEL_GROUPS = [
    (False, ["mu.pt", "mu_pt", "mu pt"]),
    (False, ["jet-pt", "jet_pt", "jet:pt"]),
    (False, ["el.eta", "el eta", "el_eta"]),
    (False, ["n.trk", "n_trk", "n trk"]),
    (False, ["pt.", "pt_", "pt "]),
    (True, ["jet", "jet1", "jet12"]),
    (True, ["pt", "pt2", "pt20"]),
    (True, ["mu.pt", "mu_pt", "mu_pt1"]),
    (True, ["x", "x0", "x_0"]),
]


class Banks(dict):
    """bank -> collection name of a query. `rich`: the query takes First() of a projection whose value needs
    statements of its own (`gen_event` then makes the first events drawn for it rich, see `enrich_event`);
    `calls`: number of events drawn for it so far."""

    rich = False
    calls = 0


def banks_used(q: Any, acc: Optional[Dict[str, str]] = None) -> Dict[str, str]:
    top = acc is None
    acc = Banks() if acc is None else acc
    if isinstance(q, dict):
        if q.get("k") == "coll":
            acc[q["bank"]] = q["c"]
        for v in q.values():
            banks_used(v, acc)
    elif isinstance(q, list):
        for v in q:
            banks_used(v, acc)
    if top:
        acc.rich = bool(first_lazy_sites(q))
    return acc


STATEMENT_KINDS = ("if", "and", "or", "Count", "Sum", "Aggregate", "Min", "Max", "First")


def needs_statements(q: Any) -> bool:
    """the translator has to emit statements (and declare a variable) for the value of q"""
    if isinstance(q, dict):
        return q.get("k") in STATEMENT_KINDS or any(needs_statements(v) for v in q.values())
    if isinstance(q, list):
        return any(needs_statements(v) for v in q)
    return False


def first_lazy_sites(q: Any, acc: Optional[List[Dict[str, Any]]] = None) -> List[Dict[str, Any]]:
    """the First() nodes of q whose sequence is (a filtered) projection with a body that needs statements"""
    acc = [] if acc is None else acc
    if isinstance(q, dict):
        if q.get("k") == "First":
            s = q.get("s")
            while isinstance(s, dict) and s.get("k") == "Where":
                s = s.get("s")
            if isinstance(s, dict) and s.get("k") == "Select" and needs_statements(s.get("f")):
                acc.append(q)
        for v in q.values():
            first_lazy_sites(v, acc)
    elif isinstance(q, list):
        for v in q:
            first_lazy_sites(v, acc)
    return acc


def ops_used(q: Any, acc: Optional[Dict[str, int]] = None) -> Dict[str, int]:
    acc = {} if acc is None else acc
    if isinstance(q, dict):
        k = q.get("k")
        if k in ("bin", "cmp"):
            acc[q["op"]] = acc.get(q["op"], 0) + 1
        elif k and k not in ("var", "int", "dbl", "bool", "str", "ds"):
            acc[k] = acc.get(k, 0) + 1
        for v in q.values():
            ops_used(v, acc)
    elif isinstance(q, list):
        for v in q:
            ops_used(v, acc)
    return acc


# ---------------------------------------------------------------- variables, scopes, shadowing

BINDERS = ("Select", "Where", "SelectMany")
# the order in which the parts of a node are evaluated / translated (source before the lambda's body, test before arms)
VISIT_ORDER = ("o", "e", "s", "seed", "c", "a", "b", "es", "args", "f")


def bound_vars(n: Dict[str, Any]) -> List[str]:
    """the parameters the node binds in its body `f` (and only there: `s` and `seed` are outside their scope)"""
    k = n.get("k")
    if k in BINDERS and "x" in n:
        return [n["x"]]
    if k == "Aggregate":
        return [n["acc"], n["x"]]
    return []


def free_in(q: Any, x: str) -> bool:
    """x occurs FREE in q: an occurrence inside the body of a nested lambda that re-binds the name x denotes that
    lambda's own parameter, not x"""
    if isinstance(q, dict):
        if q.get("k") == "var":
            return q.get("n") == x
        bv = bound_vars(q)
        for key, v in q.items():
            if key == "f" and x in bv:
                continue
            if free_in(v, x):
                return True
        return False
    if isinstance(q, list):
        return any(free_in(v, x) for v in q)
    return False


def _occurs(q: Any, x: str) -> bool:
    """the name x is written somewhere in q (bound or free)"""
    if isinstance(q, dict):
        return (q.get("k") == "var" and q.get("n") == x) or any(_occurs(v, x) for v in q.values())
    if isinstance(q, list):
        return any(_occurs(v, x) for v in q)
    return False


def _uses_var(q: Any, x: str) -> bool:
    return free_in(q, x)


def rename_free(q: Any, old: str, new: str) -> None:
    """rename the free occurrences of `old` in q to `new` (in place)"""
    if isinstance(q, dict):
        if q.get("k") == "var":
            if q.get("n") == old:
                q["n"] = new
            return
        bv = bound_vars(q)
        for key, v in q.items():
            if key == "f" and old in bv:
                continue
            rename_free(v, old, new)
    elif isinstance(q, list):
        for v in q:
            rename_free(v, old, new)


def _parts(n: Dict[str, Any]) -> List[Tuple[str, Any]]:
    keys = [k for k in VISIT_ORDER if k in n] + [k for k in n if k not in VISIT_ORDER]
    return [(k, n[k]) for k in keys if isinstance(n[k], (dict, list))]


def binders_in(q: Any, acc: Optional[List[Dict[str, Any]]] = None) -> List[Dict[str, Any]]:
    acc = [] if acc is None else acc
    if isinstance(q, dict):
        if bound_vars(q):
            acc.append(q)
        for _, v in _parts(q):
            binders_in(v, acc)
    elif isinstance(q, list):
        for v in q:
            binders_in(v, acc)
    return acc


def scopes_plain(q: Any) -> bool:
    """every lambda that mentions its parameter's NAME also uses the parameter (so that helpers which only look at
    names — 'does this body ignore its element?' — stay right in the presence of shadowing), and an Aggregate's two
    parameters differ"""
    for b in binders_in(q):
        for v in bound_vars(b):
            if _occurs(b["f"], v) != free_in(b["f"], v):
                return False
        if b.get("k") == "Aggregate" and b["acc"] == b["x"]:
            return False
    return True


def inlined_steps(q: Dict[str, Any]) -> set:
    """ids of the top-level steps whose lambda func_adl in-lines when it composes consecutive Selects (their
    parameter never reaches the translator as a name)"""
    inlined = set()
    cur = q
    while isinstance(cur, dict) and cur.get("k") in BINDERS:
        s = cur.get("s")
        while isinstance(s, dict) and s.get("k") == "Where":
            s = s.get("s")
        if isinstance(s, dict) and s.get("k") == "Select":
            inlined.add(id(cur))
        cur = cur.get("s")
    return inlined


def _inside(tree: Any, node: Any) -> bool:
    if tree is node:
        return True
    if isinstance(tree, dict):
        return any(_inside(v, node) for v in tree.values())
    if isinstance(tree, list):
        return any(_inside(v, node) for v in tree)
    return False


def shadow_candidates(q: Dict[str, Any], strict: bool = True):
    """(outer lambda, its parameter x, inner lambda nested in the outer body, after, strong): the inner lambda's
    parameter can be renamed to x without changing the meaning of the query (x is not used inside the inner body).
    after:  x is used by the outer body at a position translated AFTER the inner lambda was applied;
    strong: ... in a position that reaches the translator as a name (not the receiver of a collection access, and
            the outer lambda is not one that func_adl in-lines when it composes consecutive top-level Selects)."""
    res = []
    inlined = inlined_steps(q)
    for out in binders_in(q):
        if strict and out.get("k") == "Where":
            # (finding in the func_adl LIBRARY, outside the repository under verification: Where-of-Where merges the two
            # filters by in-lining them under the user's parameter names, and a nested lambda that re-binds such a
            # name is substituted as well — `x.vs().Where(lambda x: x < 3.0)` inside a filter on x)
            continue
        for x in bound_vars(out):
            pos = [0]
            uses: List[Tuple[int, bool]] = []
            inner: List[Tuple[Dict[str, Any], int]] = []

            def walk(n, shadowed, weak=False):
                if isinstance(n, dict):
                    if n.get("k") == "var":
                        pos[0] += 1
                        if n.get("n") == x and not shadowed:
                            uses.append((pos[0], weak))
                        return
                    bv = bound_vars(n)
                    for key, v in _parts(n):
                        walk(v, shadowed or (key == "f" and x in bv), n.get("k") == "coll" and key == "e")
                    if bv and not shadowed and x not in bv:
                        inner.append((n, pos[0]))
                elif isinstance(n, list):
                    for v in n:
                        walk(v, shadowed)

            walk(out["f"], False)
            for n, end in inner:
                if free_in(n["f"], x) or n.get("acc") == x:
                    continue
                after = any(u > end for u, _ in uses)
                strong = any(u > end and not w for u, w in uses) and id(out) not in inlined
                res.append((out, x, n, after, strong))
    return res


def shadow_rename(q: Dict[str, Any], inner: Dict[str, Any], x: str) -> bool:
    """rename the parameter of the lambda `inner` (a node of q) to x, in place; undone (False) if afterwards some
    lambda only SEEMS to use its parameter"""
    import copy

    save = copy.deepcopy(inner)
    old = inner["x"]
    rename_free(inner["f"], old, x)
    inner["x"] = x
    if not scopes_plain(q):
        inner.clear()
        inner.update(save)
        return False
    return True


def dead_nodes(q: Any) -> set:
    """ids of sub-queries that are never translated: components of a first-step tuple / dict of collections that no
    later step refers to (`Select(ds, e -> (a, b, c)).Select(t -> t[2]…)` never looks at a and b)."""
    chain, cur = [], q
    while isinstance(cur, dict) and cur.get("k") in ("Select", "Where", "SelectMany"):
        chain.append(cur)
        cur = cur.get("s")
    if not chain or not (isinstance(cur, dict) and cur.get("k") == "ds"):
        return set()
    first = chain[-1]
    body = first.get("f")
    if first.get("k") != "Select" or not isinstance(body, dict) or body.get("k") not in ("tuple", "dict") or len(chain) < 2:
        return set()
    used, whole = set(), [False]

    def scan(n, var):
        if isinstance(n, dict):
            if n.get("k") in ("sub", "key") and isinstance(n.get("a"), dict) and n["a"].get("k") == "var" and n["a"].get("n") == var:
                used.add(n["i"] if n["k"] == "sub" else body.get("ks", []).index(n["key"]) if n["key"] in body.get("ks", []) else -1)
                return
            if n.get("k") == "var" and n.get("n") == var:
                whole[0] = True
            rebinds = var in bound_vars(n)  # (a nested lambda with the same parameter name: its body does not see `var`)
            for key, v in n.items():
                if not (rebinds and key == "f"):
                    scan(v, var)
        elif isinstance(n, list):
            for v in n:
                scan(v, var)

    for c in chain[:-1]:
        scan(c.get("f"), c.get("x"))
    if whole[0]:
        return set()
    return {id(e) for i, e in enumerate(body["es"]) if i not in used}


def ops_used_live(q: Any, acc: Optional[Dict[str, int]] = None, dead_elem: bool = False, skip: Optional[set] = None) -> Dict[str, int]:
    """`ops_used` restricted to LIVE positions: the element expression of a sequence whose consumer ignores its
    variable (`.Select(lambda x: 2.5)`) is never translated (nor evaluated by the query), so operators in it do not count."""
    acc = {} if acc is None else acc
    if skip is None:
        skip = dead_nodes(q)
    if isinstance(q, dict):
        if id(q) in skip:
            return acc
        k = q.get("k")
        if k in ("bin", "cmp"):
            acc[q["op"]] = acc.get(q["op"], 0) + 1
        elif k and k not in ("var", "int", "dbl", "bool", "str", "ds"):
            acc[k] = acc.get(k, 0) + 1
        ignores = k in ("Select", "Where", "SelectMany", "Aggregate") and "x" in q and not _uses_var(q.get("f"), q["x"])
        for key, v in q.items():
            if key == "s" and k in ("Select", "Where", "SelectMany", "Aggregate", "Count", "Sum", "First", "Min", "Max"):
                if k == "Where":
                    pass_dead = dead_elem and ignores
                elif k == "Select":
                    pass_dead = dead_elem or ignores
                else:
                    pass_dead = ignores
                ops_used_live(v, acc, pass_dead, skip)
            elif key == "f" and k == "Select" and dead_elem:
                continue
            else:
                ops_used_live(v, acc, False, skip)
    elif isinstance(q, list):
        for v in q:
            ops_used_live(v, acc, False, skip)
    return acc


# ---------------------------------------------------------------- events

HALVES = ["0.0", "0.5", "1.0", "1.5", "2.0", "2.5", "3.0", "-1.0", "-0.5", "4.0", "6.0"]


def gen_obj(rng, ty: str, depth: int) -> Dict[str, Any]:
    attrs = [
        {"k": "i", "v": {"i": rng.choice([0, 1, 1, 2, 3, 5, -1, -3])}},
        {"k": "j", "v": {"i": rng.choice([0, 1, 2, 4])}},
        {"k": "f", "v": {"d": rng.choice(HALVES)}},
        {"k": "d", "v": {"d": rng.choice(HALVES)}},
        {"k": "g", "v": {"d": rng.choice(HALVES)}},
        {"k": "b", "v": {"b": rng.random() < 0.6}},
        {"k": "vs", "v": {"v": [{"d": rng.choice(HALVES)} for _ in range(rng.choice([0, 0, 1, 2, 3]))]}},
        {"k": "kids", "v": {"v": [gen_obj(rng, ty, depth - 1) for _ in range(rng.choice([0, 1, 2, 3]) if depth > 0 else 0)]}},
    ]
    return {"o": {"ty": ty, "a": attrs}}


def gen_event(rng, backend: str, banks: Dict[str, str], empty_bias=0.25) -> Dict[str, Any]:
    bs = []
    for bank, coll in sorted(banks.items()):
        n = 0 if rng.random() < empty_bias else rng.choice([1, 1, 2, 3, 4])
        objs = [gen_obj(rng, elem_type(backend, coll), 2) for _ in range(n)]
        bs.append({"bank": bank, "type": cont_type(backend, coll), "content": {"v": objs}})
    ev = {"banks": bs}
    if getattr(banks, "rich", False):
        k = banks.calls
        banks.calls += 1
        if k in RICH_EVENTS:
            enrich_event(ev, k)
    return ev


RICH_EVENTS = (0, 1, 3)  # which of the events drawn for a `rich` query are enriched


def _attr(o: Dict[str, Any], k: str) -> Dict[str, Any]:
    return next(a["v"] for a in o["o"]["a"] if a["k"] == k)


def _make_differ(r, first: Dict[str, Any], last: Dict[str, Any], depth: int) -> None:
    """change `last` so that every scalar accessor, the number of vs() and the number (and sum) of kids() differ from
    `first`'s; both get at least two kids (which differ from one another in the same way) while depth > 0"""
    ty = first["o"]["ty"]
    for k, vals in (("i", [0, 1, 2, 3, 5, -1, -3]), ("j", [0, 1, 2, 4])):
        a, b = _attr(first, k), _attr(last, k)
        if a["i"] == b["i"]:
            b["i"] = r.choice([v for v in vals if v != a["i"]])
    for k in ("f", "d", "g"):
        a, b = _attr(first, k), _attr(last, k)
        if a["d"] == b["d"]:
            b["d"] = r.choice([v for v in HALVES if v != a["d"]])
    if r.random() < 0.7:
        _attr(last, "b")["b"] = not _attr(first, "b")["b"]
    va, vb = _attr(first, "vs")["v"], _attr(last, "vs")["v"]
    if len(va) == len(vb):
        vb.append({"d": r.choice(HALVES[1:7])})
    if depth > 0:
        ka, kb = _attr(first, "kids")["v"], _attr(last, "kids")["v"]
        while len(ka) < 2:
            ka.append(gen_obj(r, ty, depth - 1))
        while len(kb) < 2 or len(kb) == len(ka):
            kb.append(gen_obj(r, ty, depth - 1))
        _make_differ(r, ka[0], ka[-1], depth - 1)
        _make_differ(r, kb[0], kb[-1], depth - 1)
        _make_differ(r, ka[0], kb[0], 0)


def enrich_event(ev: Dict[str, Any], k: int = 0) -> Dict[str, Any]:
    """Every bank of the event gets at least two elements, and the first and the last element of each bank differ
    in every accessor (so do the first and last of their kids). Random choices from a generator of its own, seeded by
    the event's text: the caller's random stream is not touched. In place."""
    import random as _random
    import zlib

    r = _random.Random(zlib.crc32(json.dumps([k, ev], sort_keys=True).encode()))
    for b in ev["banks"]:
        objs = b["content"]["v"]
        ty = next((cont[: -len(suffix)] for cont, suffix in ((b["type"], "Container"), (b["type"], "Collection")) if cont.endswith(suffix)), b["type"])
        while len(objs) < 2:
            objs.append(gen_obj(r, ty, 2))
        _make_differ(r, objs[0], objs[-1], 2)
    return ev


# ---------------------------------------------------------------- package JSON from a pipeline result

HANDLE_RE = re.compile(r"^(?:edm::)?Handle<(.*)>$")


def norm_container(t: str) -> str:
    t = t.strip()
    t = re.sub(r"^const\s+", "", t)
    t = t.rstrip("*").strip()
    m = HANDLE_RE.match(t)
    if m:
        t = m.group(1).strip()
    return t


def _attach_retrieve_types(node: Any, scope_types: Dict[str, str]):
    """Give every retrieve node the declared type of its target variable (declared in the same block)."""
    if isinstance(node, dict):
        k = node.get("k")
        if k in ("block", "for"):
            local = dict(scope_types)
            for s in node["body"]:
                if isinstance(s, dict) and s.get("k") == "decl":
                    local[s["n"]] = s["t"]
                _attach_retrieve_types(s, local)
            return
        if k == "if":
            for key in ("then", "else"):
                if node.get(key):
                    local = dict(scope_types)
                    for s in node[key]:
                        if isinstance(s, dict) and s.get("k") == "decl":
                            local[s["n"]] = s["t"]
                        _attach_retrieve_types(s, local)
            return
        if k == "retrieve":
            node["ty"] = norm_container(scope_types.get(node["v"], "?"))


def bank_text(e: Dict[str, Any]) -> str:
    return e["v"] if e.get("k") == "str" else "?"


def package_json(r: Dict[str, Any]) -> Dict[str, Any]:
    body = cparse.parse_body(r["query"])
    _attach_retrieve_types(body, {})
    book = cparse.parse_book(r["book"])
    cvs = cparse.parse_class_decl(r["class_decl"])
    return {
        "body": body,
        "class_vars": [{"t": c["t"], "n": c["n"]} for c in cvs],
        "branches": book["branches"],
        "tree": book["trees"][0] if book["trees"] else "",
        "tokens": [{"token": t["token"], "type": t["type"].strip(), "bank": bank_text(t["bank"])} for t in book["tokens"]],
        "book_trees": book["trees"],
        "book_other": book["other"],
    }
