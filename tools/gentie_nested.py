"""Text tie between the Lean translator model of the NESTED-iteration fragment (`Gen.compileN`,
lean/FaxVerif/Gen/Nested.lean) and the real translator.

Fragment (outer chain = an event collection filtered by pure `Where`s, elements stay objects):
  (a) ds.Select(e -> {name: e.Coll(bank).Where*.Select(y -> NE), ...})                 vector column of inner aggregates
  (b) ds.Select(e -> {name: e.Coll(bank).Where*.Select(y -> y.m().{Select|Where}*), ...})   2-D column
      ((a) and (b) columns mixed in one row)
  (c) ds.SelectMany(e -> e.Coll(bank).Where*).Select(r -> {name: NE, ...})             one row per outer element
  NE     = pure element expression | y.m().{Select|Where}*.Count() | ....Sum() | + - * / comparisons, -, not over them
  m      = vs (collection of double) | kids (collection of objects)

For every generated query: the model's package text comes from the Lean driver
(`FaxVerif/Gen/NestedDriver.lean`, op `compileN`), the implementation's from the real pipeline
(`pipeline.translate_functional`); both are parsed with the same parser (`cparse`) and compared modulo a
bijective renaming of declared identifiers (first-occurrence numbering) and the value of floating
literals (`gentie.canon_package`). Additionally the model's package is EXECUTED in the Lean semantics on
generated events — event by event from the initial class state, and as ONE job over all the events — and
compared with the Lean denotation of the query: executable instances of `nestedRows_correct` /
`nested_job_correct`.

    run_stream(ctx_or_rng, n) -> (agree, total, first_disagreement)

`ctx_or_rng`: a vlib check context (its `.rng` and `.driver` are used) or a `random.Random`.
Standalone:  /venv/bin/python tools/gentie_nested.py [n] [seed]
"""
from __future__ import annotations

import json
import os
import random
import re
import subprocess
import sys
from pathlib import Path
from typing import Any, Dict, List, Optional, Tuple

sys.path.insert(0, str(Path(__file__).resolve().parent))

import gentie  # noqa: E402
import qgen  # noqa: E402
import pipeline as P  # noqa: E402

DRIVER = "FaxVerif/Gen/NestedDriver.lean"
DRIVER_IMPORTS = ["FaxVerif.Cpp.Json", "FaxVerif.Cpp.Check", "FaxVerif.Gen.Render", "FaxVerif.Gen.Nested"]
LEAN = Path(__file__).resolve().parent.parent / "lean"
OUTER = "y"  # Gen.outerVar

LAST_STATS: Dict[str, int] = {}

# ---------------------------------------------------------------- generation


class NestedGen:
    """Type-directed generator of the nested fragment. Lambda bodies always use their variable (bodies
    built from outer variables only / ignoring their variable under an aggregate are a listed defect class)."""

    def __init__(self, rng):
        self.rng = rng
        self.lite = gentie.LiteGen(rng)

    def sel_body(self, cur, ty):
        """body of an inner `Select`: uses its variable and is not the identity (`Select(lambda x: x)` is removed
        by func_adl's normaliser before the translator sees the query, so it is not a step of the chain)"""
        for _ in range(20):
            e = self.lite.dep(self.lite.pe(cur, ty, 2), cur, ty)
            if e is not None and e.get("k") != "it":
                return e
        return {"k": "bin", "op": "*", "a": {"k": "it"} if cur is not None else {"k": "meth", "n": "i", "ty": "int"}, "b": {"k": "int", "v": 2}}

    # -- outer chain: objects stay objects -> Where steps only
    def outer(self) -> Dict[str, Any]:
        r = self.rng
        coll = r.choice(["As", "Bs"])
        bank = r.choice({"As": ["ba", "ba2"], "Bs": ["bb"]}[coll])
        steps = []
        for _ in range(r.choice([0, 0, 1, 1, 2, 3])):
            steps.append({"k": "whr", "e": self.lite.dep(self.lite.pe(None, "bool", 2), None, "bool")})
        return {"coll": coll, "bank": bank, "steps": steps}

    # -- inner chain over y.vs() / y.kids()
    def ichain(self, want: str) -> Tuple[Dict[str, Any], Optional[str]]:
        """want: 'any' | 'num' (ends in numbers) | 'int' (ends in int) | 'double'"""
        r = self.rng
        if want == "int":
            meth = "kids"
        else:
            meth = r.choice(["vs", "vs", "kids"])
        cur: Optional[str] = "double" if meth == "vs" else None
        elem = cur if cur is not None else "obj"
        steps: List[Dict[str, Any]] = []
        for _ in range(r.choice([0, 0, 1, 1, 2, 3])):
            u = r.random()
            if cur is None and want != "any" and u < 0.35:
                ty = "int" if want == "int" else r.choice(["int", "double"])
                steps.append({"k": "sel", "e": self.sel_body(cur, ty)})
                cur = ty
            elif cur is not None and cur != "int" and u < 0.35:
                steps.append({"k": "sel", "e": self.sel_body(cur, "double")})
                cur = "double"
            elif cur == "int" and u < 0.25:
                steps.append({"k": "sel", "e": self.sel_body(cur, "int")})
            else:
                steps.append({"k": "whr", "e": self.lite.dep(self.lite.pe(cur, "bool", 2), cur, "bool")})
        if want in ("num", "int", "double") and cur is None:
            ty = "int" if want == "int" else ("double" if want == "double" else r.choice(["int", "double"]))
            steps.append({"k": "sel", "e": self.sel_body(None, ty)})
            cur = ty
        return {"meth": meth, "elem": elem, "steps": steps}, cur

    def agg(self, ty: str) -> Dict[str, Any]:
        r = self.rng
        if ty == "int":
            if r.random() < 0.7:
                return {"k": "icount", "c": self.ichain("any")[0]}
            return {"k": "isum", "c": self.ichain("int")[0]}
        ch, cur = self.ichain("num")
        return {"k": "isum", "c": ch}

    def ne(self, ty: str, depth: int) -> Dict[str, Any]:
        r = self.rng
        if ty == "bool":
            t = r.choice(["int", "double"])
            e = {"k": "cmp", "op": r.choice(["<", "<=", ">", ">=", "==", "!="]), "a": self.ne(t, depth - 1), "b": self.ne(t, depth - 1)}
            return {"k": "not", "a": e} if r.random() < 0.15 else e
        if depth <= 0 or r.random() < 0.35:
            if r.random() < 0.75:
                return self.agg(ty)
            return {"k": "pure", "p": self.lite.pe(None, ty, 1)}
        c = r.choice(["bin", "bin", "div", "neg"] if ty == "double" else ["bin", "neg"])
        if c == "bin":
            ta = ty if ty == "int" else r.choice(["int", "double"])
            tb = ty if ty == "int" else ("double" if ta == "int" else r.choice(["int", "double"]))
            return {"k": "bin", "op": r.choice(["+", "-", "*"]), "a": self.ne(ta, depth - 1), "b": self.ne(tb, depth - 1)}
        if c == "div":
            b = r.choice([{"k": "pure", "p": {"k": "int", "v": 2}}, {"k": "pure", "p": {"k": "dbl", "v": "4.0"}},
                          {"k": "bin", "op": "+", "a": self.agg("int"), "b": {"k": "pure", "p": {"k": "int", "v": 1}}}])
            return {"k": "bin", "op": "/", "a": self.ne(r.choice(["int", "double"]), depth - 1), "b": b}
        return {"k": "neg", "a": self.ne(ty, depth - 1)}

    def ne_with_agg(self, ty: str, depth: int) -> Dict[str, Any]:
        e = self.ne(ty, depth)
        for _ in range(6):
            if has_agg(e):
                break
            e = self.ne(ty, depth)
        return e

    def nq(self) -> Dict[str, Any]:
        r = self.rng
        names = lambda n: [f"c{i}_{r.choice(['pt', 'eta', 'n'])}" for i in range(n)]
        if r.random() < 0.6:
            cols = []
            for nm in names(r.choice([1, 1, 2, 3])):
                if r.random() < 0.55:
                    cols.append({"name": nm, "k": "agg", "c": self.outer(), "e": self.ne_with_agg(r.choice(["int", "double", "double", "bool"]), r.choice([0, 1, 2]))})
                else:
                    cols.append({"name": nm, "k": "twoD", "c": self.outer(), "ic": self.ichain("num")[0]})
            return {"k": "eventRows", "cols": cols}
        cols = [{"name": nm, "e": self.ne_with_agg(r.choice(["int", "double", "double", "bool"]), r.choice([0, 1, 2]))} for nm in names(r.choice([1, 2, 2, 3]))]
        return {"k": "elemRows", "c": self.outer(), "cols": cols}


def has_agg(e) -> bool:
    if isinstance(e, dict):
        if e.get("k") in ("icount", "isum"):
            return True
        return any(has_agg(v) for v in e.values())
    if isinstance(e, list):
        return any(has_agg(v) for v in e)
    return False


def count_ops(e, acc: Dict[str, int]):
    if isinstance(e, dict):
        k = e.get("k")
        if k in ("icount", "isum", "twoD", "agg"):
            acc[k] = acc.get(k, 0) + 1
        if "meth" in e and "steps" in e:
            acc["inner:" + e["meth"]] = acc.get("inner:" + e["meth"], 0) + 1
            if any(s["k"] == "whr" for s in e["steps"]):
                acc["inner-where"] = acc.get("inner-where", 0) + 1
            if any(s["k"] == "sel" for s in e["steps"]):
                acc["inner-select"] = acc.get("inner-select", 0) + 1
        for v in e.values():
            count_ops(v, acc)
    elif isinstance(e, list):
        for v in e:
            count_ops(v, acc)


# ---------------------------------------------------------------- NQ -> python source text (mirror of Gen.NQ.toQuery)

pe_src = None  # set below


def _pe_src(x: str, e: Dict[str, Any]) -> str:
    k = e["k"]
    R = lambda a: _pe_src(x, a)
    if k == "int":
        return str(e["v"])
    if k == "dbl":
        return e["v"]
    if k == "bool":
        return "True" if e["v"] else "False"
    if k == "it":
        return x
    if k == "meth":
        return f"{x}.{e['n']}()"
    if k in ("bin", "cmp"):
        return f"({R(e['a'])} {e['op']} {R(e['b'])})"
    if k == "neg":
        return f"(-{R(e['a'])})"
    if k == "not":
        return f"(not {R(e['a'])})"
    raise ValueError(k)


def steps_src(src: str, steps: List[Dict[str, Any]]) -> str:
    for i, st in enumerate(steps):
        x = f"x{i}"
        src = f"{src}.{'Select' if st['k'] == 'sel' else 'Where'}(lambda {x}: {_pe_src(x, st['e'])})"
    return src


def ichain_src(x: str, ic: Dict[str, Any]) -> str:
    return steps_src(f"{x}.{ic['meth']}()", ic["steps"])


def ne_src(x: str, e: Dict[str, Any]) -> str:
    k = e["k"]
    R = lambda a: ne_src(x, a)
    if k == "pure":
        return _pe_src(x, e["p"])
    if k == "icount":
        return ichain_src(x, e["c"]) + ".Count()"
    if k == "isum":
        return ichain_src(x, e["c"]) + ".Sum()"
    if k in ("bin", "cmp"):
        return f"({R(e['a'])} {e['op']} {R(e['b'])})"
    if k == "neg":
        return f"(-{R(e['a'])})"
    if k == "not":
        return f"(not {R(e['a'])})"
    raise ValueError(k)


def chain_src(ev: str, c: Dict[str, Any]) -> str:
    return steps_src(f"{ev}.{c['coll']}({json.dumps(c['bank'])})", c["steps"])


def nq_source(nq: Dict[str, Any], mds: List[Dict[str, Any]]) -> str:
    """the call tree the backend receives"""
    s = "ds0"
    for d in mds:
        s = f"MetaData({s}, {d!r})"
    if nq["k"] == "eventRows":
        items = []
        for col in nq["cols"]:
            ch = chain_src("e", col["c"])
            body = ne_src(OUTER, col["e"]) if col["k"] == "agg" else ichain_src(OUTER, col["ic"])
            items.append(f"{json.dumps(col['name'])}: {ch}.Select(lambda {OUTER}: {body})")
        return f"Select({s}, lambda e: {{{', '.join(items)}}})"
    row = "{" + ", ".join(f"{json.dumps(col['name'])}: {ne_src('r', col['e'])}" for col in nq["cols"]) + "}"
    return f"Select(SelectMany({s}, lambda e: {chain_src('e', nq['c'])}), lambda r: {row})"


# ---------------------------------------------------------------- events


def banks_of(nq: Dict[str, Any]) -> Dict[str, str]:
    if nq["k"] == "eventRows":
        return {col["c"]["bank"]: col["c"]["coll"] for col in nq["cols"]}
    return {nq["c"]["bank"]: nq["c"]["coll"]}


def gen_event(rng, backend: str, nq: Dict[str, Any], faulty: bool) -> Dict[str, Any]:
    ev = qgen.gen_event(rng, backend, banks_of(nq))
    if faulty:
        for b in ev["banks"]:
            objs = b["content"]["v"]
            for i in range(len(objs)):
                u = rng.random()
                if u < 0.1:
                    objs[i] = {"null": True}
                elif u < 0.2:
                    drop = rng.choice(["i", "j", "f", "d", "g", "b", "vs", "kids"])
                    objs[i]["o"]["a"] = [a for a in objs[i]["o"]["a"] if a["k"] != drop]
    return ev


# ---------------------------------------------------------------- the stream


def _run_driver(reqs: List[Dict[str, Any]]) -> List[Dict[str, Any]]:
    if not reqs:
        return []
    inp = "\n".join(json.dumps(r, ensure_ascii=False) for r in reqs) + "\n"
    p = subprocess.run(["lake", "env", "lean", "--run", DRIVER], cwd=str(LEAN), capture_output=True, text=True, input=inp, timeout=1800)
    lines = [l for l in p.stdout.split("\n") if l.strip()]
    if p.returncode != 0 or len(lines) != len(reqs):
        return [{"bad": f"driver failed rc={p.returncode}: {p.stderr[-500:]}"} for _ in reqs]
    out = []
    for l in lines:
        try:
            out.append(json.loads(l))
        except Exception:
            out.append({"bad": "unparsable: " + l[:200]})
    return out


def _fault_class(r):
    f = r.get("fault")
    if f is None:
        return "ok"
    return f.split(":")[0] if f.startswith("stuck") else f


def _norm_num(x):
    """-0.0 and 0.0 are the same number (IEEE ==): an empty floating Sum negated is -0.0 in C++ and 0 in Python"""
    if isinstance(x, list):
        return [_norm_num(y) for y in x]
    if isinstance(x, str):
        return re.sub(r"(?<![\d.])-0\.000000(?!\d)", "0.000000", x)
    return x


def _same_outcome(ex, de) -> Tuple[bool, str]:
    """Proved direction: the query denotes rows -> the code writes exactly them. Where the QUERY faults the
    code may fault differently (C++ runs an inner loop before the enclosing expression). Values are compared
    numerically: an EMPTY floating Sum is 0.0 in C++ and the integer 0 in Python (hypothesis `SumNonEmpty`)."""
    fe, fd = _fault_class(ex), _fault_class(de)
    if fd != "ok":
        return True, "query-faults"
    if fe != "ok":
        return False, f"exec {ex.get('fault')} / query defined"
    return _norm_num(ex["num"]) == _norm_num(de["num"]), "rows"


def run_stream(ctx_or_rng, n: int, events_per_query: int = 4) -> Tuple[int, int, Optional[Dict[str, Any]]]:
    """Generate `n` queries of the nested fragment (backends in rotation), compare model text with the real
    translator's, and the executed model (per event and as a job) with the query's denotation.
    Returns (agree, total, first_disagreement)."""
    ctx = ctx_or_rng if hasattr(ctx_or_rng, "driver") and hasattr(ctx_or_rng, "rng") else None
    rng = ctx.rng if ctx is not None else ctx_or_rng
    stats: Dict[str, int] = {}

    def count(name, k=1):
        stats[name] = stats.get(name, 0) + k
        if ctx is not None:
            ctx.count("nested-tie:" + name, k)

    reqs, meta = [], []
    for i in range(n):
        b = P.BACKENDS[i % 3]
        nq = NestedGen(rng).nq()
        for _ in range(20):
            if gentie.valid(nq):
                break
            count("regenerated")
            nq = NestedGen(rng).nq()
        if not gentie.valid(nq):
            continue
        src = nq_source(nq, qgen.metadata(b))
        r = P.translate_functional(b, src)
        faulty = rng.random() < 0.3
        evs = [gen_event(rng, b, nq, faulty) for _ in range(events_per_query)]
        reqs.append({"op": "compileN", "backend": b, "colls": gentie.colls_json(b), "nq": nq, "events": evs})
        meta.append((b, nq, nq_source(nq, []), r))
    outs = ctx.driver(DRIVER, reqs) if ctx is not None else _run_driver(reqs)
    agree, total, first = 0, 0, None
    for (b, nq, src, r), o in zip(meta, outs):
        total += 1
        count("total")
        count("backend:" + b)
        count("shape:" + nq["k"])
        ops: Dict[str, int] = {}
        count_ops(nq, ops)
        for k, v in ops.items():
            count("op:" + k, v)
        if ctx is not None:
            ctx.case(f"nested|{b}|{src}", True, {"backend": b, "fragment_query": src})
        bad = None
        if "bad" in o:
            bad = {"kind": "driver", "what": o["bad"]}
        elif not r["ok"]:
            bad = {"kind": "refused", "what": f"a query of the modelled fragment is refused ({r['error']}: {r.get('message', '')[:200]})"}
        else:
            if o.get("wt"):
                count("inside-proved-fragment")
            d = gentie.first_diff(gentie.model_canon(o), gentie.impl_canon(r))
            if d is not None:
                bad = {"kind": "text", "first_difference": d, "model_body": o.get("body"), "impl_body": r["query"]}
            else:
                count("text-agree")
                all_ok = True
                for ex, de in zip(o["exec"], o["denote"]):
                    if _fault_class(de) != "ok":
                        count("event:query-faults")
                        all_ok = False
                    else:
                        count("event:rows")
                        if ex.get("rows") == de.get("rows"):
                            count("event:rows-typed-equal")
                    ok, why = _same_outcome(ex, de)
                    if not ok:
                        bad = {"kind": "model-instance", "what": f"Gen.compileN executed vs denote: {why}", "exec": ex, "denote": de, "model_body": o.get("body")}
                        break
                if bad is None and all_ok:
                    # the job over all the events = the concatenation of the per-event denotations
                    want = _norm_num([row for de in o["denote"] for row in de["num"]])
                    job = o.get("job", {})
                    count("job:checked")
                    if _fault_class(job) != "ok" or _norm_num(job.get("num")) != want:
                        bad = {"kind": "model-instance", "what": "Gen.compileN run as ONE job vs the per-event denotations", "job": job, "want": want, "model_body": o.get("body")}
        if bad is None:
            agree += 1
            count("backend-agree:" + b)
        else:
            count("disagree:" + bad["kind"])
            bad.update({"backend": b, "source": src, "nq": nq})
            if first is None:
                first = bad
            if os.environ.get("NESTED_TIE_ALL"):
                print("DISAGREE", bad["kind"], b, src, bad.get("first_difference") or bad.get("what"))
    LAST_STATS.clear()
    LAST_STATS.update(stats)
    return agree, total, first


if __name__ == "__main__":
    n = int(sys.argv[1]) if len(sys.argv) > 1 else 240
    seed = int(sys.argv[2]) if len(sys.argv) > 2 else int(os.environ.get("VERIF_SEED", "1"))
    a, t, first = run_stream(random.Random(f"nested-tie:{seed}"), n)
    print(f"nested tie: {a}/{t} agree (seed {seed})")
    for k in sorted(LAST_STATS):
        print(f"  {k}: {LAST_STATS[k]}")
    if first is not None:
        print("FIRST DISAGREEMENT:")
        print(json.dumps({k: v for k, v in first.items() if k not in ("model_body", "impl_body")}, indent=1)[:3000])
        if first.get("model_body"):
            print("--- model")
            print("\n".join(first["model_body"]))
        if first.get("impl_body"):
            print("--- implementation")
            print("\n".join(first["impl_body"]))
        sys.exit(1)
