"""Prompt for a round-f 'break the property' agent: python tools/mutant_prompt_f.py C05 f
Property text only (statement, quantifier, why tests cannot settle it, anchors — all from properties.jsonl, nothing else from
/verif); each of the three changes must sit in a DIFFERENT anchored mechanism and need a multi-step or cooperating-sites trigger."""
import json, subprocess, sys
pid, tag = sys.argv[1], sys.argv[2]
p = next(json.loads(l) for l in open('/verif/properties.jsonl') if json.loads(l)['id'] == pid)
base = subprocess.run([sys.executable, '/verif/tools/mutant_prompt.py', pid, tag], capture_output=True, text=True).stdout
mech = "\n".join(f"  - {m['name']}  ({m['where']})" for m in p['anchors'].get('mechanism', []))
extra = f"""
MORE ABOUT THE PROPERTY (from its specification record):
  Why the existing tests cannot settle it: {p['why_tests_cant']}
  Source files it is anchored in: {', '.join(p['anchors'].get('files', []))}
  Mechanisms it rests on:
{mech}

ADDITIONAL REQUIREMENTS FOR THIS ROUND: put each of your three changes into a DIFFERENT one of the mechanisms / files above (or
into code they call, including the jinja templates and shell scripts under func_adl_xAOD/template/ where relevant). Prefer changes
whose effect needs TWO things to coincide — e.g. two cooperating edits that each look harmless alone, a particular order of
operations or of query operators, a value that only certain inputs produce (an empty sequence, a name that collides, a repeated
element, a boundary value), state surviving from an earlier step — and avoid the most obvious single-line slips (dropping a copy,
swapping `any`/`all`, removing a de-duplication) that a reviewer would think of first. Read the code paths end to end before choosing.
"""
print(base.replace("FINAL REPORT:", extra + "\nFINAL REPORT:"))
