"""Assemble MANIFEST.json from the property modules (single source of truth: tools/props/*.py)."""
import importlib
import json
import sys
from pathlib import Path

HERE = Path(__file__).resolve().parent
sys.path.insert(0, str(HERE))
VERIF = HERE.parent

ALL = [f"C{i:02d}" for i in range(1, 19)]
PENDING_REASON = "check not built yet in this round (work in progress; DESIGN.md §6 gives the staging) — no claim is made until its check passes on the clean tree"


def _fix_commits():
    import subprocess
    try:
        out = subprocess.check_output(['git', '-C', '/repo', 'log', '--format=%h', '--grep=^fix:'], text=True).split()
        return ' '.join(reversed(out))
    except Exception:
        return 'see git log'


def main():
    checks, na, modules = [], [], []
    claimed = set((HERE / "claimed.txt").read_text().split())
    for pid in ALL:
        f = HERE / "props" / f"{pid.lower()}.py"
        if not f.exists() or pid not in claimed:
            na.append({"property_id": pid, "reason": PENDING_REASON})
            continue
        m = importlib.import_module(f"props.{pid.lower()}")
        if getattr(m, "NOT_APPLICABLE", None):
            na.append({"property_id": pid, "reason": m.NOT_APPLICABLE})
            continue
        for mod in list(m.LEAN_MODULES) + list(getattr(m, "SETUP_MODULES", [])):
            if mod not in modules:
                modules.append(mod)
        checks.append(
            {
                "property_id": pid,
                "quick_cmd": f"./check {pid} --tier quick",
                "thorough_cmd": f"./check {pid} --tier thorough",
                "evidence_file": f"evidence/{pid}.json",
                "replay_cmd_template": f"./check {pid} --replay {{path}}",
                "engine": "lean4-model+correspondence",
                "level_claimed": {"category": "proof", "text": m.LEVEL_TEXT, "design_ref": m.DESIGN_REF},
                "level_note": m.LEVEL_NOTE,
                "technique": m.TECHNIQUE,
            }
        )
    man = {
        "version": 1,
        "setup_cmd": "cd lean && lake build " + " ".join(modules),
        "hooks": {
            "guard": "FUNC_ADL_XAOD_VERIF",
            "enable": "no hook is needed: every observable is a public return value, a rendered file or a module-level global; the checks import /repo's working tree through /venv (editable install)",
            "baseline_off_cmd": "cd /repo && /venv/bin/python -m pytest -ra -q -p no:cacheprovider --timeout=900 --continue-on-collection-errors",
            "source_commits": [],
            "add_only": True,
        },
        "engines": [
            {
                "name": "lean4-model+correspondence",
                "path": "lean/ (Lake project FaxVerif), tools/ (translators, harnesses), check",
                "serves_properties": [c["property_id"] for c in checks],
                "kind_free_text": "Lean 4 theorems about executable models; models tied to /repo on every run by translators (tables, templates, scripts regenerated from source) and by differential execution against the real code; the decidable Spec of each theorem doubles as the oracle of the failing-input search",
            }
        ],
        "checks": checks,
        "not_applicable": na,
        "notes": "See DESIGN.md (§0a status as built, §7 trusted base, §9 seeded changes). known_findings.jsonl lists genuine defects (known / fixed). "
                 "Exit codes: 0 held, 1 violation (VIOLATION line), 2 internal error or timeout. No hook was added to /repo (hooks.source_commits is empty); "
                 "the unguarded repairs of genuine defects are the commits of /repo whose message starts with 'fix:' (" + _fix_commits() + "), each a `fixed` entry of known_findings.jsonl.",
    }
    (VERIF / "MANIFEST.json").write_text(json.dumps(man, indent=1) + "\n")
    print(f"{len(checks)} checks, {len(na)} not claimed")


if __name__ == "__main__":
    main()
