"""Common run/search/replay skeleton for the compiler-group property modules.

A property module supplies
  gen(ctx, i)            -> cgroup.Case          one generated case (all random choices from ctx.rng)
  judge(c)               -> Optional[dict]       Spec evaluated on the IMPLEMENTATION's output for the case:
                                                 None = holds, else {"what":…, "observed":…}
  covered(c)             -> Optional[str]        None, or why the verified static check does not apply
and gets known-findings replay, corpus, generated stream, search with shrinking, and replay.
"""
from __future__ import annotations

from typing import Any, Callable, Dict, List, Optional

import cgroup
from cgroup import Case


class CompilerProp:
    def __init__(self, pid: str, gen: Callable, judge: Callable, n_quick: int, n_thorough: int, with_query=True, how: str = "", after: Optional[Callable] = None, nontrivial: Optional[Callable] = None, use_gxx: bool = False, gxx_also: Optional[Callable] = None, parse_tie: bool = True):
        self.pid = pid
        self.gen = gen
        self.judge = judge
        self.n_quick = n_quick
        self.n_thorough = n_thorough
        self.with_query = with_query
        self.after = after
        self.use_gxx = use_gxx
        self.gxx_also = gxx_also  # further cases that must go through g++ (e.g. programs the static checker rejects)
        self.parse_tie = parse_tie  # compare tools/cparse.py with the Lean parser (Cpp/Parse.lean, parse_render) on every program
        self._programs: List[Any] = []
        self.nontrivial = nontrivial or cgroup.nontrivial
        self.how = how or "translate `source` (plus the synthetic metadata of tools/qgen.py) on `backend` through apply_ast_transformations + write_cpp_files; run the emitted per-event code on `events`"

    # ------------------------------------------------------------------ streams
    def evaluate(self, ctx, cases: List[Case]):
        for c in cases:
            if c.result is None:
                cgroup.translate(c)
        cgroup.run_cases(ctx, cases, self.with_query)
        self.gxx(ctx, cases)

    def gxx(self, ctx, cases: List[Case]):
        """g++ oracle: always for programs the Lean semantics cannot interpret; for every case in
        the thorough tier; for a small sample in the quick tier (validation of the C++ semantics)."""
        if not self.use_gxx:
            return
        acc = [c for c in cases if c.result and c.result.get("ok") and c.answer and "bad" not in c.answer]
        cgroup.attach_syntax(acc)
        ctx.count("g++:syntax-checked", len(acc))
        ctx.count("g++:narrowing-conversion(decided by g++)", len([c for c in acc if (getattr(c, "gxx_syntax", None) or {}).get("narrowing")]))
        need = [c for c in acc if cgroup.needs_gxx(c) or (self.gxx_also is not None and self.gxx_also(c))]
        if ctx.tier == "thorough":
            extra = [c for c in acc if c not in need]
        else:
            rest = [c for c in acc if c not in need]
            extra = rest[: max(0, 12 - ctx.dist.get("g++:validated", 0))]
        if not need and not extra:
            return
        lean_exec = {id(c): list(c.answer.get("exec") or []) for c in extra}
        cgroup.attach_gxx(need + extra)
        ctx.count("g++:decided(opaque to the Lean semantics)", len(need))
        for c in extra:
            ctx.count("g++:validated")
            for i, (g, le) in enumerate(zip(c.gxx_exec, lean_exec[id(c)])):
                if g is None:
                    continue
                ok, why = cgroup.same_outcome(g, le)
                if not ok:
                    ctx.disagreement("C++ semantics (Cpp/Sem.lean on the parsed text) vs g++ on the real text",
                                     {"backend": c.backend, "source": c.source(), "event": i, "body": c.result["query"]}, le, g)
                    break

    def stream(self, ctx, cases: List[Case], name: str):
        self.evaluate(ctx, cases)
        for c in cases:
            ctx.count(f"stream:{name}")
            cgroup.count_case(ctx, c)
            if not c.result["ok"]:
                ctx.count("refused:" + c.result["error"])
            elif self.parse_tie:
                self._programs.append((c.backend, c.source(), c.result))
            hit = self.judge(c)
            first = ((c.answer or {}).get("exec") or [{}])[0]
            ctx.case(c.key(), self.nontrivial(c), {"backend": c.backend, "query": c.source(), "first_event": first})
            if hit is not None:
                if hit.get("kind") == "broken":
                    ctx.disagreement(hit["what"], {"backend": c.backend, "source": c.source(), "body": (c.result or {}).get("query")}, hit.get("model"), hit.get("observed"))
                else:
                    ctx.violation(key=c.key(), what=hit["what"], case=c.to_json(), observed=hit.get("observed"), how=self.how)
            if self.after:
                self.after(ctx, c)

    def known(self, ctx):
        for e in ctx.known_entries("known") + ctx.known_entries("fixed"):
            if "query" not in e.get("input", {}):
                continue  # an entry of another stream of this property (it is re-examined there on every run)
            c = Case.from_json(e["input"])
            self.evaluate(ctx, [c])
            hit = self.judge(c)
            if hit is not None and hit.get("kind") != "broken":
                key = e["key"] if e["status"] == "known" else "regressed:" + e["key"]
                ctx.violation(key=key, what=e["what"], case=c.to_json(), observed=hit.get("observed"), how=self.how)

    def run(self, ctx):
        from vlib import corpus_cases

        self.known(ctx)
        corpus = [Case.from_json(j) for j in corpus_cases(self.pid)]
        if corpus:
            self.stream(ctx, corpus, "corpus")
        n = self.n_quick if ctx.tier == "quick" else self.n_thorough
        batch = 400
        i = 0
        while i < n:
            ctx.check_time()
            m = min(batch, n - i)
            self.stream(ctx, [self.gen(ctx, i + k) for k in range(m)], "generated")
            i += m
        ctx.extra_cov["exhaustive"] = False
        self.run_parse_tie(ctx)

    def run_parse_tie(self, ctx):
        """N-version tie of the text reader: every program this check interpreted was parsed by tools/cparse.py; the Lean
        parser (whose round trip with the printer is the theorem C02.parse_render) must produce the same tree."""
        if not self.parse_tie or not self._programs:
            return
        import c02_parsetie

        progs, self._programs = self._programs, []
        st = c02_parsetie.run_stream(ctx, progs, 0, report=True)
        ctx.count("parse-tie:programs(cparse.py vs Lean parser)", len(progs))
        ctx.count("parse-tie:disagreements", st.get("disagreements", 0))

    # ------------------------------------------------------------------ search / replay
    def search(self, ctx, broken):
        best = None
        cases = [self.gen(ctx, i) for i in range(600)]
        self.evaluate(ctx, cases)
        known_only = False
        for c in cases:
            hit = self.judge(c)
            if hit is None or hit.get("kind") == "broken":
                continue
            if c.key() in ctx._known:
                known_only = True
                continue
            if best is None or len(c.source()) < len(best[0].source()):
                best = (c, hit)
        if best is None:
            return {"known": True} if known_only else None
        c, hit = best
        c = cgroup.shrink_events(ctx, c, lambda x: (self.judge(x) or {}).get("kind", "x") != "broken" and self.judge(x) is not None)
        hit = self.judge(c) or hit
        return {"key": c.key(), "what": hit["what"], "case": c.to_json(), "observed": hit.get("observed"), "replay_how": self.how}

    def replay(self, ctx, rep) -> int:
        c = Case.from_json(rep["case"])
        self.evaluate(ctx, [c])
        hit = self.judge(c)
        print("query :", c.source())
        print("\n".join((c.result or {}).get("query", [])) if c.result and c.result.get("ok") else c.result)
        print("answer:", c.answer)
        print("VIOLATION" if hit else "holds", hit or "")
        return 1 if hit and hit.get("kind") != "broken" else 0
