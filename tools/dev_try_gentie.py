import re, sys, random, json, subprocess, collections
sys.path.insert(0,'/verif/tools'); sys.path.insert(0,'/repo')
import pipeline as P, qgen, gentie
rng = random.Random(int(sys.argv[1]) if len(sys.argv)>1 else 0)
N = int(sys.argv[2]) if len(sys.argv)>2 else 60
reqs=[]; meta=[]; stats=collections.Counter()
for i in range(N):
    b = P.BACKENDS[i%3]
    fq = gentie.LiteGen(rng).fq()
    if not gentie.valid(fq): stats['invalid']+=1; continue
    q, names = gentie.fq_query(fq)
    r = P.translate_functional(b, qgen.render_functional(q, qgen.metadata(b)))
    if not r['ok']:
        stats['refused']+=1; print("REFUSED", r['error'], r['message'][:100], qgen.render_functional(q, [])); continue
    evs=[qgen.gen_event(rng,b,qgen.banks_used(q)) for _ in range(3)]
    reqs.append({"op":"compile","backend":b,"colls":gentie.colls_json(b),"fq":fq,"events":evs}); meta.append((b,fq,q,r))
inp="\n".join(json.dumps(x) for x in reqs)+"\n"
p=subprocess.run(["lake","env","lean","--run","FaxVerif/Cpp/Driver.lean"],cwd="/verif/lean",input=inp,capture_output=True,text=True)
print(p.stderr[:300])
outs=[json.loads(l) for l in p.stdout.splitlines() if l.strip()]
shown=0
for (b,fq,q,r),o in zip(meta,outs):
    if 'bad' in o: stats['bad']+=1; print("BAD",o); continue
    a=gentie.impl_canon(r); m=gentie.model_canon(o)
    d=gentie.first_diff(m,a)
    stats['text-agree' if d is None else 'text-DIFF']+=1
    ok = all(('fault' in x and 'fault' in y and x['fault'].split(':')[0]==y['fault'].split(':')[0]) or (x.get('rows')==y.get('rows') and 'rows' in x) for x,y in zip(o['exec'],o['denote']))
    stats['model exec=denote' if ok else 'model exec!=denote']+=1
    if not ok and shown<3: shown+=1; print("SEM", b, qgen.render_functional(q,[])); print(o['exec'], o['denote'])
    if not o['wf'] or not o['eventlocal']: stats['model not wf']+=1
    if d: stats['diff:'+re.sub(r'\[\d+\]','[]',d)[:80]]+=1
    if d and shown<0:
        shown+=1
        print("DIFF", b, d); print(qgen.render_functional(q,[])); print("\n".join(r['query'])); print("--model"); print("\n".join(o['body'])); print(r['class_decl'], o['class_decl'])
print(stats)
