"""Text tie between the Lean translator model of the GENERAL `Aggregate` (`Gen.compileA`,
lean/FaxVerif/Gen/Agg.lean) and the real translator.

Fragment:  ds.Select(e -> {name: GE, ...})
           GE  = literal | chain.Aggregate(seed, lambda acc, v: AE) | GE (+ - * /) GE | GE cmp GE | -GE | not GE
           AE  = literal | acc | v | v.accessor() | AE (+ - * /) AE | -AE          (always numeric)
           seed = int / float literal, possibly negative (`-3` is emitted as `int acc ((-(3)));`);  chain = coll(bank).{Select(pure) | Where(pure)}*

For every generated query: the model's package text comes from the Lean driver
(`FaxVerif/Gen/AggDriver.lean`, op `compileA`), the implementation's from the real pipeline
(`pipeline.translate_functional`); both are parsed with the same parser (`cparse`) and compared
modulo a bijective renaming of declared identifiers (first-occurrence numbering) and the value of
floating literals (`gentie.canon_package`). In particular the accumulator's declared C++ TYPE
(seed's type, widened to `most_accurate_type([seed, body])` when the body's type differs), its
initialiser and the update statement with or without `static_cast<T>` are compared on all three
backends. Additionally the model's package is EXECUTED in the Lean semantics on generated events and
compared with the Lean denotation of the query — an executable instance of
`aggregateRows_correct_partial` (typed equality inside the proved fragment `wtGE`, numeric equality
for the cast accumulators outside it; the widened accumulators — int seed, floating body, inside the
theorems over >= 1 kept element — are compared numerically because of the empty events).

    run_stream(ctx_or_rng, n) -> (agree, total, first_disagreement)

Standalone:  /venv/bin/python tools/gentie_agg.py [n] [seed]      |      --selftest
"""
from __future__ import annotations

import json
import os
import random
import subprocess
import sys
from pathlib import Path
from typing import Any, Dict, List, Optional, Tuple

sys.path.insert(0, str(Path(__file__).resolve().parent))
if __name__ == "__main__" and os.environ.get("VERIF_REPO"):
    # standalone runs honour VERIF_REPO like vlib does (a scratch worktree of /repo for mutation tests)
    sys.path.insert(0, os.environ["VERIF_REPO"])

import gentie  # noqa: E402
import qgen  # noqa: E402
import pipeline as P  # noqa: E402

DRIVER = "FaxVerif/Gen/AggDriver.lean"
DRIVER_IMPORTS = ["FaxVerif.Cpp.Json", "FaxVerif.Cpp.Check", "FaxVerif.Gen.Render", "FaxVerif.Gen.AggSpec"]
LEAN = Path(__file__).resolve().parent.parent / "lean"
METH_TY = gentie.METH_TY
ACC, ELEM = "acc", "v"

LAST_STATS: Dict[str, int] = {}

# the two examples of the task statement, first cases of every run
FIXED = [
    {"cols": [{"name": "s", "e": {"k": "agg",
        "c": {"coll": "As", "bank": "ba", "steps": [{"k": "sel", "e": {"k": "meth", "n": "d", "ty": "double"}}]},
        "seed": {"k": "dbl", "v": "0.0"},
        "f": {"k": "bin", "op": "+", "a": {"k": "acc"}, "b": {"k": "bin", "op": "*", "a": {"k": "it"}, "b": {"k": "it"}}}}}]},
    {"cols": [{"name": "s", "e": {"k": "agg",
        "c": {"coll": "As", "bank": "ba", "steps": [{"k": "whr", "e": {"k": "cmp", "op": ">", "a": {"k": "meth", "n": "d", "ty": "double"}, "b": {"k": "int", "v": 2}}}]},
        "seed": {"k": "int", "v": 1},
        "f": {"k": "bin", "op": "+", "a": {"k": "bin", "op": "*", "a": {"k": "acc"}, "b": {"k": "int", "v": 2}}, "b": {"k": "meth", "n": "i", "ty": "int"}}}}]},
    # Count() and Sum() as the translator receives them
    {"cols": [{"name": "n", "e": {"k": "agg", "c": {"coll": "Bs", "bank": "bb", "steps": []}, "seed": {"k": "int", "v": 0},
        "f": {"k": "bin", "op": "+", "a": {"k": "acc"}, "b": {"k": "int", "v": 1}}}},
      {"name": "t", "e": {"k": "agg", "c": {"coll": "Bs", "bank": "bb", "steps": [{"k": "sel", "e": {"k": "meth", "n": "f", "ty": "float"}}]}, "seed": {"k": "int", "v": 0},
        "f": {"k": "bin", "op": "+", "a": {"k": "acc"}, "b": {"k": "it"}}}}]},
]

# ---------------------------------------------------------------- generation


def join(a: str, b: str) -> str:
    for t in ("double", "float", "int"):
        if t in (a, b):
            return t
    return "int"


def ty_ae(acc_t: str, cur: Optional[str], e: Dict[str, Any]) -> str:
    """mirror of Gen.tyAE"""
    k = e["k"]
    if k == "int":
        return "int"
    if k == "dbl":
        return "double"
    if k == "acc":
        return acc_t
    if k == "it":
        return cur or "double"
    if k == "meth":
        return e["ty"]
    if k == "bin":
        if e["op"] == "/":
            return "double"
        return join(ty_ae(acc_t, cur, e["a"]), ty_ae(acc_t, cur, e["b"]))
    if k == "neg":
        return ty_ae(acc_t, cur, e["a"])
    raise ValueError(k)


class AggGen:
    def __init__(self, rng):
        self.rng = rng
        self.lite = gentie.LiteGen(rng)

    def const(self, ty: str) -> Dict[str, Any]:
        r = self.rng
        if ty == "int":
            return {"k": "int", "v": r.choice([0, 1, 2, 3, 5])}
        return {"k": "dbl", "v": r.choice(["0.5", "1.5", "2.0", "2.5", "0.25"])}

    def leaf(self, cur: Optional[str], want: str, acc_t: str) -> Dict[str, Any]:
        """a leaf of type `want` ('int' | 'fl' | 'any')"""
        r = self.rng
        opts: List[Dict[str, Any]] = []
        acc_ok = want == "any" or (want == "int") == (acc_t == "int")
        if acc_ok:
            opts += [{"k": "acc"}] * 3
        if cur is None:
            ms = {"int": ["i", "j"], "fl": ["d", "g", "f"], "any": ["i", "j", "d", "g", "f"]}[want]
            opts += [{"k": "meth", "n": m, "ty": METH_TY[m]} for m in ms]
        else:
            if want == "any" or (want == "int") == (cur == "int"):
                opts += [{"k": "it"}] * 3
        opts.append(self.const("int" if want == "int" else ("double" if want == "fl" else r.choice(["int", "double"]))))
        return r.choice(opts)

    def ae(self, cur: Optional[str], want: str, acc_t: str, depth: int) -> Dict[str, Any]:
        r = self.rng
        if depth <= 0 or r.random() < 0.25:
            return self.leaf(cur, want, acc_t)
        c = r.choice(["bin", "bin", "bin", "neg"] + (["div"] if want != "int" else []))
        if c == "neg":
            return {"k": "neg", "a": self.ae(cur, want, acc_t, depth - 1)}
        if c == "div":
            return {"k": "bin", "op": "/", "a": self.ae(cur, "any", acc_t, depth - 1),
                    "b": r.choice([{"k": "int", "v": 2}, {"k": "int", "v": 4}, {"k": "dbl", "v": "4.0"}])}
        if want == "int":
            wa, wb = "int", "int"
        elif want == "fl":
            wa = r.choice(["fl", "any"])
            wb = "fl" if wa == "any" else r.choice(["fl", "any"])
            if r.random() < 0.5:
                wa, wb = wb, wa
        else:
            wa, wb = "any", "any"
        return {"k": "bin", "op": r.choice(["+", "+", "-", "*"]), "a": self.ae(cur, wa, acc_t, depth - 1), "b": self.ae(cur, wb, acc_t, depth - 1)}

    @staticmethod
    def uses(e: Any, kinds: Tuple[str, ...]) -> bool:
        if isinstance(e, dict):
            if e.get("k") in kinds:
                return True
            return any(AggGen.uses(v, kinds) for v in e.values())
        return False

    def agg(self) -> Dict[str, Any]:
        r = self.rng
        ch, cur = self.lite.chain(r.choice(["obj", "obj", "num", "num", "any"]))
        u = r.random()
        if u < 0.3:
            seed, want = {"k": "int", "v": r.choice([0, 1, 2, 3, 5, -1, -3])}, "int"            # int seed, int body      (proved)
        elif u < 0.6:
            seed, want = {"k": "dbl", "v": r.choice(["0.0", "0.5", "1.0", "2.0", "2.5", "-0.5", "-2.0"])}, "fl"   # float seed, floating body (proved)
        elif u < 0.82:
            seed, want = {"k": "int", "v": r.choice([0, 1, 2, 3, 0, 1, -2])}, "fl"                # int seed, floating body: widened
        elif u < 0.92:
            seed, want = {"k": "dbl", "v": r.choice(["0.0", "0.5", "2.0"])}, "int"       # float seed, int body: static_cast
        else:
            seed, want = {"k": r.choice(["int", "dbl"]), "v": 0}, "any"
            if seed["k"] == "dbl":
                seed["v"] = "0.0"
        acc_t = "int" if seed["k"] == "int" else "double"
        if want == "int" and cur not in (None, "int"):
            want = "fl"
        body = self.ae(cur, want, acc_t, r.choice([1, 2, 2, 3]))
        if not self.uses(body, ("it", "meth")):
            # a body that ignores its element is a listed defect class of the translator (dead lambda variable): use it
            leaf = {"k": "it"} if cur is not None else {"k": "meth", "n": ("i" if want == "int" else r.choice(["d", "g", "f", "i"])), "ty": ""}
            if leaf["k"] == "meth":
                leaf["ty"] = METH_TY[leaf["n"]]
            if want == "int" and leaf["k"] == "it" and cur != "int":
                return None
            body = {"k": "bin", "op": r.choice(["+", "*"]), "a": body, "b": leaf}
        return {"k": "agg", "c": ch, "seed": seed, "f": body}

    def xe(self, ty: str, depth: int) -> Optional[Dict[str, Any]]:
        """ty: 'num' | 'bool'"""
        r = self.rng
        if ty == "bool":
            a, b = self.xe("num", depth - 1), self.xe("num", depth - 1)
            e = {"k": "cmp", "op": r.choice(["<", ">", ">=", "==", "!="]), "a": a, "b": b}
            return {"k": "not", "a": e} if r.random() < 0.2 else e
        if depth <= 0 or r.random() < 0.55:
            if r.random() < 0.85:
                return self.agg()
            return self.const(r.choice(["int", "double"]))
        c = r.choice(["bin", "bin", "div", "neg"])
        if c == "neg":
            return {"k": "neg", "a": self.xe("num", depth - 1)}
        if c == "div":
            return {"k": "bin", "op": "/", "a": self.xe("num", depth - 1), "b": r.choice([{"k": "int", "v": 2}, {"k": "dbl", "v": "4.0"}])}
        return {"k": "bin", "op": r.choice(["+", "-", "*"]), "a": self.xe("num", depth - 1), "b": self.xe("num", depth - 1)}

    def aq(self) -> Dict[str, Any]:
        r = self.rng
        n = r.choice([1, 1, 2, 2, 3])
        cols = []
        for i in range(n):
            e = self.xe(r.choice(["num", "num", "num", "num", "bool"]), 2)
            cols.append({"name": f"c{i}_{r.choice(['pt', 'eta', 'n'])}", "e": e})
        q = {"cols": cols}
        if not self.uses(q, ("agg",)):
            q["cols"][0]["e"] = self.agg()
        return q


def aggs_of(e: Any, acc: Optional[List[Dict[str, Any]]] = None) -> List[Dict[str, Any]]:
    acc = [] if acc is None else acc
    if isinstance(e, dict):
        if e.get("k") == "agg":
            acc.append(e)
            return acc
        for v in e.values():
            aggs_of(v, acc)
    elif isinstance(e, list):
        for v in e:
            aggs_of(v, acc)
    return acc


# ---------------------------------------------------------------- AQ -> python source text (mirror of Gen.AQ.toQuery)


def ae_src(e: Dict[str, Any]) -> str:
    k = e["k"]
    if k == "int":
        return str(e["v"])
    if k == "dbl":
        return e["v"]
    if k == "acc":
        return ACC
    if k == "it":
        return ELEM
    if k == "meth":
        return f"{ELEM}.{e['n']}()"
    if k == "bin":
        return f"({ae_src(e['a'])} {e['op']} {ae_src(e['b'])})"
    if k == "neg":
        return f"(-{ae_src(e['a'])})"
    raise ValueError(k)


def chain_src(c: Dict[str, Any]) -> str:
    import gentie_lazy

    ch = f"e.{c['coll']}({json.dumps(c['bank'])})"
    for i, st in enumerate(c["steps"]):
        x = f"x{i}"
        ch = f"{ch}.{'Select' if st['k'] == 'sel' else 'Where'}(lambda {x}: {gentie_lazy.le_src(x, st['e'])})"
    return ch


def xe_src(e: Dict[str, Any]) -> str:
    k = e["k"]
    if k == "int":
        return str(e["v"])
    if k == "dbl":
        return e["v"]
    if k == "bool":
        return "True" if e["v"] else "False"
    if k == "agg":
        seed = str(e["seed"]["v"])
        return f"{chain_src(e['c'])}.Aggregate({seed}, lambda {ACC}, {ELEM}: {ae_src(e['f'])})"
    if k in ("bin", "cmp"):
        return f"({xe_src(e['a'])} {e['op']} {xe_src(e['b'])})"
    if k == "neg":
        return f"(-{xe_src(e['a'])})"
    if k == "not":
        return f"(not {xe_src(e['a'])})"
    raise ValueError(k)


def aq_source(aq: Dict[str, Any], mds: List[Dict[str, Any]]) -> str:
    """the call tree the backend receives (as `qgen.render_functional` builds it)"""
    s = "ds0"
    for d in mds:
        s = f"MetaData({s}, {d!r})"
    row = "{" + ", ".join(f"{json.dumps(col['name'])}: {xe_src(col['e'])}" for col in aq["cols"]) + "}"
    return f"Select({s}, lambda e: {row})"


# ---------------------------------------------------------------- the stream


def _run_driver(reqs: List[Dict[str, Any]]) -> List[Dict[str, Any]]:
    inp = "\n".join(json.dumps(r, ensure_ascii=False) for r in reqs) + "\n"
    p = subprocess.run(["lake", "env", "lean", "--run", DRIVER], cwd=str(LEAN), capture_output=True, text=True, input=inp, timeout=1800)
    lines = [l for l in p.stdout.split("\n") if l.strip()]
    if p.returncode != 0 or len(lines) != len(reqs):
        return [{"bad": f"driver failed rc={p.returncode}: {p.stderr[-500:]}"} for _ in reqs]
    out = []
    for l in lines:
        try:
            out.append(json.loads(l))
        except Exception:
            out.append({"bad": "unparsable: " + l[:200]})
    return out


def _fault_class(r):
    f = r.get("fault")
    if f is None:
        return "ok"
    return f.split(":")[0] if f.startswith("stuck") else f


def _same_outcome(ex, de, typed: bool) -> Tuple[bool, str]:
    fe, fd = _fault_class(ex), _fault_class(de)
    if fe != "ok" or fd != "ok":
        # proved direction: the query denotes rows -> the code writes exactly them
        if fd == "ok":
            return False, f"exec {ex.get('fault')} / query defined"
        return True, "query-faults"
    if typed:
        return ex["rows"] == de["rows"], "typed rows"
    import cgroup

    return cgroup.same_outcome(ex, de)


def run_stream(ctx_or_rng, n: int, events_per_query: int = 2) -> Tuple[int, int, Optional[Dict[str, Any]]]:
    """Generate `n` queries of the general-Aggregate fragment (backends in rotation), compare model text with the
    real translator's, and the executed model with the query's denotation. Returns (agree, total, first_disagreement)."""
    ctx = ctx_or_rng if hasattr(ctx_or_rng, "driver") and hasattr(ctx_or_rng, "rng") else None
    rng = ctx.rng if ctx is not None else ctx_or_rng
    stats: Dict[str, int] = {}

    def count(name, k=1):
        stats[name] = stats.get(name, 0) + k
        if ctx is not None:
            ctx.count("agg-tie:" + name, k)

    reqs, meta = [], []
    for i in range(n):
        b = P.BACKENDS[i % 3]
        aq = json.loads(json.dumps(FIXED[i // 3])) if i < 3 * len(FIXED) else AggGen(rng).aq()
        if not gentie.valid(aq):
            count("regenerated")
            continue
        r = P.translate_functional(b, aq_source(aq, qgen.metadata(b)))
        banks = {g["c"]["bank"]: g["c"]["coll"] for g in aggs_of(aq)}
        evs = [qgen.gen_event(rng, b, banks, empty_bias=0.15) for _ in range(events_per_query)]
        reqs.append({"op": "compileA", "backend": b, "colls": gentie.colls_json(b), "aq": aq, "events": evs})
        meta.append((b, aq, aq_source(aq, []), r))
    outs = ctx.driver(DRIVER, reqs) if ctx is not None else _run_driver(reqs)
    agree, total, first = 0, 0, None
    for (b, aq, src, r), o in zip(meta, outs):
        total += 1
        count("total")
        count("backend:" + b)
        gs = aggs_of(aq)
        count("aggregates", len(gs))
        if ctx is not None:
            ctx.case(f"agg|{b}|{src}", len(gs) >= 1 and any(g["c"]["steps"] for g in gs), {"backend": b, "fragment_query": src})
        bad = None
        if "bad" in o:
            bad = {"kind": "driver", "what": o["bad"]}
        elif not r["ok"]:
            bad = {"kind": "refused", "what": f"a query of the modelled fragment is refused ({r['error']}: {r.get('message', '')[:200]})"}
        else:
            if o.get("wtw"):
                count("inside-proved-fragment")
            if o.get("wt"):
                count("inside-proved-fragment:all-exact")
            if any(str(g["seed"]["v"]).startswith("-") for g in gs):
                count("seed:negative")
            for g in o.get("aggs", []):
                count(f"seed:{g['seed']}")
                count(f"body:{g['body']}")
                if g["exact"]:
                    count("acc:exact")
                elif g["seed"] == "int":
                    count("acc:widened")
                    if g.get("widen"):
                        count("acc:widened:accOK")
                else:
                    count("acc:static_cast")
                if not g["base"]:
                    count("acc:ill-typed")
            d = gentie.first_diff(gentie.model_canon(o), gentie.impl_canon(r))
            if d is not None:
                bad = {"kind": "text", "first_difference": d, "model_body": o.get("body"), "impl_body": r["query"]}
            else:
                count("text-agree")
                for ex, de in zip(o["exec"], o["denote"]):
                    if _fault_class(ex) != "ok" or _fault_class(de) != "ok":
                        count("event:fault")
                    else:
                        count("event:rows")
                    ok, why = _same_outcome(ex, de, bool(o.get("wt")))
                    if not ok:
                        bad = {"kind": "model-instance", "what": f"Gen.compileA executed vs denote: {why}", "exec": ex, "denote": de, "model_body": o.get("body")}
                        break
        if bad is None:
            agree += 1
            count("backend-agree:" + b)
        else:
            count("disagree:" + bad["kind"])
            bad.update({"backend": b, "source": src, "aq": aq})
            if first is None:
                first = bad
    LAST_STATS.clear()
    LAST_STATS.update(stats)
    return agree, total, first


class _SelfCtx:
    """stand-in for the vlib check context (selftest of `tools/props/c01_agg.stream`)"""

    def __init__(self, seed):
        self.rng = random.Random(f"agg-tie:{seed}")
        self.tier = "quick"
        self.counts: Dict[str, int] = {}
        self.cases = 0
        self.nontrivial = 0
        self.violations: List[Any] = []
        self.disagreements: List[Any] = []

    def count(self, name, k=1):
        self.counts[name] = self.counts.get(name, 0) + k

    def case(self, key, nontrivial, sample=None):
        self.cases += 1
        self.nontrivial += bool(nontrivial)

    def driver(self, rel, reqs, timeout=1200):
        assert rel == DRIVER
        return _run_driver(reqs)

    def violation(self, key, what, case, observed=None, how=""):
        self.violations.append({"key": key, "what": what, "case": case})

    def disagreement(self, stream, case, model, impl):
        self.disagreements.append({"stream": stream, "case": case, "model": model, "impl": impl})


def _print_first(first):
    print("FIRST DISAGREEMENT:")
    print(json.dumps({k: v for k, v in first.items() if k not in ("model_body", "impl_body")}, indent=1)[:3000])
    if first.get("model_body"):
        print("--- model")
        print("\n".join(first["model_body"]))
    if first.get("impl_body"):
        print("--- implementation")
        print("\n".join(first["impl_body"]))


if __name__ == "__main__":
    if "--selftest" in sys.argv:
        sys.path.insert(0, str(Path(__file__).resolve().parent / "props"))
        import c01_agg

        ctx = _SelfCtx(int(os.environ.get("VERIF_SEED", "1")))
        c01_agg.stream(ctx)
        for k in sorted(ctx.counts):
            print(f"  {k}: {ctx.counts[k]}")
        print(f"cases {ctx.cases} (non-trivial {ctx.nontrivial}), violations {len(ctx.violations)}, disagreements {len(ctx.disagreements)}")
        for v in ctx.violations[:2] + ctx.disagreements[:2]:
            print(json.dumps(v, indent=1, default=str)[:3000])
        sys.exit(1 if ctx.violations or ctx.disagreements else 0)
    n = int(sys.argv[1]) if len(sys.argv) > 1 else 240
    seed = int(sys.argv[2]) if len(sys.argv) > 2 else int(os.environ.get("VERIF_SEED", "1"))
    a, t, first = run_stream(random.Random(f"agg-tie:{seed}"), n)
    print(f"agg tie: {a}/{t} agree (seed {seed})")
    for k in sorted(LAST_STATS):
        print(f"  {k}: {LAST_STATS[k]}")
    if first is not None:
        _print_first(first)
        sys.exit(1)
