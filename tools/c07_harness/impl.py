"""C07 — driving the REAL func_adl_xAOD code through a history of operations and observing its state.

Used in two ways:
  * imported by tools/props/c07.py: `Process()` runs a history inside the check's own interpreter;
  * as a script in a FRESH interpreter (`python impl.py fresh` with a probe on stdin,
    `python impl.py defaults`): the reference-free side of the oracle and the source of the generated
    defaults tables.

Nothing in /repo is modified.  The only instrumentation is two wrappers put (in this process only)
around `cpp_types.method_type_info` / `cpp_types.get_toplevel_ns` to *record* which registry entries a
translation looks up (the footprint of the query); they return the original answers.

Operations (JSON, self-contained so that a replay file can be re-run by hand):
  {"op":"new","b":"atlas"|"cms_aod"|"cms_miniaod"}
  {"op":"addx","e":<executor index>,"x":{"docker":"img", ...}}
  {"op":"tr","e":<executor index>,"q":"<python expression with DS for the dataset>","md":[<MetaData dicts, in processing order>]}
      optional "obj":"<label>" — all translations (history and probe) that carry the same label hand the SAME Python
      AST object to the executor (as a caller does who calls `.value()` on one query object more than once); the first of
      them parses `q`/`md`, the later ones re-use that object whatever earlier translations did to it
      optional "inner":{"obj":"<label>","q":"...","md":[...]} — a query DERIVED from another query object (as
      `q.Where(...)` is from `q`): `q` of the operation mentions the placeholder OBJ, which stands for the AST object with
      that label (created from the inner q/md if no earlier operation carried the label); the derived AST contains that very
      object as a sub-tree, it is not a copy.  The operation's own "md" must be empty (the metadata is the inner query's).
probe: {"b":backend,"on":null|<executor index>,"x":{...},"q":"...","md":[...], optional "obj", optional "inner"}
"""
from __future__ import annotations

import ast
import dataclasses
import json
import logging
import os
import shutil
import sys
import tempfile
import traceback
from pathlib import Path
from typing import Any, Dict, List, Optional, Tuple

REPO = Path(os.environ.get("VERIF_REPO", "/repo"))
if str(REPO) not in sys.path:
    sys.path.insert(0, str(REPO))

BACKENDS = ["atlas", "cms_aod", "cms_miniaod"]
COLL_MD = {
    "add_atlas_event_collection_info": "atlas",
    "add_cms_aod_event_collection_info": "cms_aod",
    "add_cms_miniaod_event_collection_info": "cms_miniaod",
}


# ----------------------------------------------------------------------------- extended metadata prototypes
def _cnt(v) -> int:
    """the generated-name counter as a number of draws: an int in the code as it stands; if a change turns it into a
    table of counters (per base name, say) the total of its entries — never a crash of the harness"""
    if isinstance(v, bool):
        return int(v)
    if isinstance(v, int):
        return v
    try:
        return sum(int(x) for x in v.values())
    except Exception:
        try:
            return int(v)
        except Exception:
            return 0


@dataclasses.dataclass
class Docker:
    image: str = "default"


@dataclasses.dataclass
class Other:
    val: str = "0"


XKINDS = {"docker": (Docker, "image"), "other": (Other, "val")}


def make_proto(kind: str, value: str):
    cls, field = XKINDS[kind]
    return cls(**{field: value})


def proto_render(kind: str, obj) -> str:
    return json.dumps([kind, getattr(obj, XKINDS[kind][1])]) if kind in XKINDS else json.dumps([kind, repr(obj)])


def expected_found_render(kind: str, proto: str, fields: str) -> str:
    """what the item `copy(prototype)` + setattr(fields) looks like (the model keeps the three parts)"""
    if proto == "@":  # an item taken over from an observed state: `fields` already is its rendering
        return fields
    k, value = json.loads(proto)
    d = dataclasses.asdict(make_proto(k, value))
    d.update(json.loads(fields))
    return json.dumps([kind, d], sort_keys=True)


def found_render(kind: str, item) -> str:
    d = dataclasses.asdict(item) if dataclasses.is_dataclass(item) else {"repr": repr(item)}
    for k, v in vars(item).items():
        d[k] = v
    return json.dumps([kind, d], sort_keys=True)


# ----------------------------------------------------------------------------- md dict -> model item
def _parse_type(t: str) -> Tuple[str, int, bool]:
    depth = 0
    while True:
        t = t.strip()
        if t.endswith("*"):
            depth += 1
            t = t[:-1]
        else:
            break
    const = t.startswith("const ")
    if const:
        t = t[6:]
    return t, depth, const


def predicted_info(md: Dict[str, Any]) -> str:
    """rendering (see `render_info`) of the MethodInvokeInfo an add_method_type_info dict creates"""
    deref = int(md.get("deref_count", 0))
    if "return_type" in md:
        # process_metadata passes only name and pointer depth on: a `const` is dropped here (not for collections)
        n, d, c = _parse_type(md["return_type"])
        return f"terminal|{n}{'*' * d}|{md.get('tree_type')}|{deref}"
    n, d, c = _parse_type(md["return_type_element"])
    elem = f"{'const ' if c else ''}{n}{'*' * d}"
    if "return_type_collection" in md:
        cn, cd, cc = _parse_type(md["return_type_collection"])
    else:
        cn, cd, cc = f"std::vector<{n}{'*' * d}>", 0, False
    return f"collection|{'const ' if cc else ''}{cn}{'*' * cd}|{elem}|{deref}"


def render_info(mi) -> str:
    import func_adl_xAOD.common.cpp_types as ctyp

    rt = mi.r_type
    if isinstance(rt, ctyp.collection):
        return f"collection|{rt}|{rt.element_type}|{mi.deref_depth}"
    return f"terminal|{rt}|{getattr(rt, '_tree_type', None)}|{mi.deref_depth}"


def inject_body(fields: Dict[str, Any]) -> str:
    from func_adl_xAOD.common.meta_data import InjectCodeBlock

    d = {}
    for f in dataclasses.fields(InjectCodeBlock):
        if f.name == "name":
            continue
        d[f.name] = list(fields.get(f.name, []))
    return json.dumps(d, sort_keys=True)


COLL_KEYS = {
    "atlas": {"metadata_type", "name", "include_files", "container_type", "element_type", "contains_collection", "link_libraries"},
    "cms_aod": {"metadata_type", "name", "include_files", "container_type", "element_type", "contains_collection", "element_pointer"},
    "cms_miniaod": {"metadata_type", "name", "include_files", "container_type", "element_type", "contains_collection", "element_pointer"},
}


def md_to_model(md: Dict[str, Any]) -> Dict[str, Any]:
    """The model-level reading of one MetaData dictionary (kinds of lean/FaxVerif/C07/Model.lean `MdItem`)."""
    t = md.get("metadata_type")
    rest = {k: v for k, v in md.items() if k != "metadata_type"}
    if t == "add_method_type_info":
        if "type_string" in md and "method_name" in md and ("return_type" in md or "return_type_element" in md):
            return {"k": "mt", "ty": md["type_string"], "m": md["method_name"], "info": predicted_info(md)}
        return {"k": "bad"}
    if t == "define_enum":
        if all(k in md for k in ("namespace", "name", "values")):
            return {"k": "enum", "ns": md["namespace"].split("."), "name": md["name"], "vals": list(md["values"])}
        return {"k": "bad"}
    if t == "inject_code":
        from func_adl_xAOD.common.meta_data import InjectCodeBlock

        names = {f.name for f in dataclasses.fields(InjectCodeBlock)}
        if rest and "name" in rest and set(rest) <= names:
            return {"k": "inject", "name": md["name"], "body": inject_body(rest)}
        return {"k": "bad"}
    if t == "add_job_script":
        if "name" in md and "script" in md:
            return {"k": "job", "name": md["name"], "script": list(md["script"]), "deps": list(md.get("depends_on", []))}
        return {"k": "bad"}
    if t == "add_cpp_function":
        if all(k in md for k in ("name", "include_files", "arguments", "code", "return_type")):
            return {"k": "func", "name": md["name"], "body": json.dumps(rest, sort_keys=True)}
        return {"k": "bad"}
    if t in COLL_MD:
        b = COLL_MD[t]
        ok = set(md) <= COLL_KEYS[b] and all(k in md for k in ("name", "include_files", "container_type", "contains_collection"))
        if ok and b == "atlas":
            ok = bool(md["contains_collection"]) == ("element_type" in md)
        if ok and b != "atlas":
            ok = bool(md["contains_collection"]) and "element_type" in md
        if ok:
            return {"k": "coll", "backend": b, "name": md["name"], "body": json.dumps(rest, sort_keys=True)}
        return {"k": "bad"}
    if isinstance(t, str) and t in XKINDS:
        return {"k": "ext", "kind": t, "fields": json.dumps(rest, sort_keys=True)}
    return {"k": "bad"}


# ----------------------------------------------------------------------------- the process under observation
def build_ast(expr: str, md: List[Dict[str, Any]]) -> ast.AST:
    """`md` is in processing order = outermost MetaData first."""
    ds = "EventDataset('ds')"
    for m in reversed(md):
        ds = f"MetaData({ds}, {m!r})"
    return ast.parse(expr.replace("DS", ds), mode="eval").body


def _classify_apply_failure(e: BaseException) -> str:
    frames = traceback.extract_tb(e.__traceback__)
    names = [(Path(f.filename).name, f.name) for f in frames]
    if any(fn == "process_metadata" for _, fn in names):
        return "md"
    if any(fn == "build_collection_callback" for _, fn in names):
        return "wrong-backend"
    if any(f == "cpp_ast.py" for f, _ in names):
        return "finder"
    return "transform"


class _Collect(logging.Handler):
    """keeps what the library logs (WARNING and above) while one translation runs: what a translation tells its
    caller besides the files — e.g. the `assuming ... has return type 'double'` warning"""

    def __init__(self):
        super().__init__(level=logging.WARNING)
        self.lines: List[str] = []

    def emit(self, record):
        try:
            self.lines.append(f"{record.name}:{record.levelname}:{record.getMessage()}")
        except Exception:  # noqa
            self.lines.append(f"{record.name}:{record.levelname}:<unformattable>")


def _collector() -> _Collect:
    root = logging.getLogger()
    for h in root.handlers:
        if isinstance(h, _Collect):
            return h
    logging.disable(logging.NOTSET)
    for h in list(root.handlers):
        root.removeHandler(h)
    logging.lastResort = None
    h = _Collect()
    root.addHandler(h)
    root.setLevel(logging.WARNING)
    return h


# ----------------------------------------------------------------------------- the rest of the process state
# The model's state (HState) is: the method-type registry, the namespace/enum registry, the name counter and the
# executors' attributes.  Everything ELSE the package keeps at module or class level
# (the function mapping of cpp_functions, the ranking of arithmetic types in utils, the backends' collection tables,
# operator tables, mutable default arguments, ... and any table a later version adds) is the "frame": the model says
# no operation changes it.  It is fingerprinted generically — nothing here names a particular table.
MODELLED = {
    "func_adl_xAOD.common.cpp_types.g_method_type_dict",
    "func_adl_xAOD.common.cpp_types.g_toplevel_ns",
    "func_adl_xAOD.common.cpp_vars.unique_var_index",
}


def _fp(v, depth=0) -> str:
    import types

    if v is None or isinstance(v, (bool, int, float, str, bytes)):
        return repr(v)
    if depth > 6:
        return "<deep>"
    if isinstance(v, dict):
        return "{" + ", ".join(f"{_fp(k, depth + 1)}: {_fp(x, depth + 1)}" for k, x in v.items()) + "}"
    if isinstance(v, (list, tuple)):
        return type(v).__name__ + "[" + ", ".join(_fp(x, depth + 1) for x in v) + "]"
    if isinstance(v, (set, frozenset)):
        return "set[" + ", ".join(sorted(_fp(x, depth + 1) for x in v)) + "]"
    if isinstance(v, (types.ModuleType, types.FunctionType, types.BuiltinFunctionType, types.MethodType, type)):
        return f"<{getattr(v, '__module__', '')}.{getattr(v, '__qualname__', getattr(v, '__name__', ''))}>"
    cls = type(v)
    if str(cls.__module__).startswith("func_adl_xAOD") and hasattr(v, "__dict__"):
        return f"{cls.__qualname__}({_fp(vars(v), depth + 1)})"
    if dataclasses.is_dataclass(v):
        return f"{cls.__qualname__}({_fp(dataclasses.asdict(v), depth + 1)})"
    if isinstance(v, ast.AST):
        return "ast:" + ast.dump(v)[:200]
    return f"<{cls.__module__}.{cls.__qualname__}>"


def frame_snapshot() -> Dict[str, str]:
    """path -> fingerprint of every module attribute, class attribute and mutable default argument of the package's
    modules that is data (not a function/class/module), except the parts the model has"""
    import types

    snap: Dict[str, str] = {}

    def data(v) -> bool:
        return not isinstance(v, (types.ModuleType, types.FunctionType, types.BuiltinFunctionType, type, classmethod, staticmethod, property)) and not callable(v)

    def defaults(path, fn):
        f = getattr(fn, "__func__", fn)
        if isinstance(f, types.FunctionType):
            for n, d in enumerate(f.__defaults__ or ()):
                if isinstance(d, (dict, list, set)):
                    snap[f"{path}.__defaults__[{n}]"] = _fp(d)
            for k, d in (f.__kwdefaults__ or {}).items():
                if isinstance(d, (dict, list, set)):
                    snap[f"{path}.__kwdefaults__[{k}]"] = _fp(d)

    for name, mod in sorted(sys.modules.items()):
        if mod is None or not (name == "func_adl_xAOD" or name.startswith("func_adl_xAOD.")):
            continue
        for k, v in sorted(vars(mod).items()):
            path = f"{name}.{k}"
            if (k.startswith("__") and k.endswith("__")) or k.startswith("_c07_") or path in MODELLED:
                continue
            if isinstance(v, type):
                if getattr(v, "__module__", None) != name:
                    continue
                for ck, cv in sorted(vars(v).items()):
                    cpath = f"{path}.{ck}"
                    if ck.startswith("__") and ck.endswith("__") and ck != "__init__":
                        continue
                    if isinstance(cv, (types.FunctionType, classmethod, staticmethod)):
                        defaults(cpath, cv)
                    elif data(cv) and not ck.startswith("_abc_"):
                        snap[cpath] = _fp(cv)
            elif isinstance(v, types.FunctionType):
                if getattr(v, "__module__", None) == name:
                    defaults(path, v)
            elif data(v) and "typing" not in type(v).__module__ and type(v).__name__ != "_Feature":
                snap[path] = _fp(v)
    return snap


def frame_diff(base: Dict[str, str], now: Dict[str, str]) -> List[List[str]]:
    out = []
    for k in sorted(set(base) | set(now)):
        if base.get(k) != now.get(k):
            out.append([k, (base.get(k) or "<absent>")[:300], (now.get(k) or "<absent>")[:300]])
    return out


class Process:
    """One interpreter's worth of func_adl_xAOD state (the module globals are THE process state: there is
    one `Process` per interpreter, creating a second one does not give a second state)."""

    def __init__(self):
        self.log = _collector()
        import func_adl_xAOD.common.cpp_types as ctyp
        import func_adl_xAOD.common.cpp_vars as cvars
        from func_adl_xAOD.atlas.xaod.executor import atlas_xaod_executor
        from func_adl_xAOD.cms.aod.executor import cms_aod_executor
        from func_adl_xAOD.cms.miniaod.executor import cms_miniaod_executor
        from func_adl_xAOD.common.executor import executor

        self.ctyp, self.cvars, self.executor_cls = ctyp, cvars, executor
        self.ctor = {"atlas": atlas_xaod_executor, "cms_aod": cms_aod_executor, "cms_miniaod": cms_miniaod_executor}
        self.execs: List[Any] = []
        self.backend_of: List[str] = []
        self._rec_keys: Optional[List] = None
        self._rec_names: Optional[List] = None
        self.asts: Dict[str, ast.AST] = {}  # label -> the one AST object of the translations that carry that label
        # importing the package already draws names (a class attribute of the miniAOD backend): count from here
        self.counter_base = _cnt(cvars.unique_var_index)
        self._instrument()
        self.frame0 = frame_snapshot()

    # -- footprint recording
    def _instrument(self):
        ctyp = self.ctyp
        if getattr(ctyp, "_c07_wrapped", False):
            self._orig = ctyp._c07_orig
            ctyp._c07_owner[0] = self
            return
        orig_mti, orig_ns = ctyp.method_type_info, ctyp.get_toplevel_ns
        owner = [self]

        def method_type_info(type_string, method_name):
            o = owner[0]
            if o._rec_keys is not None:
                o._rec_keys.append([str(type_string), str(method_name)])
            return orig_mti(type_string, method_name)

        def get_toplevel_ns(ns_name):
            o = owner[0]
            if o._rec_names is not None:
                o._rec_names.append(str(ns_name))
            return orig_ns(ns_name)

        ctyp.method_type_info = method_type_info
        ctyp.get_toplevel_ns = get_toplevel_ns
        ctyp._c07_wrapped, ctyp._c07_orig, ctyp._c07_owner = True, (orig_mti, orig_ns), owner

    # -- operations
    def new(self, b: str):
        self.execs.append(self.ctor[b]())
        self.backend_of.append(b)
        return {"kind": "new"}

    def addx(self, e: int, x: Dict[str, str]):
        self.execs[e].add_extended_md({k: make_proto(k, v) for k, v in x.items()})
        return {"kind": "addx"}

    def the_ast(self, q: str, md: List[Dict[str, Any]], obj: Optional[str], inner: Optional[Dict[str, Any]]) -> ast.AST:
        if obj is not None and obj in self.asts:
            return self.asts[obj]
        if inner is not None:
            sub = self.the_ast(inner["q"], inner["md"], inner.get("obj"), None)

            class _Put(ast.NodeTransformer):
                def visit_Name(self, node):
                    return sub if node.id == "OBJ" else node

            a = _Put().visit(ast.parse(q, mode="eval").body)
        else:
            a = build_ast(q, md)
        if obj is not None:
            self.asts[obj] = a
        return a

    def tr(self, e: int, q: str, md: List[Dict[str, Any]], keep_files: bool = False, obj: Optional[str] = None, inner: Optional[Dict[str, Any]] = None) -> Dict[str, Any]:
        exe = self.execs[e]
        a = self.the_ast(q, md, obj, inner)
        c0 = _cnt(self.cvars.unique_var_index)
        self._rec_keys, self._rec_names = [], []
        self.log.lines = []
        d = Path(tempfile.mkdtemp(prefix="c07_"))
        try:
            try:
                a2 = exe.apply_ast_transformations(a)
            except Exception as ex:
                stage = _classify_apply_failure(ex)
                return self._out(stage, type(ex).__name__, str(ex), c0, None)
            try:
                info = exe.write_cpp_files(a2, d)
            except Exception as ex:
                return self._out("write", type(ex).__name__, str(ex), c0, None)
            files = {f: (d / f).read_text() for f in info.all_filenames}
            mode = oct((d / info.main_script).stat().st_mode & 0o777)
            files["<main_script>"] = f"{info.main_script} {mode}"
            return self._out("ok", "", "", c0, files)
        finally:
            shutil.rmtree(d, ignore_errors=True)

    def _out(self, stage, cls, msg, c0, files):
        keys = sorted({tuple(k) for k in (self._rec_keys or [])})
        names = sorted(set(self._rec_names or []))
        self._rec_keys = self._rec_names = None
        return {
            "kind": "tr",
            "stage": stage,
            "error": cls,
            "message": msg[:300],
            "ticks": _cnt(self.cvars.unique_var_index) - c0,
            "files": files,
            "keys": [list(k) for k in keys],
            "names": names,
            "log": list(self.log.lines),
        }

    def probe(self, p: Dict[str, Any]) -> Dict[str, Any]:
        """addx + translate on an existing or a new executor; also what `extended_md(k)` reports afterwards"""
        if p.get("on") is None:
            self.new(p["b"])
            e = len(self.execs) - 1
        else:
            e = p["on"]
        if p.get("x"):
            self.addx(e, p["x"])
        r = self.tr(e, p["q"], p["md"], obj=p.get("obj"), inner=p.get("inner"))
        r["found"] = sorted(found_render(k, it) for k in p.get("x", {}) for it in self.execs[e].extended_md(k))
        r["executor"] = e
        return r

    def apply(self, op: Dict[str, Any]) -> Dict[str, Any]:
        if op["op"] == "new":
            return self.new(op["b"])
        if op["op"] == "addx":
            return self.addx(op["e"], op["x"])
        if op["op"] == "tr":
            return self.tr(op["e"], op["q"], op["md"], obj=op.get("obj"), inner=op.get("inner"))
        raise ValueError(op)

    # -- observation of the state
    def observe(self) -> Dict[str, Any]:
        ctyp = self.ctyp
        reg = sorted([t, m, render_info(mi)] for t, ms in ctyp.g_method_type_dict.items() for m, mi in ms.items())
        spaces, enums = [], []

        def walk(ns, path):
            spaces.append(path)
            for en, info in ns.enums.items():
                enums.append([path, en, list(info.values)])
            for sub, subns in ns.names_spaces.items():
                walk(subns, path + [sub])

        for top, ns in ctyp.g_toplevel_ns.items():
            walk(ns, [top])
        execs = []
        for b, exe in zip(self.backend_of, self.execs):
            found = {}
            for k, items in exe._found_extended_md.items():
                if items:
                    found[k] = [found_render(k, it) for it in items]
            execs.append(
                {
                    "b": b,
                    "job": [[j.name, list(j.script), list(j.depends_on)] for j in exe._job_option_blocks],
                    "inject": [[i.name, inject_body(dataclasses.asdict(i))] for i in exe._inject_blocks],
                    # the dict the executor consults (its own since fix cfca57a; were it shared with other executors
                    # again, their registrations would show up here and in the frame below)
                    "xmd": sorted([k, proto_render(k, v)] for k, v in exe._extended_md.items()),
                    "found": found,
                }
            )
        return {
            "reg": reg,
            "spaces": sorted(spaces),
            "enums": sorted(enums),
            "execs": execs,
            "counter": _cnt(self.cvars.unique_var_index) - self.counter_base,
            # what changed in the rest of the process state since this Process was created: [path, before, now]
            "frame": frame_diff(self.frame0, frame_snapshot()),
        }


def defaults_tables() -> Dict[str, List[List[str]]]:
    """What each backend's constructor registers, read off a registry that is emptied first."""
    p = Process()
    out = {}
    for b in BACKENDS:
        p.ctyp.g_method_type_dict = {}
        p.ctor[b]()
        out[b] = [[t, m, render_info(mi)] for t, ms in p.ctyp.g_method_type_dict.items() for m, mi in ms.items()]
    return out


def _history(req: Dict[str, Any]) -> Dict[str, Any]:
    p = Process()
    outs, states = [], []
    for op in req["history"]:
        o = p.apply(op)
        o.pop("files", None)
        outs.append(o)
        states.append(p.observe())
    res = {"ops": outs, "states": states}
    if "probe" in req:
        res["probe"] = p.probe(req["probe"])
        res["final"] = p.observe()
    return res


def serve():
    """One request (a history + probe) per line on stdin, one answer per line on stdout.  Every request runs in a
    child forked from this process, which has imported the package and has never translated anything: the child
    starts from exactly the state of a newly started interpreter (without paying for the imports again), and what
    it does is gone when it exits."""
    _collector()
    import func_adl_xAOD.atlas.xaod.executor  # noqa
    import func_adl_xAOD.cms.aod.executor  # noqa
    import func_adl_xAOD.cms.miniaod.executor  # noqa
    import func_adl_xAOD.common.meta_data  # noqa

    for line in sys.stdin:
        line = line.strip()
        if not line:
            continue
        r, w = os.pipe()
        pid = os.fork()
        if pid == 0:
            os.close(r)
            try:
                out = json.dumps(_history(json.loads(line)))
            except BaseException:  # noqa
                out = json.dumps({"crash": traceback.format_exc()[-1500:]})
            with os.fdopen(w, "w") as f:
                f.write(out)
            os._exit(0)
        os.close(w)
        with os.fdopen(r) as f:
            out = f.read()
        os.waitpid(pid, 0)
        sys.stdout.write((out or json.dumps({"crash": "child wrote nothing"})) + "\n")
        sys.stdout.flush()


def main():
    mode = sys.argv[1]
    if mode == "defaults":
        print(json.dumps(defaults_tables()))
    elif mode == "fresh":
        req = json.loads(sys.stdin.read())
        p = Process()
        pr = dict(req["probe"])
        pr["on"] = None
        r = p.probe(pr)
        print(json.dumps(r))
    elif mode == "history":
        print(json.dumps(_history(json.loads(sys.stdin.read()))))
    elif mode == "serve":
        serve()
    else:
        raise SystemExit("usage: impl.py defaults|fresh|history|serve")


if __name__ == "__main__":
    main()
