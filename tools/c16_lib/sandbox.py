"""Run the REAL runner.sh scripts under bash inside a throw-away root directory (C16 correspondence).

Each worker is started as `unshare -m python sandbox.py worker`: inside its private mount namespace it
bind-mounts /usr read-only into a scratch root (so /bin/bash, /bin/env and the coreutils exist there),
and then chroots every script run into that root.  The scripts therefore run byte-identical, with
their absolute paths (/home/atlas/release_setup.sh, /opt/cms/entrypoint.sh, /results,
/xaod_calibration_cache, /scripts) pointing into the scratch root.  PATH holds only the stub tools of
tools/c16_stubs and three real helpers (bash, env, dirname).

A *case* is a history: an initial set-up and a list of invocations (args + fault vector); for every
invocation the worker reports the file system before and after, the exit status and the stub log.
"""
from __future__ import annotations

import json
import os
import re
import shutil
import subprocess
import sys
import tempfile
import threading
from pathlib import Path
from typing import Any, Dict, List

STUBS = Path(__file__).resolve().parent.parent / "c16_stubs"
TOOLS = ["mkdir", "cp", "chmod", "rm", "cat", "xrdcp", "python", "cmsRun", "mkedanlzr", "root", "cmake", "make", "scram", "sudo", "_sourced"]
REAL = ["bash", "env", "dirname"]
KEEP = {"usr", "bin", "lib", "lib64", "lib32", "libx32", "sbin", "dev", "stubs", "realbin"}
US = "\x1f"


# ----------------------------------------------------------------------------- worker side
def sh(*cmd):
    subprocess.run(list(cmd), check=True, capture_output=True)


class Root:
    def __init__(self, mode: str = "chroot"):
        self.mode = mode
        self.base = Path(tempfile.mkdtemp(prefix="c16root-"))
        self.root = self.base / "r"
        self.root.mkdir()
        self.prefix = "" if mode == "chroot" else str(self.root)
        if mode == "chroot":
            (self.root / "usr").mkdir()
            sh("mount", "--bind", "/usr", str(self.root / "usr"))
            sh("mount", "-o", "remount,ro,bind", str(self.root / "usr"))
            for l in ["bin", "lib", "lib64", "lib32", "libx32", "sbin"]:
                if os.path.islink("/" + l):
                    os.symlink(os.readlink("/" + l), self.root / l)
            (self.root / "dev").mkdir()
            (self.root / "dev" / "null").touch()
            sh("mount", "--bind", "/dev/null", str(self.root / "dev" / "null"))
        st = self.root / "stubs"
        st.mkdir()
        shutil.copy(STUBS / "stub", st / "stub")
        os.chmod(st / "stub", 0o755)
        for t in TOOLS:
            os.symlink("stub", st / t)
        rb = self.root / "realbin"
        rb.mkdir()
        for t in REAL:
            os.symlink("/usr/bin/" + t, rb / t)

    def clean(self):
        for e in os.listdir(self.root):
            if e in KEEP:
                continue
            p = self.root / e
            if p.is_dir() and not p.is_symlink():
                shutil.rmtree(p)
            else:
                p.unlink()

    def close(self):
        if self.mode != "chroot":
            shutil.rmtree(self.base, ignore_errors=True)
            return
        subprocess.run(["umount", str(self.root / "dev" / "null")], capture_output=True)
        subprocess.run(["umount", str(self.root / "usr")], capture_output=True)
        if not os.path.ismount(self.root / "usr") and not os.listdir(self.root / "usr"):
            shutil.rmtree(self.base, ignore_errors=True)

    # --- relocation mode (no mount namespace available): the absolute paths of the script are moved below the
    # scratch root textually, and the prefix is stripped again from everything that is reported
    ABS = re.compile(r"(?<![\w$}/.])/(home/atlas|opt/cms|results|xaod_calibration_cache)\b")

    def relocate_script(self, text: str) -> str:
        return text if not self.prefix else self.ABS.sub(lambda m: self.prefix + m.group(0), text)

    def relocate_arg(self, a: str) -> str:
        if not self.prefix:
            return a
        if a.startswith("/"):
            return self.prefix + a
        m = re.match(r"^(-[cr]*[do])(/.*)$", a)
        return m.group(1) + self.prefix + m.group(2) if m else a

    def strip(self, s: str) -> str:
        return s.replace(self.prefix, "") if self.prefix else s

    # --- file system snapshot (everything a script could touch)
    def snapshot(self) -> Dict[str, Any]:
        snap: Dict[str, Any] = {}
        for e in sorted(os.listdir(self.root)):
            if e in KEEP or e == "log" or e == "tmp":
                continue
            self._walk(self.root / e, "/" + e, snap)
        return snap

    def _walk(self, p: Path, name: str, snap: Dict[str, Any]):
        if p.is_symlink():
            snap[name] = {"kind": "file", "content": {"t": "text", "s": "symlink"}}
        elif p.is_dir():
            snap[name] = {"kind": "dir"}
            for e in sorted(os.listdir(p)):
                self._walk(p / e, name + "/" + e, snap)
        else:
            snap[name] = {"kind": "file", "content": parse_content(self.strip(p.read_bytes().decode("utf-8", "replace")))}


def parse_content(s: str) -> Dict[str, Any]:
    if s.startswith("C16JOB\n"):
        parts = s.split("\n", 4)
        if len(parts) >= 4:
            inv, idx, present = parts[1], parts[2], parts[3]
            rest = parts[4] if len(parts) > 4 else ""
            inp = {"t": "text", "s": rest} if present == "present" else {"t": "missing"}
            try:
                return {"t": "job", "inv": int(inv), "idx": int(idx), "input": inp}
            except ValueError:
                pass
    if s.startswith("C16CONV\n"):
        return {"t": "conv", "c": parse_content(s[len("C16CONV\n") :])}
    return {"t": "text", "s": s}


def write_tree(root: Path, files: Dict[str, Any]):
    """files: path -> None (directory) | str (file content)"""
    for path, content in files.items():
        p = root / path.lstrip("/")
        if content is None:
            p.mkdir(parents=True, exist_ok=True)
        else:
            p.parent.mkdir(parents=True, exist_ok=True)
            p.write_text(content)


def run_case(r: Root, case: Dict[str, Any]) -> Dict[str, Any]:
    r.clean()
    root = r.root
    for d in ["work", "scripts", "log", "tmp"]:
        (root / d).mkdir()
    write_tree(root, case["files"])
    (root / "scripts" / "runner.sh").write_text(r.relocate_script(case["script"]))
    os.chmod(root / "scripts" / "runner.sh", 0o755)
    out = []
    for k, inv in enumerate(case["invocations"]):
        (root / "log" / "counter").write_text("0\n")
        (root / "log" / "log").write_text("")
        before = r.snapshot()
        pre = r.prefix
        env = {"PATH": f"{pre}/stubs:{pre}/realbin", "C16_ROOT": pre, "C16_FAULTS": ",".join(f"{i}={s}" for i, s in sorted(inv.get("faults", {}).items(), key=lambda kv: int(kv[0]))), "C16_INV": str(inv.get("inv", k))}
        env.update({n: r.relocate_arg(v) for n, v in case.get("env", {}).items()})

        def enter():
            if not pre:
                os.chroot(str(root))
            os.chdir(pre + "/work")

        try:
            p = subprocess.run([pre + "/scripts/runner.sh"] + [r.relocate_arg(a) for a in inv["args"]], env=env, preexec_fn=enter, capture_output=True, timeout=30)
            code, err = p.returncode, r.strip(p.stderr.decode("utf-8", "replace"))[-600:]
        except subprocess.TimeoutExpired:
            code, err = -1, "timeout"
        except OSError as e:
            code, err = -2, f"{type(e).__name__}: {e}"
        log = []
        for line in (root / "log" / "log").read_text().split("\n"):
            if not line:
                continue
            f = r.strip(line).split(US)
            log.append({"idx": int(f[0]), "status": int(f[1]), "argv": f[2:]})
        after = r.snapshot()
        out.append({"code": code, "log": log, "before": before, "after": after, "stderr": err})
    r.clean()
    return {"id": case.get("id"), "results": out}


def worker_main(mode: str = "chroot"):
    r = Root(mode)
    try:
        for line in sys.stdin:
            line = line.strip()
            if not line:
                continue
            case = json.loads(line)
            try:
                res = run_case(r, case)
            except Exception as e:  # report, never die silently
                res = {"id": case.get("id"), "error": f"{type(e).__name__}: {e}"}
            sys.stdout.write(json.dumps(res) + "\n")
            sys.stdout.flush()
    finally:
        r.close()


# ----------------------------------------------------------------------------- caller side
def available() -> bool:
    """can we get a private mount namespace and chroot?"""
    if os.environ.get("C16_SANDBOX") == "reloc":
        return False
    try:
        p = subprocess.run(["unshare", "-m", "sh", "-c", "mount --bind /usr /mnt 2>/dev/null || mount --bind /usr /tmp"], capture_output=True, timeout=20)
        return p.returncode == 0 and os.geteuid() == 0
    except Exception:
        return False


_MODE: List[str] = []


def mode() -> str:
    if not _MODE:
        _MODE.append("chroot" if available() else "reloc")
    return _MODE[0]


def run_cases(cases: List[Dict[str, Any]], nworkers: int = 16) -> List[Dict[str, Any]]:
    """Run the cases on a pool of sandbox workers; results come back in the order of `cases`."""
    if not cases:
        return []
    nworkers = max(1, min(nworkers, len(cases)))
    for i, c in enumerate(cases):
        c["id"] = i
    chunks: List[List[Dict[str, Any]]] = [[] for _ in range(nworkers)]
    for i, c in enumerate(cases):
        chunks[i % nworkers].append(c)
    results: Dict[int, Dict[str, Any]] = {}
    errors: List[str] = []

    def drive(chunk):
        inp = "".join(json.dumps(c) + "\n" for c in chunk)
        me = [sys.executable, str(Path(__file__).resolve()), "worker"]
        cmd = ["unshare", "-m"] + me if mode() == "chroot" else me + ["reloc"]
        p = subprocess.run(cmd, input=inp, capture_output=True, text=True, timeout=1800)
        for l in p.stdout.split("\n"):
            if l.strip():
                r = json.loads(l)
                results[r["id"]] = r
        if p.returncode != 0:
            errors.append(p.stderr[-800:])

    ts = [threading.Thread(target=drive, args=(ch,)) for ch in chunks]
    for t in ts:
        t.start()
    for t in ts:
        t.join()
    if errors and len(results) < len(cases):
        raise RuntimeError("sandbox worker failed: " + errors[0])
    return [results.get(i, {"id": i, "error": "no result"}) for i in range(len(cases))]


if __name__ == "__main__":
    if len(sys.argv) > 1 and sys.argv[1] == "worker":
        worker_main(sys.argv[2] if len(sys.argv) > 2 else "chroot")
