"""Parser for the bash subset used by the three runner.sh templates -> Lean `Sh` terms (C16, tie "T").

Anything that is not recognised becomes `Sh.unknown "<text>"`, `Part.bad "<text>"` or `Test.bad "<text>"`;
all three break the `Strict` discipline of FaxVerif/C16/Model.lean, so the per-script theorems stop
building.  The parser never raises: `parse_script` wraps everything.
"""
from __future__ import annotations

import re
from typing import Any, Dict, List, Optional, Tuple

SCRIPT_DIR_IDIOM = 'DIR="$( cd "$( dirname "${BASH_SOURCE[0]}" )" >/dev/null 2>&1 && pwd )"'
NAME_RE = re.compile(r"^[A-Za-z_][A-Za-z0-9_]*$")


def lean_str(s: str) -> str:
    out = ['"']
    for c in s:
        if c == "\\":
            out.append("\\\\")
        elif c == '"':
            out.append('\\"')
        elif c == "\n":
            out.append("\\n")
        elif c == "\t":
            out.append("\\t")
        elif c == "\r":
            out.append("\\r")
        elif ord(c) < 32 or ord(c) == 127:
            out.append("\\x%02x" % ord(c))
        else:
            out.append(c)
    out.append('"')
    return "".join(out)


# ----------------------------------------------------------------------------- lexer
class Part:
    def __init__(self, kind: str, text: str, quoted: bool):
        self.kind, self.text, self.quoted = kind, text, quoted  # kind: lit var pos argc allargs arith bad

    def __repr__(self):
        return f"{self.kind}:{self.text!r}{'q' if self.quoted else ''}"


class Word:
    def __init__(self, parts: List[Part], raw: str):
        self.parts, self.raw = parts, raw

    @property
    def quoted(self) -> bool:
        return any(p.quoted for p in self.parts)

    def lit(self) -> Optional[str]:
        """the literal text if the word has no expansion at all"""
        if all(p.kind == "lit" for p in self.parts):
            return "".join(p.text for p in self.parts)
        return None

    def unquoted_lit(self) -> Optional[str]:
        if all(p.kind == "lit" and not p.quoted for p in self.parts):
            return "".join(p.text for p in self.parts)
        return None


class Op:
    def __init__(self, text: str):
        self.text = text

    def __repr__(self):
        return f"op:{self.text}"


OPS = ["2>&1", ";;", "&&", "||", "<<", ">>", ">&", ";", "|", "&", ">", "<", "(", ")"]


def _dollar(s: str, i: int, quoted: bool) -> Tuple[Part, int]:
    """s[i] == '$'"""
    n = len(s)
    if s.startswith("$((", i):
        j = s.find("))", i)
        if j < 0:
            return Part("bad", s[i:], quoted), n
        body = s[i + 3 : j].strip()
        if body.replace(" ", "") == "OPTIND-1":
            return Part("arith", "OPTIND-1", quoted), j + 2
        return Part("bad", s[i : j + 2], quoted), j + 2
    if s.startswith("$(", i):
        depth, j = 0, i + 1
        while j < n:
            if s[j] == "(":
                depth += 1
            elif s[j] == ")":
                depth -= 1
                if depth == 0:
                    break
            j += 1
        return Part("bad", s[i : j + 1], quoted), j + 1
    if s.startswith("${", i):
        j = s.find("}", i)
        if j < 0:
            return Part("bad", s[i:], quoted), n
        name = s[i + 2 : j]
        if NAME_RE.match(name):
            return Part("var", name, quoted), j + 1
        return Part("bad", s[i : j + 1], quoted), j + 1
    if i + 1 < n:
        c = s[i + 1]
        if c == "#":
            return Part("argc", "", quoted), i + 2
        if c == "@":
            return Part("allargs", "", quoted), i + 2
        if c.isdigit():
            return Part("pos", c, quoted), i + 2
        if c in "*?!$-":
            return Part("bad", s[i : i + 2], quoted), i + 2
        m = re.match(r"[A-Za-z_][A-Za-z0-9_]*", s[i + 1 :])
        if m:
            return Part("var", m.group(0), quoted), i + 1 + len(m.group(0))
    return Part("lit", "$", quoted), i + 1


def lex(s: str) -> List[Any]:
    """tokens of one logical line (no newlines inside except in quotes)"""
    toks: List[Any] = []
    i, n = 0, len(s)
    while i < n:
        c = s[i]
        if c in " \t":
            i += 1
            continue
        if c == "#":
            break
        op = next((o for o in OPS if s.startswith(o, i)), None)
        if op:
            toks.append(Op(op))
            i += len(op)
            continue
        # a word
        parts: List[Part] = []
        start = i

        def add_lit(t: str, q: bool):
            if parts and parts[-1].kind == "lit" and parts[-1].quoted == q:
                parts[-1].text += t
            else:
                parts.append(Part("lit", t, q))

        while i < n:
            c = s[i]
            if c in " \t" or any(s.startswith(o, i) for o in OPS):
                break
            if c == "\\":
                if i + 1 < n:
                    add_lit(s[i + 1], True)
                    i += 2
                else:
                    i += 1
            elif c == "'":
                j = s.find("'", i + 1)
                if j < 0:
                    parts.append(Part("bad", s[i:], True))
                    i = n
                else:
                    add_lit(s[i + 1 : j], True)
                    if j == i + 1:
                        parts.append(Part("lit", "", True))
                    i = j + 1
            elif c == '"':
                i += 1
                empty = True
                closed = False
                while i < n:
                    d = s[i]
                    if d == '"':
                        closed = True
                        i += 1
                        break
                    empty = False
                    if d == "\\" and i + 1 < n and s[i + 1] in '$`"\\':
                        add_lit(s[i + 1], True)
                        i += 2
                    elif d == "$":
                        p, i = _dollar(s, i, True)
                        if p.kind == "lit":
                            add_lit(p.text, True)
                        else:
                            parts.append(p)
                    elif d == "`":
                        j = s.find("`", i + 1)
                        j = n - 1 if j < 0 else j
                        parts.append(Part("bad", s[i : j + 1], True))
                        i = j + 1
                    else:
                        add_lit(d, True)
                        i += 1
                if not closed:
                    parts.append(Part("bad", "unterminated double quote", True))
                elif empty:
                    parts.append(Part("lit", "", True))
            elif c == "$":
                p, i = _dollar(s, i, False)
                if p.kind == "lit":
                    add_lit(p.text, False)
                else:
                    parts.append(p)
            elif c == "`":
                j = s.find("`", i + 1)
                j = n - 1 if j < 0 else j
                parts.append(Part("bad", s[i : j + 1], False))
                i = j + 1
            else:
                add_lit(c, False)
                i += 1
        toks.append(Word(parts, s[start:i]))
    return toks


# ----------------------------------------------------------------------------- Lean emission
def part_lean(p: Part) -> str:
    if p.kind == "lit":
        return f".lit {lean_str(p.text)}"
    if p.kind == "var":
        return f".var {lean_str(p.text)}"
    if p.kind == "pos":
        return f".pos {int(p.text)}"
    if p.kind == "argc":
        return ".argc"
    if p.kind == "allargs":
        return ".allArgs"
    if p.kind == "arith":
        return ".optindMinus1"
    return f".bad {lean_str(p.text)}"


def word_lean(w: Word) -> str:
    parts = [p for p in w.parts if not (p.kind == "lit" and p.text == "")]
    return f"⟨{'true' if w.quoted else 'false'}, [{', '.join(part_lean(p) for p in parts)}]⟩"


def has_glob(w: Word) -> bool:
    return any(p.kind == "lit" and not p.quoted and re.search(r"[*?\[~{]", p.text) for p in w.parts)


class Node:
    """a Lean term with children, pretty-printed with indentation"""

    def __init__(self, head: str, blocks: Optional[List[Any]] = None):
        self.head, self.blocks = head, blocks or []


def unknown(text: str) -> Node:
    return Node(f".unknown {lean_str(text.strip())}")


def block_lean(stmts: List[Node], ind: int) -> str:
    if not stmts:
        return "[]"
    pad = "  " * (ind + 1)
    return "[\n" + ",\n".join(pad + stmt_lean(s, ind + 1) for s in stmts) + "]"


def stmt_lean(s: Node, ind: int) -> str:
    if not s.blocks:
        return s.head
    out = s.head
    for b in s.blocks:
        if isinstance(b, list) and (not b or isinstance(b[0], Node)):
            out += " " + block_lean(b, ind)
        elif isinstance(b, list):  # arms
            pad = "  " * (ind + 1)
            out += " [\n" + ",\n".join(pad + f"({lean_str(pat)}, {block_lean(body, ind + 1)})" for pat, body in b) + "]"
        elif isinstance(b, Node):
            out += " (" + stmt_lean(b, ind) + ")"
    return out


# ----------------------------------------------------------------------------- parser
class Parser:
    def __init__(self, text: str):
        self.lines = text.split("\n")
        self.i = 0
        self.steps = 0
        self.n0 = len(self.lines)

    # --- line level helpers
    def peek(self) -> Optional[str]:
        while self.i < len(self.lines):
            l = self.lines[self.i].strip()
            if l == "" or l.startswith("#"):
                self.i += 1
                continue
            return l
        return None

    def next(self) -> str:
        l = self.peek()
        assert l is not None
        self.i += 1
        self.steps += 1
        if self.steps > 50 * (self.n0 + 20):  # lines are re-inserted in a few places: never loop for ever
            raise RuntimeError("parser made no progress")
        return l

    # --- tests
    def parse_test(self, toks: List[Any], raw: str) -> str:
        ws = toks
        if not ws or not all(isinstance(t, Word) for t in ws):
            return f".bad {lean_str(raw)}"
        first, last = ws[0].unquoted_lit(), ws[-1].unquoted_lit()
        if first == "[" and last == "]":
            inner = ws[1:-1]
            if len(inner) == 3:
                op = inner[1].unquoted_lit()
                if op in ("=", "==") and not has_glob(inner[2]) and not has_glob(inner[0]):
                    return f".strEq {word_lean(inner[0])} {word_lean(inner[2])}"
                if op == "!=" and not has_glob(inner[2]) and not has_glob(inner[0]):
                    return f".strNe {word_lean(inner[0])} {word_lean(inner[2])}"
            if len(inner) == 2:
                op = inner[0].unquoted_lit()
                w = inner[1]
                # an unquoted operand that may expand to nothing changes the meaning of a unary test
                if op == "-z" and w.quoted:
                    return f".empty {word_lean(w)}"
                if op in ("-e", "-f", "-d") and not has_glob(w):
                    return {"-e": ".pathExists ", "-f": ".isFile ", "-d": ".isDir "}[op] + word_lean(w)
        if first == "[[" and last == "]]":
            inner = ws[1:-1]
            if len(inner) == 3 and inner[1].unquoted_lit() == "==":
                pat = inner[2]
                ps = pat.parts
                if len(ps) == 2 and ps[0].kind == "lit" and ps[0].quoted and ps[1].kind == "lit" and not ps[1].quoted and ps[1].text == "*":
                    return f".globPrefix {word_lean(inner[0])} {lean_str(ps[0].text)}"
        return f".bad {lean_str(raw)}"

    # --- simple commands
    def simple(self, toks: List[Any], raw: str, prev_assign: Optional[Tuple[str, str]]) -> Node:
        if not toks:
            return unknown(raw)
        # `X || true`
        for k, t in enumerate(toks):
            if isinstance(t, Op) and t.text == "||":
                rhs = toks[k + 1 :]
                if len(rhs) == 1 and isinstance(rhs[0], Word) and rhs[0].unquoted_lit() in ("true", ":") and k > 0:
                    inner = self.simple(toks[:k], raw, prev_assign)
                    return Node(".orTrue", [inner])
                return unknown(raw)
        ops = [t for t in toks if isinstance(t, Op)]
        words = [t for t in toks if isinstance(t, Word)]
        w0 = toks[0]
        if not isinstance(w0, Word):
            return unknown(raw)
        name = w0.unquoted_lit()
        # assignment
        if len(toks) == 1 and w0.parts and w0.parts[0].kind == "lit" and not w0.parts[0].quoted:
            m = re.match(r"^([A-Za-z_][A-Za-z0-9_]*)=", w0.parts[0].text)
            if m:
                var = m.group(1)
                if raw.strip() == SCRIPT_DIR_IDIOM:
                    return Node(f".assignScriptDir {lean_str(var)}")
                rest_parts = [Part("lit", w0.parts[0].text[m.end() :], False)] + w0.parts[1:]
                if len(rest_parts) == 2 and rest_parts[0].text == "" and rest_parts[1].kind == "bad" and rest_parts[1].text == "`pwd`":
                    return Node(f".assignPwd {lean_str(var)}")
                val = Word(rest_parts, w0.raw[m.end() :])
                # the right-hand side of an assignment is not word-split
                return Node(f".assign {lean_str(var)} ⟨true, [{', '.join(part_lean(p) for p in val.parts if not (p.kind == 'lit' and p.text == ''))}]⟩")
        if raw.strip() == SCRIPT_DIR_IDIOM:
            return Node('.assignScriptDir "DIR"')
        if name is None and not (len(w0.parts) == 1 and w0.parts[0].kind == "var"):
            return unknown(raw)
        # heredoc handled by caller; redirections
        if name == "echo":
            if not ops:
                return Node(f".echo [{', '.join(word_lean(w) for w in words[1:])}] none")
            if len(ops) == 1 and ops[0].text == ">" and isinstance(toks[-1], Word) and isinstance(toks[-2], Op) and not has_glob(toks[-1]):
                args = toks[1:-2]
                if all(isinstance(a, Word) for a in args):
                    return Node(f".echo [{', '.join(word_lean(w) for w in args)}] (some {word_lean(toks[-1])})")
            return unknown(raw)
        if ops:
            return unknown(raw)
        if any(has_glob(w) for w in words):
            return unknown(raw)
        args = words[1:]
        if name == "set":
            if len(args) == 1 and args[0].unquoted_lit() == "-e":
                return Node(".setE true")
            if len(args) == 1 and args[0].unquoted_lit() == "+e":
                return Node(".setE false")
            if len(args) == 1 and args[0].unquoted_lit() == "-x":
                return Node(".setX")
            return unknown(raw)
        if name == "export":
            if len(args) == 1 and args[0].parts and args[0].parts[0].kind == "lit" and not args[0].parts[0].quoted:
                t = args[0].parts[0].text
                m = re.match(r"^([A-Za-z_][A-Za-z0-9_]*)(=?)", t)
                if m and m.group(2) == "=":
                    rest = [Part("lit", t[m.end() :], False)] + args[0].parts[1:]
                    ps = ", ".join(part_lean(p) for p in rest if not (p.kind == "lit" and p.text == ""))
                    return Node(f".exportVar {lean_str(m.group(1))} (some ⟨true, [{ps}]⟩)")
                if m and m.end() == len(t) and len(args[0].parts) == 1:
                    return Node(f".exportVar {lean_str(m.group(1))} none")
            return unknown(raw)
        if name == "cd":
            if len(args) == 1:
                return Node(f".cd {word_lean(args[0])}")
            return unknown(raw)
        if name in ("source", "."):
            if len(args) == 1:
                return Node(f".source {word_lean(args[0])}")
            return unknown(raw)
        if name == "exit":
            if len(args) == 1 and (args[0].unquoted_lit() or "").isdigit():
                return Node(f".exit {int(args[0].unquoted_lit())}")
            return unknown(raw)
        if name == "shift":
            if len(args) == 1 and len(args[0].parts) == 1 and args[0].parts[0].kind == "arith":
                return Node(".shiftOptind")
            return unknown(raw)
        if name == "eval":
            if len(args) == 1 and len(args[0].parts) == 1 and args[0].parts[0].kind == "var" and prev_assign and prev_assign[0] == args[0].parts[0].text:
                text = prev_assign[1]
                if re.search(r"[*?\[~{`]|\$\(", text) is None and "\n" not in text:
                    inner = lex(text)
                    if inner and all(isinstance(t, Word) for t in inner) and inner[0].unquoted_lit() and inner[0].unquoted_lit() not in BUILTINS:
                        return Node(f".evalCmd {lean_str(prev_assign[0])} {word_lean(inner[0])} [{', '.join(word_lean(w) for w in inner[1:])}]")
            return unknown(raw)
        if name in BUILTINS:
            return unknown(raw)
        return Node(f".cmd {word_lean(w0)} [{', '.join(word_lean(w) for w in args)}]")

    # --- statements
    def split_semis(self, toks: List[Any]) -> List[List[Any]]:
        out, cur = [], []
        for t in toks:
            if isinstance(t, Op) and t.text == ";":
                out.append(cur)
                cur = []
            else:
                cur.append(t)
        out.append(cur)
        return [c for c in out if c]

    def parse_block(self, terminators: Tuple[str, ...]) -> Tuple[List[Node], Optional[str]]:
        """statements up to (not including) a line starting with one of the terminators; returns the terminator line"""
        stmts: List[Node] = []
        prev_assign: Optional[Tuple[str, str]] = None
        while True:
            l = self.peek()
            if l is None:
                return stmts, None
            toks = lex(l)
            kw = toks[0].unquoted_lit() if toks and isinstance(toks[0], Word) else None
            if kw in terminators or (";;" in terminators and toks and isinstance(toks[0], Op) and toks[0].text == ";;"):
                return stmts, l
            self.next()
            this_assign = None
            if kw == "if":
                stmts.append(self.parse_if(l, toks))
            elif kw == "while":
                stmts.append(self.parse_while(l, toks))
            elif kw in ("for", "until", "case", "function", "select", "{", "}", "done", "esac", "fi", "then", "else", "elif", "do"):
                stmts.append(unknown(l))
            else:
                # here-document?
                hd = [k for k, t in enumerate(toks) if isinstance(t, Op) and t.text == "<<"]
                if hd:
                    stmts.append(self.parse_heredoc(l, toks, hd[0]))
                else:
                    groups = self.split_semis(toks)
                    # a trailing `;;` belongs to the enclosing case arm
                    for g in groups:
                        trailing = False
                        if g and isinstance(g[-1], Op) and g[-1].text == ";;":
                            g = g[:-1]
                            trailing = True
                        if g:
                            stmts.append(self.simple(g, l, prev_assign))
                            m = re.match(r"^([A-Za-z_][A-Za-z0-9_]*)='([^']*)'$", l.strip())
                            this_assign = (m.group(1), m.group(2)) if m else None
                        if trailing:
                            if ";;" in terminators:
                                self.lines.insert(self.i, ";;")
                            else:
                                stmts.append(unknown(";;"))
            prev_assign = this_assign

    def parse_heredoc(self, l: str, toks: List[Any], k: int) -> Node:
        # cat > target << DELIM
        delim_tok = toks[k + 1] if k + 1 < len(toks) else None
        body = 0
        delim = delim_tok.lit() if isinstance(delim_tok, Word) else None
        quoted_delim = isinstance(delim_tok, Word) and delim_tok.quoted
        has_expansion = False
        if delim is None:
            return unknown(l)
        while self.i < len(self.lines):
            line = self.lines[self.i]
            self.i += 1
            if line == delim:
                break
            body += 1
            if not quoted_delim and re.search(r"\$[A-Za-z_{(]|`", line):
                has_expansion = True
        else:
            return unknown(l + " (unterminated here-document)")
        ok = (
            len(toks) == 5
            and isinstance(toks[0], Word)
            and toks[0].unquoted_lit() == "cat"
            and isinstance(toks[1], Op)
            and toks[1].text == ">"
            and isinstance(toks[2], Word)
            and k == 3
            and not has_expansion
            and not has_glob(toks[2])
        )
        if ok:
            return Node(f".heredoc {word_lean(toks[2])} {body}")
        return unknown(l)

    def parse_if(self, l: str, toks: List[Any]) -> Node:
        # if TEST; then   |  if TEST \n then
        cond = toks[1:]
        has_then = False
        if len(cond) >= 2 and isinstance(cond[-1], Word) and cond[-1].unquoted_lit() == "then" and isinstance(cond[-2], Op) and cond[-2].text == ";":
            cond = cond[:-2]
            has_then = True
        elif cond and isinstance(cond[-1], Op) and cond[-1].text == ";":
            cond = cond[:-1]
        if not has_then:
            nl = self.peek()
            if nl is not None and nl.split("#")[0].strip() == "then":
                self.next()
            else:
                return unknown(l)
        test = self.parse_test(cond, l)
        thn, term = self.parse_block(("elif", "else", "fi"))
        if term is None:
            return unknown(l + " (unterminated if)")
        tl = self.next()
        tt = lex(tl)
        kw = tt[0].unquoted_lit()
        if kw == "fi":
            if len(tt) != 1:
                return unknown(tl)
            return Node(f".ite ({test})", [thn, []])
        if kw == "else":
            if len(tt) != 1:
                return unknown(tl)
            els, term2 = self.parse_block(("fi",))
            if term2 is None:
                return unknown(l + " (unterminated if)")
            fl = self.next()
            if len(lex(fl)) != 1:
                return unknown(fl)
            return Node(f".ite ({test})", [thn, els])
        # elif: an `if` in the else branch, sharing the closing fi
        inner = self.parse_if(tl, tt)
        return Node(f".ite ({test})", [thn, [inner]])

    def parse_while(self, l: str, toks: List[Any]) -> Node:
        # while getopts "spec" var; do
        ok = (
            len(toks) == 6
            and all(isinstance(t, Word) for t in toks[:4])
            and toks[1].unquoted_lit() == "getopts"
            and toks[2].lit() is not None
            and toks[3].unquoted_lit() is not None
            and isinstance(toks[4], Op)
            and toks[4].text == ";"
            and isinstance(toks[5], Word)
            and toks[5].unquoted_lit() == "do"
        )
        start = self.i
        if not ok:
            return self.swallow(l, start, "done")
        spec, var = toks[2].lit(), toks[3].unquoted_lit()
        cl = self.peek()
        ct = lex(cl) if cl else []
        okc = (
            len(ct) == 3
            and all(isinstance(t, Word) for t in ct)
            and ct[0].unquoted_lit() == "case"
            and len(ct[1].parts) == 1
            and ct[1].parts[0].kind == "var"
            and ct[1].parts[0].text == var
            and ct[2].unquoted_lit() == "in"
        )
        if not okc:
            return self.swallow(l, start, "done")
        self.next()
        arms: List[Tuple[str, List[Node]]] = []
        while True:
            pl = self.peek()
            if pl is None:
                return self.swallow(l, start, "done")
            pt = lex(pl)
            if len(pt) == 1 and isinstance(pt[0], Word) and pt[0].unquoted_lit() == "esac":
                self.next()
                break
            # pattern line: PAT)
            if not (len(pt) >= 2 and isinstance(pt[0], Word) and isinstance(pt[1], Op) and pt[1].text == ")" and pt[0].unquoted_lit() is not None):
                return self.swallow(l, start, "done")
            pat = pt[0].unquoted_lit()
            if re.search(r"[\[|]", pat) or ("*" in pat[:-1]):
                return self.swallow(l, start, "done")
            self.next()
            if len(pt) > 2:
                # rest of the line is the start of the body
                self.lines.insert(self.i, pl.split(")", 1)[1])
            body, term = self.parse_block((";;", "esac"))
            if term is None:
                return self.swallow(l, start, "done")
            if lex(term) and isinstance(lex(term)[0], Op):
                self.next()  # consume ;;
            arms.append((pat, body))
        dl = self.peek()
        if dl is None or [getattr(t, "raw", None) for t in lex(dl)] != ["done"]:
            return self.swallow(l, start, "done")
        self.next()
        return Node(f".getoptsCase {lean_str(spec)} {lean_str(var)}", [arms])

    def swallow(self, l: str, start: int, closer: str) -> Node:
        """an unrecognised loop: everything up to the closing keyword is one unknown node"""
        self.i = start
        text = [l]
        depth = 1
        while self.i < len(self.lines):
            line = self.lines[self.i]
            self.i += 1
            text.append(line)
            t = line.strip()
            if re.match(r"^(while|for|until)\b", t):
                depth += 1
            if t.split("#")[0].strip() == closer:
                depth -= 1
                if depth == 0:
                    break
        return unknown("\n".join(text))


BUILTINS = {
    "true", "false", ":", "test", "[", "[[", "return", "break", "continue", "trap", "exec", "read", "unset", "local", "declare",
    "typeset", "readonly", "let", "wait", "kill", "getopts", "alias", "command", "builtin", "printf", "pushd", "popd", "umask",
    "ulimit", "hash", "type", "time", "bg", "fg", "jobs", "shopt", "enable", "eval", "pwd",
}


def parse_script(text: str) -> List[Node]:
    try:
        # line continuations
        text = re.sub(r"\\\n", " ", text)
        p = Parser(text)
        stmts, term = p.parse_block(())
        return stmts
    except Exception as e:  # never crash: an unparsable script is an `unknown` script
        return [unknown(f"parser error {type(e).__name__}: {e}")]


def script_lean(name: str, text: str) -> str:
    stmts = parse_script(text)
    return f"def {name} : List Sh := " + block_lean(stmts, 0) + "\n"
