"""Shared machinery of the /verif checks (see DESIGN.md §2.2).

A property module (tools/props/cNN.py) supplies the Lean module names, the list of property
theorems, an optional translator and a `run(ctx)` that drives the correspondence / findings
streams.  This file owns: lake builds (under a lock), hygiene grep, axiom audit, the Lean
driver protocol, evidence, known findings, replay files and the exit protocol.
"""
from __future__ import annotations

import fcntl
import hashlib
import json
import os
import random
import re
import subprocess
import sys
import time
from pathlib import Path
from typing import Any, Callable, Dict, Iterable, List, Optional

VERIF = Path(__file__).resolve().parent.parent
LEAN = VERIF / "lean"
REPO = Path(os.environ.get("VERIF_REPO", "/repo"))
EVIDENCE = Path(os.environ.get("VERIF_EVIDENCE_DIR", str(VERIF / "evidence")))
REPLAYS = Path(os.environ.get("VERIF_REPLAYS_DIR", str(VERIF / "replays")))
CORPUS = VERIF / "corpus"
KNOWN = VERIF / "known_findings.jsonl"

ALLOWED_AXIOMS = {"propext", "Classical.choice", "Quot.sound"}
HYGIENE_RE = re.compile(
    r"\bsorry\b|\badmit\b|^\s*axiom\s|native_decide|bv_decide|implemented_by|\bunsafe\s|maxHeartbeats\s+0|@\[extern"
)

LEAN_TRUST = [
    "Lean 4.33 kernel; axioms of every property theorem audited on this run to be a subset of {propext, Classical.choice, Quot.sound}",
    "no sorry/admit/axiom/native_decide/bv_decide/implemented_by/unsafe in the Lean sources of this property (grep on this run)",
    "Lean's interpreter (lake env lean --run) is trusted only for running the model in the correspondence stream and the search, never as a proof step",
]


class InternalError(Exception):
    pass


def sh(cmd: List[str], cwd: Optional[Path] = None, timeout: int = 900, input: Optional[str] = None, env=None):
    p = subprocess.run(cmd, cwd=str(cwd) if cwd else None, capture_output=True, text=True, timeout=timeout, input=input, env=env)
    return p.returncode, p.stdout, p.stderr


class LakeLock:
    """Serialise lake builds: several checks may be started at once."""

    def __enter__(self):
        (LEAN / ".lake").mkdir(exist_ok=True)
        self.f = open(LEAN / ".lake" / "verif.lock", "w")
        fcntl.flock(self.f, fcntl.LOCK_EX)
        return self

    def __exit__(self, *a):
        fcntl.flock(self.f, fcntl.LOCK_UN)
        self.f.close()


def strip_lean_comments(src: str) -> str:
    # nested block comments, then line comments (string literals containing "--" are rare in the
    # proof files; the driver files are excluded from hygiene by construction of the file list)
    out = []
    i, depth, n = 0, 0, len(src)
    while i < n:
        if src.startswith("/-", i):
            depth += 1
            i += 2
        elif src.startswith("-/", i) and depth > 0:
            depth -= 1
            i += 2
        elif depth > 0:
            if src[i] == "\n":
                out.append("\n")
            i += 1
        else:
            out.append(src[i])
            i += 1
    text = "".join(out)
    return "\n".join(l.split("--", 1)[0] for l in text.split("\n"))


def write_if_changed(path: Path, content: str) -> bool:
    path.parent.mkdir(parents=True, exist_ok=True)
    if path.exists() and path.read_text() == content:
        return False
    path.write_text(content)
    return True


def lean_str(s: str) -> str:
    """A Lean string literal for `s`."""
    out = ['"']
    for c in s:
        if c == "\\":
            out.append("\\\\")
        elif c == '"':
            out.append('\\"')
        elif c == "\n":
            out.append("\\n")
        elif c == "\t":
            out.append("\\t")
        elif c == "\r":
            out.append("\\r")
        elif ord(c) < 32 or ord(c) == 127:
            out.append("\\x%02x" % ord(c))
        else:
            out.append(c)
    out.append('"')
    return "".join(out)


def lean_list(items: Iterable[str]) -> str:
    return "[" + ", ".join(items) + "]"


class Ctx:
    def __init__(self, prop, tier: str, seed: int):
        self.prop = prop
        self.id: str = prop.ID
        self.tier = tier
        self.seed = seed
        self.rng = random.Random(f"{prop.ID}:{seed}")
        self.t0 = time.time()
        self.evaluations = 0
        self.nontrivial_keys: set = set()
        self.samples: List[Any] = []
        self.dist: Dict[str, int] = {}
        self.broken: List[Dict[str, Any]] = []  # obligations / correspondence that no longer check
        self.violations: List[Dict[str, Any]] = []  # concrete failing inputs (Spec false on the implementation)
        self.known_hits: List[str] = []
        self.obligations: List[str] = []
        self.discharged: List[str] = []
        self.extra_cov: Dict[str, Any] = {}
        self.notes: List[str] = []
        self._known = load_known(self.id)
        self.budget_s = int(os.environ.get("VERIF_BUDGET_S", "900" if tier == "quick" else "3600"))

    # ---------------------------------------------------------------- counters
    def count(self, name: str, n: int = 1):
        self.dist[name] = self.dist.get(name, 0) + n

    def case(self, key: Any, nontrivial: bool, sample: Any = None):
        """Register one evaluated case. `key` identifies it for distinctness."""
        self.evaluations += 1
        if nontrivial:
            h = hashlib.sha1(json.dumps(key, sort_keys=True, default=str).encode()).hexdigest()
            if h not in self.nontrivial_keys:
                self.nontrivial_keys.add(h)
                if sample is not None and len(self.samples) < 6:
                    self.samples.append(sample)

    def check_time(self):
        if time.time() - self.t0 > self.budget_s:
            raise InternalError(f"wall-clock budget of {self.budget_s}s exceeded")

    # ---------------------------------------------------------------- lean
    def lake_build(self, modules: List[str]) -> bool:
        with LakeLock():
            rc, out, err = sh(["lake", "build"] + modules, cwd=LEAN, timeout=3000)
        if rc != 0:
            first = next((l for l in (out + err).splitlines() if "error" in l), (out + err)[-400:])
            self.broken.append({"kind": "lean-build", "modules": modules, "first_error": first.strip(), "log_tail": (out + err)[-3000:]})
            return False
        return True

    def hygiene(self, rel_dirs: List[str]):
        bad = []
        for d in rel_dirs:
            p = LEAN / d
            files = [p] if p.is_file() else sorted(p.rglob("*.lean"))
            for f in files:
                if f.name.startswith("Driver"):
                    continue
                for i, l in enumerate(strip_lean_comments(f.read_text()).split("\n"), 1):
                    if HYGIENE_RE.search(l):
                        bad.append(f"{f.relative_to(LEAN)}:{i}: {l.strip()}")
        if bad:
            self.broken.append({"kind": "hygiene", "hits": bad})
        return not bad

    def audit(self, import_module: str, theorems: List[str]) -> Dict[str, List[str]]:
        """`#print axioms` on every property theorem; returns theorem -> axioms."""
        mods = [import_module] if isinstance(import_module, str) else list(import_module)
        src = "".join(f"import {m}\n" for m in mods) + "".join(f"#print axioms {t}\n" for t in theorems)
        rc, out, err = sh(["lake", "env", "lean", "--stdin"], cwd=LEAN, input=src, timeout=900)
        res: Dict[str, List[str]] = {}
        text = out + err
        for m in re.finditer(r"'([^']+)' depends on axioms: \[([^\]]*)\]", text, re.S):
            res[m.group(1)] = [a.strip() for a in m.group(2).replace("\n", " ").split(",") if a.strip()]
        for m in re.finditer(r"'([^']+)' does not depend on any axioms", text):
            res[m.group(1)] = []
        for t in theorems:
            self.obligations.append(t)
            if t not in res:
                self.broken.append({"kind": "theorem-missing", "theorem": t, "lean_output": text[-1500:]})
            elif not set(res[t]) <= ALLOWED_AXIOMS:
                self.broken.append({"kind": "axioms", "theorem": t, "axioms": res[t]})
            else:
                self.discharged.append(t)
        return res

    def driver(self, rel_file: str, requests: List[Dict[str, Any]], timeout: int = 1200) -> List[Dict[str, Any]]:
        """Run a Lean driver over a list of JSON requests (one per line)."""
        if not requests:
            return []
        inp = "\n".join(json.dumps(r, ensure_ascii=False) for r in requests) + "\n"
        rc, out, err = sh(["lake", "env", "lean", "--run", rel_file], cwd=LEAN, input=inp, timeout=timeout)
        lines = [l for l in out.split("\n") if l.strip()]
        if rc != 0 or len(lines) != len(requests):
            # the model itself no longer builds/runs: a broken obligation, not a crash of the check
            self.broken.append({"kind": "driver", "file": rel_file, "rc": rc, "stderr": err[-2000:], "answers": len(lines), "requests": len(requests)})
            return [{"bad": "driver failed"} for _ in requests]
        res = []
        for l in lines:
            try:
                res.append(json.loads(l))
            except Exception:
                res.append({"bad": "unparsable: " + l[:200]})
        return res

    # ---------------------------------------------------------------- findings
    def disagreement(self, stream: str, case: Any, model: Any, impl: Any):
        self.count("disagreements")
        if len([b for b in self.broken if b.get("kind") == "correspondence"]) < 5:
            self.broken.append({"kind": "correspondence", "stream": stream, "case": case, "model": model, "implementation": impl})

    def violation(self, key: str, what: str, case: Any, observed: Any = None, how: str = ""):
        """A concrete input on which the *implementation* fails the Spec."""
        if key in self._known and self._known[key]["status"] == "known":
            if key not in self.known_hits:
                self.known_hits.append(key)
                print(f"KNOWN-FINDING: property={self.id} {self._known[key]['what']}")
            return
        if len(self.violations) < 5:
            self.violations.append({"key": key, "what": what, "case": case, "observed": observed, "replay_how": how})

    def known_entries(self, status: str) -> List[Dict[str, Any]]:
        return [e for e in self._known.values() if e["status"] == status]

    # ---------------------------------------------------------------- finish
    def finish(self) -> int:
        prop = self.prop
        rc = 0
        REPLAYS.mkdir(exist_ok=True)
        d = REPLAYS / self.id
        if self.violations:
            d.mkdir(exist_ok=True)
            v = self.violations[0]
            h = hashlib.sha1(json.dumps(v["key"], default=str).encode()).hexdigest()[:12]
            path = d / f"{h}.json"
            path.write_text(json.dumps({"property": self.id, "kind": "failing-input", **v, "all": self.violations, "broken": self.broken[:3]}, indent=1, default=str, ensure_ascii=False))
            print(f"VIOLATION property={self.id} replay={relpath(path)}")
            rc = 1
        elif self.broken:
            found = None
            if hasattr(prop, "search"):
                try:
                    found = prop.search(self, self.broken)
                except Exception as e:  # the search is best effort
                    self.notes.append(f"search raised {type(e).__name__}: {e}")
            d.mkdir(exist_ok=True)
            if found is not None and found.get("known"):
                # the only failing inputs the search reaches are listed findings; the broken
                # obligation is still reported
                found = None
            if found is not None:
                h = hashlib.sha1(json.dumps(found.get("key", found), default=str).encode()).hexdigest()[:12]
                path = d / f"{h}.json"
                path.write_text(json.dumps({"property": self.id, "kind": "failing-input", **found, "broken": self.broken[:3]}, indent=1, default=str, ensure_ascii=False))
                print(f"VIOLATION property={self.id} replay={relpath(path)}")
            else:
                b = self.broken[0]
                h = hashlib.sha1(json.dumps(b, default=str, sort_keys=True).encode()).hexdigest()[:12]
                path = d / f"broken-{h}.json"
                path.write_text(json.dumps({"property": self.id, "kind": "no-failing-input-found", "no_longer_checks": self.broken, "notes": self.notes}, indent=1, default=str, ensure_ascii=False))
                print(f"VIOLATION property={self.id} replay={relpath(path)} no-failing-input-found")
            rc = 1
        self.write_evidence(rc)
        return rc

    def write_evidence(self, rc: int):
        prop = self.prop
        EVIDENCE.mkdir(exist_ok=True)
        cov: Dict[str, Any] = {
            "obligations": len(self.obligations),
            "discharged": len(self.discharged),
            "checker_cmd": f"cd lean && lake build {' '.join(prop.LEAN_MODULES)} && #print axioms on {len(self.obligations)} theorems via `lake env lean --stdin`",
            "trusted_base": LEAN_TRUST + list(getattr(prop, "TRUSTED_BASE", [])),
            "theorems": self.obligations,
            "evaluations": self.evaluations,
            "distinct_nontrivial": len(self.nontrivial_keys),
            "rule": getattr(prop, "RULE", ""),
            "samples": self.samples[:6] or ["(no sample recorded)"],
            "distribution": dict(sorted(self.dist.items())),
            "known_findings_reported": self.known_hits,
            "broken_obligations": [b.get("kind") for b in self.broken],
        }
        cov.update(self.extra_cov)
        ev = {
            "property_id": self.id,
            "tier": self.tier,
            "seed": self.seed,
            "level": "proof",
            "coverage": cov,
            "assumptions": list(getattr(prop, "ASSUMPTIONS", [])),
            "wall_s": round(time.time() - self.t0, 2),
            "violations": (len(self.violations) or (1 if self.broken else 0)),
            "notes": self.notes,
        }
        (EVIDENCE / f"{self.id}.json").write_text(json.dumps(ev, indent=1, default=str, ensure_ascii=False) + "\n")


def relpath(p: Path) -> str:
    try:
        return str(p.relative_to(VERIF))
    except ValueError:
        return str(p)


def load_known(pid: str) -> Dict[str, Dict[str, Any]]:
    res: Dict[str, Dict[str, Any]] = {}
    if KNOWN.exists():
        for l in KNOWN.read_text().splitlines():
            l = l.strip()
            if not l or l.startswith("#"):
                continue
            e = json.loads(l)
            if e.get("property") == pid:
                res[e["key"]] = e
    return res


def corpus_cases(pid: str) -> List[Dict[str, Any]]:
    d = CORPUS / pid
    if not d.exists():
        return []
    return [json.loads(p.read_text()) for p in sorted(d.glob("*.json"))]


def repo_on_path():
    """The harness must import the *working tree* of /repo."""
    sys.path.insert(0, str(REPO))
    sys.path.insert(0, str(VERIF / "tools"))
    import func_adl_xAOD  # noqa

    got = Path(func_adl_xAOD.__file__).resolve()
    if REPO.resolve() not in got.parents:
        raise InternalError(f"func_adl_xAOD imported from {got}, not from {REPO}")


def run_check(prop, tier: str, seed: int, replay: Optional[str] = None) -> int:
    ctx = Ctx(prop, tier, seed)
    try:
        repo_on_path()
        if replay:
            return prop.replay(ctx, json.loads(Path(replay).read_text()))
        # 1 translators
        if hasattr(prop, "translate"):
            prop.translate(ctx)
        # 2 proofs
        built = ctx.lake_build(list(prop.LEAN_MODULES) + list(getattr(prop, "SETUP_MODULES", [])))
        # 3 hygiene + audit
        ctx.hygiene(prop.LEAN_SOURCES)
        if built:
            ctx.audit(list(prop.LEAN_MODULES), prop.THEOREMS)
            if tier == "thorough" and not getattr(prop, "OWN_LEANCHECKER", False):
                # the toolchain's independent re-checker replays the compiled declarations through the kernel
                rc, out, err = sh(["lake", "env", "leanchecker"] + list(prop.LEAN_MODULES), cwd=LEAN, timeout=1800)
                ctx.extra_cov["leanchecker"] = "ok" if rc == 0 else "failed"
                if rc != 0:
                    ctx.broken.append({"kind": "leanchecker", "modules": list(prop.LEAN_MODULES), "output": (out + err)[-1500:]})
        else:
            ctx.obligations.extend(prop.THEOREMS)
        # 4+5 findings stream and correspondence stream
        prop.run(ctx)
        return ctx.finish()
    except subprocess.TimeoutExpired as e:
        print(f"INTERNAL: timeout {e}", file=sys.stderr)
        return 2
    except InternalError as e:
        print(f"INTERNAL: {e}", file=sys.stderr)
        return 2
    except Exception:  # a bug of the machinery is never a verdict about the property
        import traceback

        traceback.print_exc()
        return 2
