"""Shared harness of the compiler-group properties (C01–C05, C09): generate queries over the
synthetic data model, push them through the REAL pipeline on a backend, parse the emitted text
into the `Package` JSON, and let the Lean driver (lean/FaxVerif/Cpp/Driver.lean) run
  * `exec` of the implementation's own program on generated events (each event alone and as one job),
  * `denote` of the user-level query on the same events,
  * the verified static checks `WellFormed` / `EventLocal`.
"""
from __future__ import annotations

import json
import re
from typing import Any, Dict, List, Optional, Tuple

import pipeline as P
import qgen

DRIVER = "FaxVerif/Cpp/Driver.lean"
EVENTS_PER_QUERY = 4


class Case:
    def __init__(self, backend: str, query: Dict[str, Any], names: List[str], form: str, events: List[Dict[str, Any]], md=None):
        self.backend = backend
        self.query = query
        self.names = names
        self.form = form
        self.events = events
        self.md = md
        self.counter: Optional[int] = None  # value to give the global name counter before translating
        self.result: Optional[Dict[str, Any]] = None
        self.package: Optional[Dict[str, Any]] = None
        self.answer: Optional[Dict[str, Any]] = None

    def source(self, with_md=False) -> str:
        return qgen.render_functional(self.query, (qgen.metadata(self.backend) if self.md is None else self.md) if with_md else [])

    def key(self) -> str:
        return f"{self.backend}|{self.source()}"

    def to_json(self) -> Dict[str, Any]:
        d = {"backend": self.backend, "query": self.query, "names": self.names, "form": self.form, "events": self.events, "source": self.source()}
        if self.counter is not None:
            d["counter"] = self.counter
        return d

    @staticmethod
    def from_json(j: Dict[str, Any]) -> "Case":
        c = Case(j["backend"], j["query"], j.get("names", []), j.get("form", "?"), j["events"])
        c.counter = j.get("counter")
        return c


def gen_case(rng, backend: Optional[str] = None, nevents: int = EVENTS_PER_QUERY, empty_bias=0.25, **genkw) -> Case:
    b = backend or rng.choice(P.BACKENDS)
    g = qgen.Gen(rng, b, **genkw)
    q, names, form = g.top()
    banks = qgen.banks_used(q)
    evs = [qgen.gen_event(rng, b, banks, empty_bias=empty_bias) for _ in range(nevents)]
    return Case(b, q, names, form, evs)


def set_counter(case: Case):
    if case.counter is not None:
        import func_adl_xAOD.common.cpp_vars as cv

        cv.unique_var_index = case.counter


def translate(case: Case) -> Case:
    set_counter(case)
    src = qgen.render_functional(case.query, qgen.metadata(case.backend) if case.md is None else case.md)
    case.result = P.translate_functional(case.backend, src)
    if case.result["ok"]:
        case.package = qgen.package_json(case.result)
    return case


def request(case: Case, with_query=True) -> Dict[str, Any]:
    return {
        "op": "run",
        "package": {k: case.package[k] for k in ("body", "class_vars", "branches", "tree", "tokens")},
        "events": case.events,
        "query": case.query if with_query else None,
        "coll_types": qgen.coll_types(case.backend),
    }


def run_cases(ctx, cases: List[Case], with_query=True) -> None:
    """Translate every case and attach the driver's answer to the accepted ones."""
    for c in cases:
        if c.result is None:
            translate(c)
    acc = [c for c in cases if c.result["ok"]]
    ans = ctx.driver(DRIVER, [request(c, with_query) for c in acc], timeout=1500)
    for c, a in zip(acc, ans):
        c.answer = a


def fault_class(r: Dict[str, Any]) -> str:
    f = r.get("fault")
    if f is None:
        return "ok"
    return f.split(":")[0] if f.startswith("stuck") else f


def same_outcome(ex: Dict[str, Any], de: Dict[str, Any]) -> Tuple[bool, str]:
    """exec (implementation's program) vs denote (query) on one event: rows by numeric value, faults by class."""
    fe, fd = fault_class(ex), fault_class(de)
    if fe != "ok" or fd != "ok":
        if fe == fd:
            return True, "fault-agree"
        return False, f"exec {ex.get('fault', 'ok')} / query {de.get('fault', 'ok')}"
    if _norm_num(ex["num"]) == _norm_num(de["num"]):
        return True, "rows-agree"
    return False, "rows differ"


def _norm_num(x):
    """-0.0 and 0.0 are the same number (IEEE ==); an empty floating Sum times a negative value
    is -0.0 in C++ and 0 in Python."""
    if isinstance(x, list):
        return [_norm_num(y) for y in x]
    if isinstance(x, str):
        return re.sub(r"(?<![\d.])-0\.000000(?!\d)", "0.000000", x)
    return x


def count_case(ctx, c: Case):
    ctx.count(f"backend:{c.backend}")
    ctx.count(f"form:{c.form}")
    for op, n in qgen.ops_used(c.query).items():
        ctx.count(f"op:{op}", n)


def nontrivial(c: Case) -> bool:
    """>= 2 distinct operators and at least one generated event on which the query has a row."""
    if len(qgen.ops_used(c.query)) < 2:
        return False
    if c.answer is None or "bad" in c.answer:
        return False
    den = c.answer.get("denote") or []
    return any("num" in d and d["num"] for d in den)


def shrink_events(ctx, c: Case, still_fails) -> Case:
    """Keep a single failing event if one suffices."""
    for ev in c.events:
        c1 = Case(c.backend, c.query, c.names, c.form, [ev])
        c1.result, c1.package = c.result, c.package
        run_cases(ctx, [c1])
        if c1.answer and still_fails(c1):
            return c1
    return c
