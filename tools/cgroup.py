"""Shared harness of the compiler-group properties (C01–C05, C09): generate queries over the
synthetic data model, push them through the REAL pipeline on a backend, parse the emitted text
into the `Package` JSON, and let the Lean driver (lean/FaxVerif/Cpp/Driver.lean) run
  * `exec` of the implementation's own program on generated events (each event alone and as one job),
  * `denote` of the user-level query on the same events,
  * the verified static checks `WellFormed` / `EventLocal`.
"""
from __future__ import annotations

import json
import re
from typing import Any, Dict, List, Optional, Tuple

import pipeline as P
import qgen

DRIVER = "FaxVerif/Cpp/Driver.lean"
DRIVER_IMPORTS = ["FaxVerif.Cpp.Json", "FaxVerif.Gen.Render", "FaxVerif.C03.Spec", "FaxVerif.Cpp.Check", "FaxVerif.C04.Shapes", "FaxVerif.Gen.GuardedFirst", "FaxVerif.Cpp.Parse", "FaxVerif.Cpp.ParseSpec"]  # what the drivers import (Cpp/Driver.lean and the parse-tie driver Cpp/ParseDriver.lean)
EVENTS_PER_QUERY = 4


class Case:
    def __init__(self, backend: str, query: Dict[str, Any], names: List[str], form: str, events: List[Dict[str, Any]], md=None):
        self.backend = backend
        self.query = query
        self.names = names
        self.form = form
        self.events = events
        self.md = md
        self.counter: Optional[int] = None  # value to give the global name counter before translating
        self.family = "top"  # generator family (not part of the case's identity)
        self.lean_query: Optional[Dict[str, Any]] = None  # the query as the Lean reference reads it, when it differs in spelling (negative index)
        self.result: Optional[Dict[str, Any]] = None
        self.package: Optional[Dict[str, Any]] = None
        self.answer: Optional[Dict[str, Any]] = None

    def source(self, with_md=False) -> str:
        return qgen.render_functional(self.query, (qgen.metadata(self.backend) if self.md is None else self.md) if with_md else [])

    def key(self) -> str:
        return f"{self.backend}|{self.source()}"

    def to_json(self) -> Dict[str, Any]:
        d = {"backend": self.backend, "query": self.query, "names": self.names, "form": self.form, "events": self.events, "source": self.source()}
        if self.counter is not None:
            d["counter"] = self.counter
        if self.lean_query is not None:
            d["lean_query"] = self.lean_query
        return d

    @staticmethod
    def from_json(j: Dict[str, Any]) -> "Case":
        c = Case(j["backend"], j["query"], j.get("names", []), j.get("form", "?"), j["events"])
        c.counter = j.get("counter")
        c.lean_query = j.get("lean_query")
        return c


def gen_case(rng, backend: Optional[str] = None, nevents: int = EVENTS_PER_QUERY, empty_bias=0.25, family: str = "top", **genkw) -> Case:
    b = backend or rng.choice(P.BACKENDS)
    g = qgen.Gen(rng, b, **genkw)
    q, names, form = g.top_first_mix() if family == "first_mix" else g.top()
    banks = qgen.banks_used(q)
    evs = [qgen.gen_event(rng, b, banks, empty_bias=empty_bias) for _ in range(nevents)]
    c = Case(b, q, names, form, evs)
    c.family = family
    return c


def set_counter(case: Case):
    if case.counter is not None:
        import func_adl_xAOD.common.cpp_vars as cv

        cv.unique_var_index = case.counter


def translate(case: Case) -> Case:
    set_counter(case)
    src = qgen.render_functional(case.query, qgen.metadata(case.backend) if case.md is None else case.md)
    case.result = P.translate_functional(case.backend, src)
    if case.result["ok"]:
        case.package = qgen.package_json(case.result)
    return case


def request(case: Case, with_query=True) -> Dict[str, Any]:
    return {
        "op": "run",
        "package": {k: case.package[k] for k in ("body", "class_vars", "branches", "tree", "tokens")},
        "events": case.events,
        "query": (case.lean_query or case.query) if with_query else None,
        "coll_types": qgen.coll_types(case.backend),
    }


def run_cases(ctx, cases: List[Case], with_query=True) -> None:
    """Translate every case and attach the driver's answer to the accepted ones."""
    for c in cases:
        if c.result is None:
            translate(c)
    acc = [c for c in cases if c.result["ok"]]
    ans = ctx.driver(DRIVER, [request(c, with_query) for c in acc], timeout=1500)
    for c, a in zip(acc, ans):
        c.answer = a


def attach_syntax(cases: List["Case"]) -> None:
    """g++ -fsyntax-only (with -Wfloat-conversion) on every accepted program"""
    import cppmock

    todo = [c for c in cases if c.result and c.result.get("ok") and getattr(c, "gxx_syntax", None) is None]
    outs = cppmock.syntax_checks([(c.backend, c.result, c.events) for c in todo]) if todo else []
    for c, o in zip(todo, outs):
        c.gxx_syntax = o


def needs_gxx(c: "Case") -> bool:
    """the Lean semantics cannot interpret the emitted program faithfully: an unrecognised line / construct, or an
    implicit floating-to-integer conversion on assignment (found by g++ -Wfloat-conversion)"""
    a = c.answer
    if a is None or "bad" in a:
        return False
    sx = getattr(c, "gxx_syntax", None)
    if sx and sx.get("compiled") and sx.get("narrowing"):
        return True
    outs = list(a.get("exec") or []) + [a.get("job") or {}]
    return any(str(o.get("fault", "")).startswith("stuck:opaque") for o in outs)


def attach_gxx(cases: List["Case"], per_event: bool = True, job: bool = False, rev: bool = False) -> None:
    """Run the REAL generated code (the per-event method's body as the rendered template has it) under g++ against
    the mock EDM (tools/cppmock.py): each event alone (`gxx_exec`), all events as one job (`gxx_job`), the
    reversed job (`gxx_rev`; event order as run). One compilation per case."""
    import cppmock

    todo = [c for c in cases if c.result and c.result.get("ok")]
    outs = cppmock.run_cases([(c.backend, c.result, c.events, per_event, job, rev) for c in todo]) if todo else []
    for c in cases:
        c.gxx_exec = [None] * len(c.events)
        c.gxx_job = None
        c.gxx_rev = None
    for c, o in zip(todo, outs):
        if not o.get("compiled"):
            bad = {"compiled": False, "errors": o.get("errors", "")}
            c.gxx_exec = [gxx_outcome(bad, 0) for _ in c.events]
            c.gxx_job = bad if job else None
            c.gxx_rev = bad if rev else None
            continue
        if per_event:
            c.gxx_exec = [gxx_outcome(x, 0) for x in o["per"]]
        if job:
            c.gxx_job = o["job"]
        if rev:
            c.gxx_rev = o["rev"]


def gxx_outcome(o: Dict[str, Any], i: int) -> Dict[str, Any]:
    if not o.get("compiled"):
        return {"fault": "does-not-compile", "errors": o.get("errors", "")[-800:]}
    if o.get("rc", 0) != 0 and i >= len(o.get("events", [])):
        return {"fault": f"crashed(rc={o.get('rc')})"}
    ev = o["events"][i] if i < len(o.get("events", [])) else {"rows": []}
    if "fault" in ev:
        return {"fault": ev["fault"], "num": ev["rows"]}
    if o.get("rc", 0) != 0 and i == len(o["events"]) - 1:
        return {"fault": f"crashed(rc={o.get('rc')})", "num": ev["rows"]}
    return {"num": ev["rows"], "rows": ev["rows"], "by": "g++"}


def exec_outcomes(c: "Case") -> List[Dict[str, Any]]:
    """per-event outcomes of the implementation's program: Lean semantics, or g++ where attached"""
    a = c.answer or {}
    res = []
    for i, ex in enumerate(a.get("exec") or []):
        g = getattr(c, "gxx_exec", None)
        res.append(g[i] if g and g[i] is not None else ex)
    return res


def fault_class(r: Dict[str, Any]) -> str:
    f = r.get("fault")
    if f is None:
        return "ok"
    return f.split(":")[0] if f.startswith("stuck") else f


def same_outcome(ex: Dict[str, Any], de: Dict[str, Any]) -> Tuple[bool, str]:
    """exec (implementation's program) vs denote (query) on one event: rows by numeric value, faults by class."""
    fe, fd = fault_class(ex), fault_class(de)
    if fe != "ok" or fd != "ok":
        if fe == fd:
            return True, "fault-agree"
        return False, f"exec {ex.get('fault', 'ok')} / query {de.get('fault', 'ok')}"
    if _norm_num(ex["num"]) == _norm_num(de["num"]):
        return True, "rows-agree"
    if rows_num_eq(ex["num"], de["num"]):
        return True, "rows-agree"
    return False, "rows differ"


def rows_num_eq(a, b) -> bool:
    """numeric comparison cell by cell (used when one side was printed by g++)"""
    import cppmock

    if len(a) != len(b):
        return False
    for r1, r2 in zip(a, b):
        if len(r1) != len(r2) or not all(cppmock.num_eq(str(x), str(y)) for x, y in zip(r1, r2)):
            return False
    return True


def _norm_num(x):
    """-0.0 and 0.0 are the same number (IEEE ==); an empty floating Sum times a negative value
    is -0.0 in C++ and 0 in Python."""
    if isinstance(x, list):
        return [_norm_num(y) for y in x]
    if isinstance(x, str):
        return re.sub(r"(?<![\d.])-0\.000000(?!\d)", "0.000000", x)
    return x


def count_case(ctx, c: Case):
    ctx.count(f"backend:{c.backend}")
    ctx.count(f"form:{c.form}")
    for op, n in qgen.ops_used(c.query).items():
        ctx.count(f"op:{op}", n)


def nontrivial(c: Case) -> bool:
    """>= 2 distinct operators and at least one generated event on which the query has a row."""
    if len(qgen.ops_used(c.query)) < 2:
        return False
    if c.answer is None or "bad" in c.answer:
        return False
    den = c.answer.get("denote") or []
    return any("num" in d and d["num"] for d in den)


def shrink_events(ctx, c: Case, still_fails) -> Case:
    """Keep a single failing event if one suffices."""
    for ev in c.events:
        c1 = Case(c.backend, c.query, c.names, c.form, [ev])
        c1.result, c1.package = c.result, c.package
        run_cases(ctx, [c1])
        if c1.answer and still_fails(c1):
            return c1
    return c
